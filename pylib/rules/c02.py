"""C02 - the parser accepts exactly the well-formed messages (structural clauses)."""
from rules import parser as P

LEVEL = "other"


def run(prog, chk, tier):
    chk.explanation = "work in progress: ending-attribute automaton only"
    P.parser_automaton(prog, chk)
