"""C02 - the parser accepts exactly the well-formed messages (structural clauses, DESIGN section 3 C02)."""
import re
from absint.lin import Lin
from absint.values import *
from mir import Origins, strip, const_int
from rules import parser as P
from rules import parse_e2 as PE
from rules.c17 import shape, offsets

THOROUGH_CONFIGS = ("release", "arbitrary")
LEVEL = "other"
MSG = "stun_types::message::Message::<'a>::"


def run(prog, chk, tier):
    chk.explanation = ("Structural necessary conditions of the accepted language, each decided for all inputs: (1) length agreement "
                       "len(buffer) = declared length + 20 on every Ok return (E2); (2) header acceptance table; (3) ordering of the ending "
                       "attributes: the walk is executed abstractly with the decoder of one attribute replaced by a summary handing out an "
                       "attribute of a chosen class (MI, MI-SHA256, FINGERPRINT, other) with symbolic length and bytes; every class sequence "
                       "up to a bound is its own path and is compared with the specification (only integrity/fingerprint after integrity, "
                       "nothing after FINGERPRINT, no repeats, refusal naming the offending type, acceptance of a FINGERPRINT only after "
                       "the CRC comparison succeeded); in the thorough tier the bookkeeping the walk carries is shown to revisit explored "
                       "situations beyond the bound; (4) tiling: the walk advances by "
                       "padded_len of the attribute just parsed, refuses an over-long attribute, returns Ok only on an empty remainder; "
                       "(6) faithful exposure: getters read the offsets the header decoder validated, lookups are first-match over the "
                       "iterator; (7) error fields: Truncated has expected > actual, TooLarge expected < actual. NOT decided: equality with "
                       "an independent reference decoder on arbitrary bytes; CRC arithmetic.")
    chk.trusted += ["external-callee model table", "spec tables transcribed from the property statement", "rustc MIR construction"]
    from rules import walk_e2 as W
    W.ending_automaton(prog, chk, depth=4 if tier == "quick" else 5)
    e2_clauses(prog, chk)
    tiling(prog, chk)
    offsets(prog, chk, rule="faithful-exposure")
    lookups(prog, chk)


def e2_clauses(prog, chk):
    a = PE.analyse(prog)
    n_ok = 0
    for st, ret, L, m in a["full"]:
        c = PE.classify(prog, ret)
        if c[0] == "Ok":
            n_ok += 1
            ok = m is not None and st.sys.entails_eq(L - m - 20)
            chk.ob("length-agreement", "Message::from_bytes|Ok", ok,
                   detail="an Ok return does not entail len(buffer) = declared length + 20" if not ok else None, how="E2 return state")
            # the Message returned holds exactly the input slice
            d = c[1].get(0) if isinstance(c[1], Struct) else None
            ok = isinstance(d, Seq) and st.sys.entails_eq(d.len - L)
            chk.ob("length-agreement", "Message.data is the whole input buffer", ok, how="E2 return state")
        elif c[0] == "Err" and c[2] is not None and c[1] in ("Truncated", "TooLarge"):
            e, av = c[2].get(0), c[2].get(1)
            if isinstance(e, Num) and isinstance(av, Num):
                if c[1] == "Truncated":
                    ok = st.sys.entails_ge(e.e - av.e - 1)
                    chk.ob("error-fields", "Truncated: expected > actual", ok, detail="%r" % (c[2],), how="E2 return state")
                elif m is not None and st.sys.entails_eq(e.e - m - 20):
                    ok = st.sys.entails_ge(av.e - e.e - 1) and st.sys.entails_eq(av.e - L)
                    chk.ob("error-fields", "TooLarge{declared + 20, len}: expected < actual = len", ok, detail="%r" % (c[2],), how="E2 return state")
        elif c[0] == "?":
            chk.fail("length-agreement", "unclassified return state of Message::from_bytes", detail=repr(ret)[:200])
    chk.floor("ok-return-states", n_ok, 1)
    # excess bytes are refused: no Ok state is feasible with len > declared + 20 (implied by the equality), and the
    # refusal is TooLarge
    kinds = {PE.classify(prog, r)[1] for _, r, _, _ in a["full"] if PE.classify(prog, r)[0] == "Err"}
    chk.ob("length-agreement", "a buffer longer than declared is refused as TooLarge", "TooLarge" in kinds, how="E2 return states")


def header_table(prog, chk):
    """MessageHeader::from_bytes returns Ok iff len >= 20, top two bits of the type word zero, cookie matches"""
    a = PE.analyse(prog)
    kinds = []
    for st, ret, L in a["header"]:
        c = PE.classify(prog, ret)
        kinds.append(c[1] if c[0] == "Err" else c[0])
    chk.ob("header-acceptance", "outcomes are Ok | NotStun | Truncated", set(kinds) <= {"Ok", "NotStun", "Truncated"} and "Ok" in kinds and "NotStun" in kinds,
           detail=repr(kinds), how="E2 return states")
    # constants: mask 0xC000 in MessageType::from_bytes, cookie comparison with MAGIC_COOKIE after >> 96
    mb = prog.bodies[PE.HDR_FROM_BYTES.replace("MessageHeader", "MessageType")]
    og = Origins(prog, mb)
    masks = []
    for bi, si, s in mb.iter_stmts():
        if s["k"] == "assign" and s["rv"]["k"] == "binop" and s["rv"]["op"] == "BitAnd":
            for side in ("a", "b"):
                cv = const_int(og.operand(s["rv"][side]))
                if cv is not None:
                    masks.append(cv)
    chk.ob("header-acceptance", "MessageType::from_bytes masks the type word with exactly 0xC000", masks == [0xC000], detail=repr([hex(m) for m in masks]), how="constant")
    hb = prog.bodies[PE.HDR_FROM_BYTES]
    hog = Origins(prog, hb)
    cmp_ok = False
    for bi, si, s in hb.iter_stmts():
        if s["k"] == "assign" and s["rv"]["k"] == "binop" and s["rv"]["op"] in ("Ne", "Eq"):
            sa, sb = shape(hog.operand(s["rv"]["a"])), shape(hog.operand(s["rv"]["b"]))
            for x, y in ((sa, sb), (sb, sa)):
                if y == ("const", 0x2112A442) and isinstance(x, tuple) and x[0] == "cast" and isinstance(x[1], tuple) and x[1][0] == "bin" and x[1][1] == "Shr" and x[1][3] == ("const", 96):
                    cmp_ok = True
    chk.ob("header-acceptance", "the cookie is the top 32 bits of the 128-bit word at offset 4, compared with 0x2112A442", cmp_ok, how="origin + constant")


def tiling(prog, chk):
    """the walk advances by the padded length of the attribute just decoded, from offset 20, and accepts only when the
    attributes end exactly at the end of the buffer: decided inside the scripted walk (rule instances `tiling` and the
    per-sequence acceptance clause of `ending-automaton`); the over-long attribute is refused before the advance (E2
    obligation of the real decoder)"""
    from rules.c01 import FROM_BYTES
    it = PE.analyse(prog)["full_interp"]
    bad = [o for o in it.obligations.values() if o.body.startswith(FROM_BYTES) and o.kind == "index:start" and not o.ok]
    n = sum(1 for o in it.obligations.values() if o.body.startswith(FROM_BYTES) and o.kind.startswith("index:"))
    chk.ob("tiling", "the advance past an attribute never over-runs the buffer (an over-long attribute is refused first)", n >= 1 and not bad, how="E2 obligation")


def lookups(prog, chk):
    """raw_attribute / attribute / has_attribute are first-match searches over iter_attributes()"""
    from dtable import instrumented_body
    from rules import police_e2
    police_e2.lookups(prog, chk)        # raw_attribute / has_attribute: decided semantically over a listed iterator
    for fn, adaptor in (("attribute", "find"),):
        b, ups = instrumented_body(prog, MSG + fn)
        og = Origins(prog, b)
        found = False
        others = []
        for bi, t in b.calls():
            name = og.callee_name(t)
            m = re.match(r"^<(.*) as std::iter::Iterator>::(\w+)(::<.*>)?$", name)
            if not m:
                continue
            recv = shape(og.operand(t["args"][0]))
            if m.group(2) == adaptor and "MessageAttributesIter" in m.group(1) and not re.search(r"std::iter::(Rev|Skip|Take|StepBy)", m.group(1)):
                src = repr(recv)
                if "iter_attributes" in src:
                    found = True
            elif m.group(2) not in ("next",):
                others.append(m.group(2))
        # the value returned is that search's result on every path (no side door that answers from elsewhere)
        ret = shape(og.local(0))
        chain = ret
        for _ in range(3):
            if isinstance(chain, tuple) and chain[0] == "call" and re.search(r"::(and_then|ok_or|map|ok_or_else)(::<.*>)?$", chain[1]):
                chain = chain[2][0]
        sole = isinstance(chain, tuple) and chain[0] == "call" and re.search(r"MessageAttributesIter.* as std::iter::Iterator>::%s(::<.*>)?$" % adaptor, chain[1]) is not None \
            and "iter_attributes" in repr(chain[2][0])
        chk.ob("faithful-exposure", "Message::%s is `%s` over iter_attributes() (first match, no reordering adaptor)" % (fn, adaptor), found and not others and sole,
               detail="other adaptors: %s; returned value: %s" % (others, repr(ret)[:160]), how="callee identity + origin of the returned value")
    # iter_attributes starts the shared walker at offset 20 over self.data
    b = prog.bodies[MSG + "iter_attributes"]
    og = Origins(prog, b)
    import e1
    sites = [s for s in e1.construct_sites(prog, "stun_types::message::MessageAttributesIter") if s["body"] == b.key]
    ok = False
    if len(sites) == 1:
        ops = [shape(og.operand(o)) for o in sites[0]["stmt"]["rv"]["ops"]]
        ok = ops[1] == ("const", 20) and isinstance(ops[0], tuple) and ops[0][0] == "field" and ops[0][2] == "data" and ops[2] == ("const", False)
    chk.ob("faithful-exposure", "iter_attributes() starts at offset 20 of self.data with no integrity seen", ok, how="origin + constant")
