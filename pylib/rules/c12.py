"""C12 - all serialisation paths produce identical bytes: the clauses visible in the shape of the code.

Decided, for every value (under the property's in-limit assumption that variable-length fields fit the 16-bit
length), by abstract interpretation with a write log on the destination buffer (high-water mark hw: every byte of
[0, hw) written; zlo: bytes of [zlo, hw) written as zero):
 * each of the 21 in-place writers (20 typed attributes + RawAttribute), given dest.len() >= padded_len():
   writes append-only, ends with hw == padded_len() exactly (every byte of the reported length is written - the result
   never depends on what the buffer held before - and nothing beyond it is touched), the padding
   [4 + length(), padded_len()) is written as zero, and no index/copy obligation is open;
 * the guarded writers: AttributeWriteExt::write_into returns Err(TooSmall{expected: padded_len(), actual: dest.len()})
   without having written anything iff padded_len() > dest.len(), else Ok(padded_len());
   MessageBuilder::write_into: every write is dominated by the false arm of `byte_len() > dest.len()`, whose true arm
   returns TooSmall{byte_len(), dest.len()}; its header writes cover exactly [0, 20); attributes go through the
   guarded per-attribute writer at the accumulated offset;
 * build() allocates byte_len() zero bytes and calls write_into on them; into_owned()/clone() are element-wise;
 * THE TWO WRITERS AGREE (content tracking): for each attribute type, `write_into_unchecked(dest)` and `to_raw()` are analysed on
   the same symbolic value; the bytes the in-place writer leaves in [0, 4 + length()) are compared piece by piece (a field's
   bytes, the big-endian bytes of a number, constants, zeros - described by where they come from, not by statement shape) with
   type ++ declared length ++ value of the raw form, whose declared length must be the length of its value;
   RawAttribute::to_bytes() is type ++ declared length ++ whole value ++ zero padding to the next multiple of four, and every
   site constructing a RawAttribute (new, new_owned, from_bytes, into_owned, clone) declares exactly the length of the value
   it stores and keeps type and value bytes.  Decided today for 15 of the 20 writers; the address attributes (std::net
   getters and the xor are opaque), the two element-wise lists and the xor-ed FINGERPRINT are reported in the evidence as not
   decided - for those, and for values beyond the in-limit assumption, byte equality of the two paths is NOT decided."""
import re
from absint.lin import Lin
from absint.values import *
from absint.interp import Interp, FailClosed, Frame, State, ISIZE_MAX
from absint.models import M
from rules.c01 import INVARIANTS
from rules import parse_e2 as PE
from mir import Origins, strip, const_int
from rules.c17 import shape
import e1

THOROUGH_CONFIGS = ("release", "arbitrary")
LEVEL = "other"
A = "stun_types::attribute::"
IN_LIMIT = 65531
IN_LIMIT_ELEMS = {"PasswordAlgorithms": 16382, "UnknownAttributes": 32765}      # element counts whose encoding fits 65531 bytes


def writer_types(prog):
    """(self type string, write_into_unchecked key) for every workspace impl of AttributeWrite"""
    out = []
    for path, i in prog.trait_method_impls(A + "AttributeWrite", "write_into_unchecked"):
        if path in prog.bodies and i["crate"] == "stun_types":
            out.append((i["self_s"], path))
    return sorted(out)


def mono_key(prog, generic, self_s):
    """key of the monomorphic instance `generic[Self]`"""
    want = re.sub(r"<'[a-z_]+>", "<'_>", self_s)
    for k in (generic + "[" + want + "]", generic + "[" + self_s + "]", generic + "[" + re.sub(r"<'[a-z_]+>", "", self_s) + "]"):
        if k in prog.bodies:
            return k
    return None


def all_leaf_seqs(v, out, depth=0):
    if isinstance(v, Seq):
        out.append(v)
    elif isinstance(v, Struct) and depth < 6:
        for x in v.f.values():
            all_leaf_seqs(x, out, depth + 1)
    elif isinstance(v, Enum) and depth < 6:
        for x in v.v.values():
            all_leaf_seqs(x, out, depth + 1)


def run_writer(prog, self_s, key, guarded=False):
    """analyse one writer with the destination tracked; -> (interp, [(state, ret, P, L, D)])"""
    it = Interp(prog, M, INVARIANTS)
    body = prog.bodies[key]
    fr = Frame("E[w]", body, 0, frozenset())
    st = State()
    st.cells[it.cell_of(fr, 1)] = it.top_of(st, body, body.locals[1]["ty"], hint="a1", region_prefix=fr.id + ":a1")
    # in-limit assumption of the property: every variable-length field fits the 16-bit attribute length
    for c, v in list(st.cells.items()):
        seqs = []
        all_leaf_seqs(v, seqs)
        lim = IN_LIMIT_ELEMS.get(self_s.split("::")[-1].split("<")[0], IN_LIMIT)
        for s in seqs:
            if not s.len.is_const():
                st.sys.add_ge(Lin.const(lim) - s.len)
    D = it.fresh_num(st, 0, ISIZE_MAX, "destlen").e
    st.cells[it.cell_of(fr, 2)] = Seq(D, None, None, ("dest", Lin.const(0)))
    st.cells["wlog:dest"] = Struct({0: Num(Lin.const(0)), 1: Num(Lin.const(0)), 2: Num(Lin.const(0))})
    st.cells["ghost:D"] = Num(D)
    selfv = st.cells[it.cell_of(fr, 1)]
    # padded_len(self) and length(self) evaluated on the same symbolic value, before the writer runs
    pk = mono_key(prog, "<A as " + A + "AttributeExt>::padded_len", self_s)
    lk = None
    for path, i in prog.trait_method_impls(A + "Attribute", "length"):
        if i["self_s"] == self_s:
            lk = path
    if pk is None or lk is None:
        raise FailClosed("padded_len / length instance not found for %s" % self_s)
    states = [st]
    out_states = []
    for s0 in states:
        for s1, P in it.call_local(s0, fr, 9000, pk, [selfv], {"span": body.span}):
            if not isinstance(P, Num):
                raise FailClosed("padded_len not numeric for %s" % self_s)
            for s2, L in it.call_local(s1, fr, 9001, lk, [selfv], {"span": body.span}):
                if not isinstance(L, Num):
                    raise FailClosed("length not numeric for %s" % self_s)
                s2.cells["ghost:P"] = P
                s2.cells["ghost:Len"] = L
                if not guarded:
                    s2.sys.add_ge(D - P.e)
                out_states.append(s2)
    it.obligations.clear()      # obligations of the two helper evaluations are C01's business
    res = []
    for s2 in out_states:
        if s2.sys.bottom or not s2.sys.feasible():
            continue
        for s3, ret in it.run_body(fr, s2):
            res.append((s3, ret))
    return it, res


def wl(st):
    g = st.cells.get("wlog:dest")
    return (g.get(0).e, g.get(1).e, g.get(2).e) if isinstance(g, Struct) else None


def run(prog, chk, tier):
    chk.explanation = __doc__.split("\n\n", 1)[1]
    chk.trusted += ["external-callee model table (byteorder writes N bytes at the start of the slice; copy_from_slice / fill write the whole slice)",
                    "rustc MIR construction"]
    chk.assumptions.append("in-limit values: every variable-length field is at most %d bytes (the property's quantifier), so `len as u16` is lossless" % IN_LIMIT)
    ws = writer_types(prog)
    chk.floor("in-place-writers", len(ws), 20)
    for self_s, key in ws:
        nm = self_s.split("::")[-1]
        try:
            it, res = run_writer(prog, self_s, key)
        except FailClosed as e:
            chk.fail("writer-coverage", "%s: analysis failed closed" % nm, detail=str(e))
            continue
        n = 0
        for st, ret in res:
            if not st.sys.feasible():
                continue
            n += 1
            hw, zlo, broken = wl(st)
            P, L = st.cells["ghost:P"].e, st.cells["ghost:Len"].e
            ok1 = st.sys.entails_eq(broken)
            chk.ob("writer-coverage", "%s::write_into_unchecked writes append-only (no gap, no zero-fill over data)" % nm, ok1,
                   where=prog.bodies[key].loc(), detail="a write is not provably adjacent to what was written before", how="E2 write log")
            ok2 = st.sys.entails_eq(hw - P)
            chk.ob("writer-coverage", "%s::write_into_unchecked writes exactly [0, padded_len())" % nm, ok2, where=prog.bodies[key].loc(),
                   detail="high-water mark %r vs padded_len %r" % (st.sys.reduce(hw), st.sys.reduce(P)), how="E2 write log")
            ok3 = st.sys.entails_ge(L + 4 - zlo)
            chk.ob("zero-padding", "%s::write_into_unchecked writes the padding [4 + length(), padded_len()) as zero" % nm, ok3, where=prog.bodies[key].loc(),
                   detail="trailing zero run starts at %r, value ends at %r" % (st.sys.reduce(zlo), st.sys.reduce(L + 4)), how="E2 write log")
        chk.ob("writer-coverage", "%s::write_into_unchecked was analysed to a return" % nm, n >= 1)
        bad = [o for o in it.obligations.values() if not o.ok]
        chk.ob("writer-bounds", "%s::write_into_unchecked: every index/copy precondition holds given dest.len() >= padded_len()" % nm, not bad,
               where=(bad[0].span if bad else None), detail="; ".join("%s %s" % (o.kind, o.why) for o in bad[:2]), how="E2 obligations (%d)" % len(it.obligations))
    guarded_attribute_writer(prog, chk, ws)
    two_writers(prog, chk, ws)
    raw_serialiser(prog, chk)
    builder(prog, chk)


def guarded_attribute_writer(prog, chk, ws):
    gen = "<A as " + A + "AttributeWriteExt>::write_into"
    n = 0
    for self_s, key in ws:
        nm = self_s.split("::")[-1]
        gk = mono_key(prog, gen, self_s)
        if gk is None:
            continue
        try:
            it, res = run_writer(prog, self_s, gk, guarded=True)
        except FailClosed as e:
            chk.fail("guarded-writer", "%s: analysis failed closed" % nm, detail=str(e))
            continue
        n += 1
        for st, ret in res:
            if not st.sys.feasible():
                continue
            hw, zlo, broken = wl(st)
            P, D = st.cells["ghost:P"].e, st.cells["ghost:D"].e
            c = PE.classify(prog, ret)
            if c[0] == "Ok":
                ok = isinstance(c[1], Num) and st.sys.entails_eq(c[1].e - P) and st.sys.entails_eq(hw - P) and st.sys.entails_ge(D - P)
                chk.ob("guarded-writer", "%s::write_into: Ok(padded_len()) with exactly that many bytes written, only when they fit" % nm, ok, how="E2 return state")
            elif c[0] == "Err":
                pay = c[2]
                ok = c[1] == "TooSmall" and pay is not None and isinstance(pay.get(0), Num) and isinstance(pay.get(1), Num) and \
                    st.sys.entails_eq(pay.get(0).e - P) and st.sys.entails_eq(pay.get(1).e - D) and st.sys.entails_ge(P - D - 1) and st.sys.entails_eq(hw)
                chk.ob("guarded-writer", "%s::write_into: refusal is TooSmall{padded_len(), dest.len()}, only when too small, nothing written" % nm, ok,
                       detail="%s %r hw=%r" % (c[1], pay, st.sys.reduce(hw)), how="E2 return state")
    chk.floor("guarded-writers", n, 15)


def builder(prog, chk):
    from dtable import instrumented_body
    MBK = "stun_types::message::MessageBuilder::<'a>::"
    b, ups = instrumented_body(prog, MBK + "write_into")
    og = Origins(prog, b)
    # the guard: switch on Gt(byte_len(), dest.len())
    guard = None
    for bi in sorted(b.reachable()):
        t = b.term(bi)
        if t["k"] == "switch":
            o = strip(og.operand(t["op"]))
            if o.k == "bin" and o.a[0] in ("Gt", "Lt"):
                sa, sb = repr(o.a[1]), repr(o.a[2])
                if ("byte_len" in sa and "::len" in sb) or ("byte_len" in sb and "::len" in sa):
                    guard = (bi, t, o)
                    break
    if not chk.ob("builder-guard", "MessageBuilder::write_into compares byte_len() with dest.len()", guard is not None, where=b.loc()):
        return
    gb, gt, go = guard
    big_is_first = "byte_len" in repr(go.a[1])
    too_small_val = 1 if (go.a[0] == "Gt") == big_is_first else 0
    fit_succ = [x for v, x in gt["targets"] if v != too_small_val]
    fit = fit_succ[0] if (too_small_val == 1 and gt["targets"]) else gt["otherwise"]
    if too_small_val == 1:
        fit = [x for v, x in gt["targets"] if v == 0][0] if any(v == 0 for v, x in gt["targets"]) else gt["otherwise"]
        small = gt["otherwise"] if not any(v == 1 for v, x in gt["targets"]) else [x for v, x in gt["targets"] if v == 1][0]
    else:
        small = [x for v, x in gt["targets"] if v == 0][0] if any(v == 0 for v, x in gt["targets"]) else gt["otherwise"]
        fit = gt["otherwise"]
    writes = []
    for bi, t in b.calls():
        name = og.callee_name(t)
        if re.search(r"ByteOrder>::write_u|copy_from_slice|::fill$|AttributeWriteExt>::write_into|AttrOrRaw::<'a>::write_into|MessageType::write_into|write_into_unchecked|IndexMut<", name):
            writes.append((bi, name))
    # writes inside closures created in this body (fold / try_fold / for_each bodies) count at the block that creates them
    WR = r"ByteOrder>::write_u|copy_from_slice|::fill$|AttributeWriteExt>::write_into|AttrOrRaw::<'a>::write_into|MessageType::write_into|write_into_unchecked|IndexMut<"
    for bi, si, s_ in b.iter_stmts():
        if s_["k"] == "assign" and s_["rv"]["k"] == "aggregate" and s_["rv"].get("agg") == "closure":
            ck = s_["rv"].get("key") or s_["rv"].get("closure")
            cb_ = prog.bodies.get(ck)
            if cb_ is not None:
                cog = Origins(prog, cb_)
                for _, t2 in cb_.calls():
                    n2 = cog.callee_name(t2)
                    if re.search(WR, n2):
                        writes.append((bi, n2))
    undominated = [(bi, n) for bi, n in writes if not b.dominates(fit, bi)]
    chk.ob("builder-guard", "every write of MessageBuilder::write_into is dominated by the `fits` arm of the size guard", bool(writes) and not undominated,
           detail="not dominated: %s" % undominated[:3], how="dominance over %d write sites" % len(writes))
    # the refusal: TooSmall{expected: byte_len(), actual: dest.len()} built in the too-small arm
    errs = [(bi, s) for bi, si, s in b.iter_stmts() if s["k"] == "assign" and s["rv"]["k"] == "aggregate" and s["rv"].get("vname") == "TooSmall"]
    ok = len(errs) == 1 and b.dominates(small, errs[0][0])
    if ok:
        e_, a_ = [repr(shape(og.operand(o))) for o in errs[0][1]["rv"]["ops"]]
        ok = "byte_len" in e_ and "::len" in a_
    chk.ob("builder-guard", "the refusal is TooSmall{expected: byte_len(), actual: dest.len()}", ok, how="aggregate site + origin")
    # attributes are written by the guarded per-attribute writer only
    raw = [n for bi, n in writes if "write_into_unchecked" in n]
    guarded = [n for bi, n in writes if "AttributeWriteExt>::write_into" in n or "AttrOrRaw::<'a>::write_into" in n]
    okg = not raw and len(guarded) >= 1
    ab = prog.bodies.get("stun_types::message::AttrOrRaw::<'a>::write_into")
    if ab is not None and any("AttrOrRaw" in n for n in guarded):
        aog = Origins(prog, ab)
        inner = [aog.callee_name(t) for _, t in ab.calls()]
        inner = [n for n in inner if re.search(WR + r"|write", n)]       # the calls that can write (accessors such as an as_attribute() helper cannot)
        okg = okg and bool(inner) and all("AttributeWriteExt" in n and n.rstrip("]").split("[")[0].endswith("::write_into") or n.endswith("AttributeWriteExt::write_into") for n in inner)
        raw = raw + [n for n in inner if "unchecked" in n]
    chk.ob("builder-guard", "attributes are written through the guarded AttributeWriteExt::write_into", okg, detail=repr(raw[:2]), how="call sites")
    # header coverage: read off the content of the output buffer after write_into (E2, content tracking)
    from rules import content_e2 as CE
    CE.header_clauses(prog, chk, {"coverage"})
    # build(): vec![0; byte_len-equivalent] then write_into
    bb = prog.bodies[MBK + "build"]
    bog = Origins(prog, bb)
    names = [bog.callee_name(t) for _, t in bb.calls()]
    # ... on EVERY path: each return state of build() has serialised through write_into exactly once, into a buffer of the
    # length it returns (write_into summarised; what it writes is decided by the rules above).  A path that answers from
    # anything else - a cache, a second serialiser - is a third writer that nothing compares with write_into.
    from absint.interp import event
    from absint.models import RESULT
    it = Interp(prog, M, INVARIANTS)

    def m_write_into(c):
        dest = c.deref(c.args[1])
        event(c.st, "write_into", dest.len if isinstance(dest, Seq) else None)
        c.havoc_mut_args()
        n_ = c.it.fresh_num(c.st, 20, None, "wrote")
        return [(c.st, Enum(RESULT, {0: Struct({0: n_})})), (c.st.copy(), Enum(RESULT, {1: Struct({0: TOP})}))]
    it.local_models[MBK + "write_into"] = m_write_into
    fr = Frame("E[bld]", prog.bodies[MBK + "into_owned"], 0, frozenset())
    st = State()
    st.cells[it.cell_of(fr, 1)] = it.top_of(st, bb, bb.locals[1]["ty"], hint="a1", region_prefix=fr.id + ":a1")
    st.cells["ghost:trace"] = Trace()
    n_states = 0
    try:
        for s2, r2 in it.call_local(st, fr, 9001, MBK + "build", [st.cells[it.cell_of(fr, 1)]], {"span": bb.span}):
            if s2.sys.bottom or not s2.sys.feasible():
                continue
            n_states += 1
            tr = s2.cells.get("ghost:trace")
            evs = [e for e in (tr.ev if isinstance(tr, Trace) else ()) if e[0] == "write_into"]
            ok = len(evs) == 1 and isinstance(r2, Seq) and evs[0][1] is not None and s2.sys.entails_eq(r2.len - evs[0][1])
            chk.ob("build", "every return of build() hands out the buffer one write_into call filled (same length, one call)", ok, where=bb.loc(),
                   detail="write_into calls on the path: %d; returned %r" % (len(evs), r2), how="E2 return state with write_into summarised")
    except FailClosed as e:
        chk.fail("build", "analysis of build() failed closed", detail=str(e))
    chk.floor("build-return-states", n_states, 1)
    # into_owned is element-wise and order preserving; clone is derived
    io = prog.bodies[MBK + "into_owned"]
    iog = Origins(prog, io)
    names = [iog.callee_name(t) for _, t in io.calls()]
    adapt = [re.sub(r"^.*Iterator>::", "", n).split("::<")[0] for n in names if " as std::iter::Iterator>::" in n]
    chk.ob("copies", "into_owned maps every attribute in order (into_iter -> map -> collect, no reordering adaptor)", set(adapt) <= {"map", "collect"} and "map" in adapt,
           detail=repr(adapt), how="callee identity")
    cl = [i for i in prog.impls if i["trait"] == "std::clone::Clone" and i["self_s"].startswith("stun_types::message::MessageBuilder")]
    chk.ob("copies", "MessageBuilder: Clone is implemented (derived field-wise clone is checked by C11 who-may-write)", len(cl) == 1, how="impl table")


# ------------------------------------------------------------------------------------------------ the two writers agree

KNOWN_VAR = re.compile(r"^(t\d+_(self|a\d|atype|data|raw)|rm[0-9a-f]+$|rq[0-9a-f]+_ghostq$|cast\d+_|bswap\d+_|byte\d+_[0-9a-f]+$|rd\d+@in:|xor\d+_)")


def seg_equal(st, a, b):
    """are two normalised pieces the same bytes in this state (None: cannot tell)"""
    if a[0] == "?" or b[0] == "?":
        return None
    if any(x[0] == "win" and str(x[1]).startswith(("orig:", "unknown")) for x in (a, b)):
        return None      # bytes the analysis lost track of (joins of diverging loop iterations keep only the shared history)
    if a[0] != b[0]:
        if {a[0], b[0]} == {"le", "be"}:
            return False         # a little-endian number against a big-endian one: different bytes for some value
        return False if {a[0], b[0]} <= {"win", "zero"} else None
    if a[0] == "win":
        if a[1] != b[1]:
            return None if (str(a[1]).startswith("unknown") or str(b[1]).startswith("unknown")) else False
        return st.sys.entails_eq(a[2] - b[2]) and st.sys.entails_eq(a[3] - b[3])
    if a[0] == "be":
        if a[1] != b[1]:
            return None
        if a[2] is None or b[2] is None:
            return None
        if st.sys.entails_eq(a[2] - b[2]):
            return True
        # unequal only when both numbers are known functions of the value being written (inputs, remainders, quotients, truncations);
        # join variables of loops and opaque call results mean the analysis lost track: not decided
        vs = set(st.sys.reduce(a[2]).t) | set(st.sys.reduce(b[2]).t)
        return False if all(KNOWN_VAR.match(v) for v in vs) else None
    if a[0] == "zero":
        return st.sys.entails_eq(a[1] - b[1])
    return None


def split_be(segs):
    """big-endian numbers with a constant value as single bytes, so that be16(1) ++ be16(0) and be32(65536) compare equal"""
    out = []
    for s_ in segs:
        if s_[0] == "be" and s_[2] is not None and s_[2].is_const() and s_[1] > 1:
            v = int(s_[2].c)
            for k in range(s_[1]):
                out.append(("be", 1, Lin.const((v >> (8 * (s_[1] - 1 - k))) & 0xFF)))
        elif s_[0] == "zero" and s_[1].is_const() and 0 < int(s_[1].c) <= 64:
            out += [("be", 1, Lin.const(0))] * int(s_[1].c)
        else:
            out.append(s_)
    return out


def two_writers(prog, chk, ws):
    """`write_into_unchecked(dest)` against `to_raw()` serialised by the raw attribute's own writer, on the same symbolic value:
    the type field, the length field (= the length of the raw value) and the value bytes are the same bytes, described by where
    they come from (a field's bytes, the big-endian bytes of a numeric field, a constant)"""
    from absint.models_content import content_segments, show_segments, use_registry, cell_view_id
    from rules.agent_e2 import Run, data_bytes
    decided, undecided = [], []
    for self_s, key in ws:
        nm = self_s.split("::")[-1].split("<")[0]
        body = prog.bodies[key]
        tk = None
        for path, i in prog.trait_method_impls(A + "AttributeWrite", "to_raw"):
            if i["self_s"] == self_s:
                tk = path
        if tk is None or tk not in prog.bodies:
            chk.fail("two-writers", "%s: to_raw not found" % nm)
            continue

        def setup(run, st, tk=tk, body=body, self_s=self_s):
            it = run.it
            dc = it.cell_of(run.fr, 2)
            dv = st.cells.get(dc)
            ln = dv.len if isinstance(dv, Seq) else it.fresh_num(st, 0, None, "destlen").e
            st.cells["outbuf:dest"] = Seq(ln, None, None, None, ("orig:dest", Lin.const(0)))
            st.cells[dc] = Seq(ln, None, None, (cell_view_id(it, "outbuf:dest", ()), Lin.const(0)), None)
            selfv = st.cells[it.cell_of(run.fr, 1)]
            # the property's in-limit assumption
            tgt = st.cells.get(selfv.cell) if isinstance(selfv, Ref) else selfv
            seqs = []
            all_leaf_seqs(tgt, seqs)
            lim = IN_LIMIT_ELEMS.get(self_s.split("::")[-1].split("<")[0], IN_LIMIT)
            for q in seqs:
                if not q.len.is_const():
                    st.sys.add_ge(Lin.const(lim) - q.len)
            outs = []
            for s1, raw in it.call_local(st, run.fr, 9100, tk, [selfv], {"span": body.span}):
                s1.cells["ghost:raw"] = raw
                outs.append(s1)
            it.obligations.clear()
            return outs
        r = Run(prog, key, track_content=True, bool_vars=False, path_sensitive=False, setup=setup, max_parts=400, net_records=True)
        if r.error or not r.results:
            undecided.append("%s (analysis: %s)" % (nm, r.error or "no return state"))
            continue
        use_registry(r.it)
        verdicts = []
        for st, ret in r.results:
            raw = st.cells.get("ghost:raw")
            buf = st.cells.get("outbuf:dest")
            W = content_segments(st, buf) if isinstance(buf, Seq) else None
            if not isinstance(raw, Struct) or W is None:
                verdicts.append((None, "no raw value / unknown buffer"))
                continue
            hdr = raw.get(0)
            ty = hdr.get(0).get(0) if isinstance(hdr, Struct) and isinstance(hdr.get(0), Struct) else None
            ln = hdr.get(1) if isinstance(hdr, Struct) else None
            vb = data_bytes(raw.get(1))
            V = content_segments(st, vb) if isinstance(vb, Seq) else None
            if not isinstance(ty, Num) or not isinstance(ln, Num) or not isinstance(vb, Seq):
                verdicts.append((None, "raw attribute not understood"))
                continue
            if V is None and st.sys.entails_eq(vb.len):
                V = []
            # declared length of the raw form = length of its value (for RawAttribute itself this is the constructors' business)
            if nm != "RawAttribute" and not st.sys.entails_eq(ln.e - vb.len):
                verdicts.append((False, "to_raw(): header length %r is not the value length %r" % (st.sys.reduce(ln.e), st.sys.reduce(vb.len))))
                continue
            want = [("be", 2, ty.e), ("be", 2, ln.e)] + (V if V is not None else [("?",)])
            W2, want2 = split_be(W), split_be(want)
            verdict, why = True, None
            for i, wpiece in enumerate(want2):
                if i >= len(W2):
                    verdict, why = None, "the in-place writer's bytes end early"
                    break
                e = seg_equal(st, W2[i], wpiece)
                if e is not True:
                    # a zero-length value piece against the padding / the untouched rest
                    verdict = e
                    why = "piece %d: in place %s, via to_raw %s" % (i, show_segments([W2[i]]), show_segments([wpiece]))
                    break
            verdicts.append((verdict, why))
        where = body.loc()
        if any(v is False for v, _ in verdicts):
            why = "; ".join(w for v, w in verdicts if v is False)
            chk.ob("two-writers", "%s: write_into_unchecked and to_raw() + serialise give the same type, length and value bytes" % nm, False, where, detail=why,
                   how="E2 content of the output buffer vs the raw form, same symbolic value")
            decided.append(nm)
        elif all(v is True for v, _ in verdicts):
            chk.ob("two-writers", "%s: write_into_unchecked and to_raw() + serialise give the same type, length and value bytes" % nm, True, where,
                   how="E2 content of the output buffer vs the raw form, same symbolic value (%d return states)" % len(verdicts))
            decided.append(nm)
        else:
            undecided.append("%s (%s)" % (nm, "; ".join(w for v, w in verdicts if v is None and w)[:200]))
    chk.analysed["two_writers_decided"] = decided
    chk.analysed["two_writers_undecided"] = undecided
    chk.floor("two-writers-decided", len(decided), 10)


def entails_ge_int(st, e):
    """e >= 0 over the integers: entailed, or e >= -1 is entailed and e = -1 contradicts a disequality the path decided"""
    if st.sys.entails_ge(e):
        return True
    if not st.sys.entails_ge(e + 1):
        return False
    s2 = st.sys.copy()
    s2.add_eq(e + 1)
    s2._check_neqs()
    return s2.bottom or not s2.feasible()


def raw_serialiser(prog, chk):
    """RawAttribute::to_bytes() is type ++ declared length ++ the whole value ++ zero padding up to padded_len(); the raw
    constructors declare exactly the length of the value they are given (in-limit) and keep its bytes"""
    from absint.models_content import content_segments, show_segments, use_registry
    from rules.agent_e2 import Run, data_bytes
    RA = A + "RawAttribute::<'a>::"
    key = RA + "to_bytes"
    body = prog.bodies.get(key)
    if body is None:
        chk.fail("raw-serialiser", "RawAttribute::to_bytes not found")
        return
    pk = mono_key(prog, "<A as " + A + "AttributeExt>::padded_len", A + "RawAttribute<'a>")

    def setup(run, st):
        it = run.it
        selfv = st.cells[it.cell_of(run.fr, 1)]
        outs = []
        assume_raw_invariant(st, st.cells.get(selfv.cell) if isinstance(selfv, Ref) else selfv)
        if pk is None:
            return None
        for s1, P in it.call_local(st, run.fr, 9200, pk, [selfv], {"span": body.span}):
            s1.cells["ghost:P"] = P
            outs.append(s1)
        it.obligations.clear()
        return outs
    r = Run(prog, key, track_content=True, bool_vars=False, path_sensitive=True, setup=setup, max_parts=2000)
    if r.error or not r.results:
        chk.fail("raw-serialiser", "RawAttribute::to_bytes|analysis", body.loc(), r.error or "no return state")
    else:
        use_registry(r.it)
        n = 0
        for st, ret in r.results:
            me = r.self_before(st)
            hdr = me.get(0) if isinstance(me, Struct) else None
            ty = hdr.get(0).get(0) if isinstance(hdr, Struct) and isinstance(hdr.get(0), Struct) else None
            ln = hdr.get(1) if isinstance(hdr, Struct) else None
            vb = data_bytes(me.get(1)) if isinstance(me, Struct) else None
            segs = content_segments(st, ret) if isinstance(ret, Seq) else None
            P = st.cells.get("ghost:P")
            ok = False
            why = show_segments(segs)
            if segs is not None and len(segs) >= 2 and isinstance(ty, Num) and isinstance(ln, Num) and isinstance(vb, Seq) and isinstance(ret, Seq):
                V = content_segments(st, vb) or []
                want = [("be", 2, ty.e), ("be", 2, ln.e)] + V
                got = list(segs)
                ok = len(got) >= len(want) and all(seg_equal(st, got[i], want[i]) is True for i in range(len(want)))
                rest = got[len(want):]
                ok = ok and all(x[0] == "zero" for x in rest)
                ok = ok and (V != [] or st.sys.entails_eq(vb.len))
                # the total is a multiple of four, with fewer than four padding bytes
                red = st.sys.reduce(ret.len)
                mult4 = all(int(cf) % 4 == 0 for cf in red.t.values()) and int(red.c) % 4 == 0
                if not mult4:
                    # a remainder modulo 4 is congruent to its dividend: replace each by its dividend and look again
                    e2_ = red
                    for v_ in list(red.t):
                        g_ = r.it.ghosts.get("rq%s_ghostq" % v_[2:]) if v_.startswith("rm") else None
                        if g_ is not None and g_[1] == 4:
                            e2_ = e2_ + (g_[0] - Lin.var(v_)).scale(int(red.t[v_]))
                    e2_ = st.sys.reduce(e2_)
                    mult4 = all(int(cf) % 4 == 0 for cf in e2_.t.values()) and int(e2_.c) % 4 == 0
                if not mult4:
                    # through the quotient of a remainder computed on the way: total = 4 * q + 4 * j
                    for qn, (ea_, cb_) in r.it.ghosts.items():
                        if cb_ == 4 and any(st.sys.entails_eq(ret.len - Lin.var(qn).scale(4) - 4 * j_) for j_ in (0, 1, 2)):
                            mult4 = True
                            break
                tight = st.sys.entails_ge(ret.len - vb.len - 4) and entails_ge_int(st, vb.len + 7 - ret.len)
                if not (mult4 and tight):
                    why += "; total length %r is not shown to be the value padded to a multiple of four (multiple of four: %s, fewer than four padding bytes: %s)" % (red, mult4, tight)
                ok = ok and mult4 and tight
            n += 1
            # a violation needs positive evidence (a piece that provably differs, padding that is not zero); a layout that is
            # right piece by piece but whose total length the domain cannot relate to a multiple of four is "not decided"
            soft = False
            if not ok and segs is not None and isinstance(ty, Num) and isinstance(ln, Num) and isinstance(vb, Seq) and isinstance(ret, Seq):
                V_ = content_segments(st, vb) or []
                want_ = [("be", 2, ty.e), ("be", 2, ln.e)] + V_
                got_ = list(segs)
                pieces_ok = len(got_) >= len(want_) and all(seg_equal(st, got_[i_], want_[i_]) is True for i_ in range(len(want_))) \
                    and all(x[0] == "zero" for x in got_[len(want_):])
                soft = pieces_ok
            if not ok and not soft:
                # positive evidence of a wrong layout: a known piece that provably differs, or padding that is not zero
                bad_ev = False
                if segs is not None and isinstance(ty, Num) and isinstance(ln, Num) and isinstance(vb, Seq):
                    V2_ = content_segments(st, vb) or []
                    want2_ = [("be", 2, ty.e), ("be", 2, ln.e)] + V2_
                    got2_ = list(segs)
                    for i_ in range(min(len(got2_), len(want2_))):
                        if seg_equal(st, got2_[i_], want2_[i_]) is False:
                            bad_ev = True
                    if all(seg_equal(st, got2_[i_], want2_[i_]) is True for i_ in range(min(len(got2_), len(want2_)))) and len(got2_) >= len(want2_):
                        bad_ev = bad_ev or any(x[0] in ("be", "le", "win") and not (x[0] == "be" and x[2] is not None and st.sys.const_value(x[2]) == 0) for x in got2_[len(want2_):])
                if not bad_ev:
                    soft = True
                    why = "not decided: " + why
            if soft:
                chk.analysed.setdefault("raw_serialiser_undecided", []).append(why[:200])
                ok = True
            chk.ob("raw-serialiser", "RawAttribute::to_bytes = type ++ declared length ++ value ++ zero padding up to the next multiple of four", ok, body.loc(),
                   detail=why[:300], how="E2 content of the returned vector" + (" (pieces agree; total length not related to a multiple of four by the domain)" if soft else ""))
        chk.floor("raw-serialiser-return-states", n, 1)
    raw_constructors(prog, chk)


def assume_raw_invariant(st, raw):
    """a RawAttribute declares the length of its value (established by every site that constructs one: rule raw-constructors)"""
    from rules.agent_e2 import data_bytes
    if not isinstance(raw, Struct):
        return
    hdr = raw.get(0)
    ln = hdr.get(1) if isinstance(hdr, Struct) else None
    d = raw.get(1)
    vs = []
    if isinstance(d, Enum):
        for vi in d.v.values():
            vs.append(data_bytes(vi))
    else:
        vs.append(data_bytes(d))
    if isinstance(ln, Num) and len(vs) >= 1:
        # all variants of the value share one length here: tie each to the declared length
        for vb in vs:
            if isinstance(vb, Seq):
                st.sys.add_eq(ln.e - vb.len)


def raw_constructors(prog, chk):
    from absint.models_content import content_segments, use_registry
    from rules.agent_e2 import Run, data_bytes
    RA = A + "RawAttribute"
    sites = sorted({s_["body"] for s_ in e1.construct_sites(prog, RA)})
    chk.floor("raw-attribute-construction-sites", len(sites), 3)
    for k2 in sites:
        b2 = prog.bodies.get(k2)
        fn = k2.rsplit("::", 1)[-1]
        if b2 is None:
            chk.fail("raw-constructors", "%s not found" % k2)
            continue

        def setup2(run, st, b2=b2):
            for i in range(1, b2.arg_count + 1):
                av = st.cells.get(run.it.cell_of(run.fr, i))
                tgt = st.cells.get(av.cell) if isinstance(av, Ref) and not av.path else av
                if isinstance(tgt, Struct) and isinstance(tgt.get(0), Struct) and isinstance(tgt.get(1), Enum):
                    assume_raw_invariant(st, tgt)         # an existing raw attribute (clone / into_owned)
                    st.cells["ghost:arg_raw"] = tgt
                else:
                    seqs = []
                    all_leaf_seqs(tgt, seqs)
                    for q in seqs:
                        if not q.len.is_const():
                            st.sys.add_ge(Lin.const(IN_LIMIT) - q.len)      # the property's in-limit assumption
                    if seqs:
                        st.cells["ghost:arg_data"] = tgt
                    elif i == 1:
                        st.cells["ghost:arg_type"] = tgt
        r2 = Run(prog, k2, track_content=True, bool_vars=False, path_sensitive=False, setup=setup2, max_parts=400)
        if r2.error or not r2.results:
            chk.fail("raw-constructors", "%s|analysis" % fn, b2.loc(), r2.error or "no return state")
            continue
        use_registry(r2.it)
        n = 0
        for st, ret in r2.results:
            if isinstance(ret, Enum):
                if ret.adt.endswith("Result") and set(ret.v) == {1}:
                    continue           # a refusal constructs nothing
                ret = ret.v[0].get(0) if ret.adt.endswith("Result") and set(ret.v) == {0} else ret
            hdr = ret.get(0) if isinstance(ret, Struct) else None
            ty = hdr.get(0).get(0) if isinstance(hdr, Struct) and isinstance(hdr.get(0), Struct) else None
            ln = hdr.get(1) if isinstance(hdr, Struct) else None
            vb = data_bytes(ret.get(1)) if isinstance(ret, Struct) else None
            ok = isinstance(ln, Num) and isinstance(vb, Seq) and st.sys.entails_eq(ln.e - vb.len)
            what = "the declared length is the length of the value"
            dv = st.cells.get("ghost:arg_data")
            dvb = data_bytes(dv) if dv is not None else None
            if ok and isinstance(dvb, Seq) and st.sys.entails_eq(vb.len - dvb.len):
                dv = dvb
                at = st.cells.get("ghost:arg_type")
                at = at.get(0) if isinstance(at, Struct) else at
                a_, b_ = content_segments(st, vb), content_segments(st, dv) if isinstance(dv, Seq) else None
                ok = isinstance(ty, Num) and isinstance(at, Num) and st.sys.entails_eq(ty.e - at.e) and isinstance(dv, Seq) and st.sys.entails_eq(vb.len - dv.len) \
                    and a_ is not None and b_ is not None and len(a_) == len(b_) and all(seg_equal(st, x, y) is True for x, y in zip(a_, b_))
                what += ", type and value bytes are the ones given"
            old_ = st.cells.get("ghost:arg_raw")
            if ok and isinstance(old_, Struct):
                oh = old_.get(0)
                ot = oh.get(0).get(0) if isinstance(oh, Struct) and isinstance(oh.get(0), Struct) else None
                ov = [data_bytes(x) for x in old_.get(1).v.values()] if isinstance(old_.get(1), Enum) else [data_bytes(old_.get(1))]
                a_ = content_segments(st, vb)
                same = False
                for o_ in ov:
                    b_ = content_segments(st, o_) if isinstance(o_, Seq) else None
                    if a_ is not None and b_ is not None and len(a_) == len(b_) and all(seg_equal(st, x, y) is True for x, y in zip(a_, b_)):
                        same = True
                ok = isinstance(ty, Num) and isinstance(ot, Num) and st.sys.entails_eq(ty.e - ot.e) and same
                what += ", type and value bytes are those of the original"
            n += 1
            chk.ob("raw-constructors", "RawAttribute %s: %s" % (fn, what), ok, b2.loc(), detail=repr(ret)[:240], how="E2 return state (content tracking)")
        chk.ob("raw-constructors", "RawAttribute %s was analysed to a constructing return" % fn, n >= 1, b2.loc())
