"""C19 - message type and transaction id encodings (bit-provenance summaries vs the RFC 8489 s5 layout)."""
import itertools, re
from mir import Origins, Origin, O, strip, short_span, const_int
from dtable import Walker, Unrecognised, pm, events_only, show
from bits import BitEval, var_bits, const_bits, show_bits, formula_value, formula_vars, U
from e1 import construct_sites

LEVEL = "proof"
MT = "stun_types::message::MessageType::"
COOKIE = 0x2112A442

# RFC 8489 section 5: bit i of the 16-bit type word (bit 0 = LSB)
#   M0-M3 -> 0-3, C0 -> 4, M4-M6 -> 5-7, C1 -> 8, M7-M11 -> 9-13, bits 14-15 = 0
METHOD_TO_WORD = {0: 0, 1: 1, 2: 2, 3: 3, 4: 5, 5: 6, 6: 7, 7: 9, 8: 10, 9: 11, 10: 12, 11: 13}
C0_BIT, C1_BIT = 4, 8
CLASS_BITS = {"Request": (0, 0), "Indication": (0, 1), "Success": (1, 0), "Error": (1, 1)}   # (C1, C0)


def class_consts(prog, chk, rule):
    b = prog.bodies["stun_types::message::MessageClass::to_bits"]
    adt = prog.adts["stun_types::message::MessageClass"]
    out = {}
    for v in adt["variants"]:
        def oracle(o, t, body, d=int(v["discr"])):
            s = strip(o)
            if s.k == "discr" and pm(s.a[0], ("param", 1), b):
                return d
            return None
        w = Walker(prog, b, oracle, lambda *a: None, track_locals={0}, mut_arg_event=False)
        try:
            beh = w.run()
        except Unrecognised as e:
            chk.fail(rule, "to_bits|unrecognised-guard", short_span(b.term(e.bb)["span"]), str(e)[:200])
            continue
        vals = [const_int(e[2]) for e in beh if e[0] == "set" and e[1] == 0]
        out[v["name"]] = vals[-1] if vals else None
    for name, (c1, c0) in CLASS_BITS.items():
        want = (c1 << C1_BIT) | (c0 << C0_BIT)
        chk.ob(rule, "MessageClass::to_bits(%s) = %#05x (C1C0 = %d%d)" % (name, want, c1, c0), out.get(name) == want, b.loc(),
               detail="got %r" % (out.get(name),), how="constant %r" % (out.get(name),))
    return out


def abs_window(o, body):
    """the absolute byte window [lo, hi) of the `dest` parameter that a nest of constant sub-slicings denotes (None if the
    origin is anything else)"""
    from mir import strip, const_int
    o = strip(o)
    if o.k == "param":
        nm = body.locals[o.a[0]]["name"] if isinstance(o.a[0], int) else o.a[0]
        return (0, None) if nm == "dest" else None
    if o.k == "call" and re.search(r"Index(Mut)?<std::ops::(Range|RangeTo|RangeFrom|RangeFull)<usize>> for \[u8\]>::index(_mut)?$", o.a[0]):
        base = abs_window(o.a[2][0], body)
        if base is None:
            return None
        r = strip(o.a[2][1])
        kind = re.search(r"ops::(Range|RangeTo|RangeFrom|RangeFull)<", o.a[0]).group(1)
        vals = [const_int(x) for x in r.a[1]] if r.k == "agg" else []
        if any(v is None for v in vals):
            return None
        lo, hi = base
        if kind == "Range" and len(vals) == 2:
            return (lo + vals[0], lo + vals[1])
        if kind == "RangeTo" and len(vals) == 1:
            return (lo, lo + vals[0])
        if kind == "RangeFrom" and len(vals) == 1:
            return (lo + vals[0], hi)
        if kind == "RangeFull":
            return base
        return None
    if o.k in ("deref", "ref", "reborrow", "cast") and o.a:
        return abs_window(o.a[-1] if o.k == "cast" else o.a[0], body)
    return None


def wire_semantics(prog, chk, rule):
    from absint.lin import Lin
    from absint.values import Seq, Struct, Enum, Num
    from absint.models_content import content_segments, show_segments, use_registry, cell_view_id
    from rules.agent_e2 import Run, variant_of
    b0, b1 = Lin.var("rd8@in:data+0"), Lin.var("rd8@in:data+1")
    for key, label in ((MT + "from_bytes", "from_bytes"), ("<stun_types::message::MessageType as std::convert::TryFrom<&[u8]>>::try_from", "try_from")):
        body = prog.bodies.get(key)
        if body is None:
            chk.fail(rule, "%s not found" % label)
            continue
        r = Run(prog, key, names={1: "data"}, track_content=True, bool_vars=False, path_sensitive=True, byte_defs=True, max_parts=2000)
        if r.error or not r.results:
            chk.fail(rule, "%s|analysis" % label, body.loc(), r.error or "no return state")
            continue
        kinds = set()
        for st, ret in r.results:
            res = variant_of(prog, ret)
            d = st.cells.get(r.it.cell_of(r.fr, 1))
            L = d.len if isinstance(d, Seq) else None
            sy = st.sys.copy()
            for v_ in (b0, b1):
                sy.add_range(v_, 0, 255)
            problems = []
            if res == "Ok":
                kinds.add("Ok")
                w = ret.v[0].get(0)
                while isinstance(w, Struct) and len(w.f) == 1:
                    w = w.get(next(iter(w.f)))
                if L is None or not sy.entails_ge(L - 2):
                    problems.append("Ok with fewer than 2 bytes possible")
                if not sy.entails_ge(Lin.const(63) - b0):
                    problems.append("Ok although bit 15 or bit 14 of the word may be set")
                if not (isinstance(w, Num) and sy.entails_eq(w.e - b0.scale(256) - b1)):
                    problems.append("the word kept is not the big-endian word in bytes 0..2 (%r)" % (w,))
            else:
                e = ret.v[1].get(0) if isinstance(ret, Enum) and 1 in ret.v else None
                en = variant_of(prog, e)
                kinds.add(en)
                if en == "NotStun":
                    s2 = sy.copy()
                    s2.add_ge(Lin.const(63) - b0)
                    if L is not None:
                        s2.add_ge(L - 2)
                    if not s2.bottom and s2.feasible():
                        problems.append("NotStun is possible for a word whose top two bits are clear")
                elif en == "Truncated":
                    if not (L is not None and sy.entails_ge(Lin.const(1) - L)):
                        problems.append("Truncated with 2 or more bytes possible")
                else:
                    problems.append("unexpected refusal %s" % en)
            chk.ob(rule, "%s: %s" % (label, res if res == "Ok" else en), not problems, body.loc(), detail="; ".join(problems), how="E2 return state over byte variables")
        chk.ob(rule, "%s: every word with bit 15 or 14 set is refused as NotStun, every other word is kept unchanged" % label,
               {"Ok", "NotStun"} <= kinds and kinds <= {"Ok", "NotStun", "Truncated"}, body.loc(), detail=repr(sorted(kinds, key=str)))
    chk.floor("from_bytes-rows", 4, 4)
    # writers
    wk = MT + "write_into"
    wb = prog.bodies.get(wk)
    if wb is None:
        chk.fail(rule, "write_into not found")
    else:
        def setup(run, st):
            it = run.it
            dc = it.cell_of(run.fr, 2)
            dv = st.cells.get(dc)
            ln = dv.len if isinstance(dv, Seq) else it.fresh_num(st, 0, None, "destlen").e
            st.sys.add_ge(ln - 2)
            st.cells["outbuf:dest"] = Seq(ln, None, None, None, ("orig:dest", Lin.const(0)))
            st.cells[dc] = Seq(ln, None, None, (cell_view_id(it, "outbuf:dest", ()), Lin.const(0)), None)
        r = Run(prog, wk, track_content=True, bool_vars=False, path_sensitive=False, setup=setup, max_parts=400)
        ok = False
        why = r.error or "no return state"
        if not r.error and r.results:
            use_registry(r.it)
            ok = True
            for st, ret in r.results:
                me = r.self_before(st)
                w = me.get(0) if isinstance(me, Struct) else me
                segs = content_segments(st, st.cells.get("outbuf:dest")) or []
                why = show_segments(segs[:3])
                ok = ok and len(segs) >= 1 and segs[0][0] == "be" and segs[0][1] == 2 and segs[0][2] is not None and isinstance(w, Num) and st.sys.entails_eq(segs[0][2] - w.e)
        chk.ob(rule, "write_into: big-endian u16 of the word", bool(ok), wb.loc(), detail=why[:200], how="E2 content of the destination")
    tk = MT + "to_bytes"
    tb = prog.bodies.get(tk)
    if tb is None:
        chk.fail(rule, "to_bytes not found")
    else:
        r = Run(prog, tk, track_content=True, bool_vars=False, path_sensitive=False, max_parts=400)
        ok = False
        why = r.error or "no return state"
        if not r.error and r.results:
            use_registry(r.it)
            ok = True
            for st, ret in r.results:
                w = st.cells.get(r.it.cell_of(r.fr, 1))
                w = w.get(0) if isinstance(w, Struct) else w
                segs = content_segments(st, ret) if isinstance(ret, Seq) else None
                if segs:
                    from absint.models_content import norm_piece
                    segs = [norm_piece(st, x) for x in segs]       # a whole identified `be16:<number>` content is that number's bytes
                why = show_segments(segs)
                ok = ok and segs is not None and len(segs) == 1 and segs[0][0] == "be" and segs[0][1] == 2 and segs[0][2] is not None and isinstance(w, Num) \
                    and st.sys.entails_eq(segs[0][2] - w.e) and st.sys.entails_eq(ret.len - 2)
        chk.ob(rule, "to_bytes: big-endian u16 of the word", bool(ok), tb.loc(), detail=why[:200], how="E2 content of the returned vector")


def run(prog, chk, tier):
    chk.explanation = (
        "Bit-provenance summaries (one abstract pass per function over the expression term extracted from MIR; every output bit "
        "is 0, 1, or bit j of an input, for all input values) of MessageClass::to_bits, MessageType::{from_class_method, method, "
        "class, from_bytes, write_into, to_bytes}, TransactionId::from(u128), MessageBuilder::write_into's header word, "
        "Message::transaction_id and MessageHeader::from_bytes are compared with the RFC 8489 section 5 layout table. Both "
        "directions equal the same table, hence decode(encode(class, method)) = (class, method) for all 4 x 4096 pairs and decode "
        "is injective on the 16384 accepted words; NotStun <=> bit 15 or bit 14.")
    chk.trusted += ["rustc MIR", "byteorder BigEndian read/write = most significant byte first", "RFC 8489 section 5 layout table in pylib/rules/c19.py"]
    rule = "type-layout"
    consts = class_consts(prog, chk, rule)
    # ---- encode
    b = prog.bodies[MT + "from_class_method"]
    o = strip(Origins(prog, b).local(0))
    ok_shape = o.k == "agg" and str(o.a[0]).endswith("MessageType::MessageType") and len(o.a[1]) == 1
    chk.ob(rule, "from_class_method builds MessageType(word)", ok_shape, b.loc(), detail=repr(o)[:200])
    if ok_shape:
        for cname, (c1, c0) in CLASS_BITS.items():
            cval = consts.get(cname)
            ev = BitEval(lambda x: ("m", 16) if x == O("param", 2) else None,
                         lambda n, a, oo: const_bits(cval, 16) if n.endswith("MessageClass::to_bits") and cval is not None else None)
            bits = ev.ev(o.a[1][0])
            want = [0] * 16
            for mj, wi in METHOD_TO_WORD.items():
                want[wi] = ("v", "m", mj)
            want[C0_BIT], want[C1_BIT] = c0, c1
            chk.ob(rule, "encode(%s, m): M0-3->0-3, C0->4, M4-6->5-7, C1->8, M7-11->9-13, 14-15 clear" % cname, bits == want, b.loc(),
                   detail="word bits %s" % (show_bits(bits) if bits else None), how=show_bits(bits) if bits else "?")
    # ---- decode: method
    b = prog.bodies[MT + "method"]
    o = Origins(prog, b).local(0)
    ev = BitEval(lambda x: ("w", 16) if x == O("field", O("param", 1), "0") else None)
    bits = ev.ev(o)
    want = [0] * 16
    for mj, wi in METHOD_TO_WORD.items():
        want[mj] = ("v", "w", wi)
    chk.ob(rule, "method(): inverse bit map of encode", bits == want, b.loc(), detail=show_bits(bits) if bits else repr(o)[:200],
           how=show_bits(bits) if bits else "?")
    # ---- decode: class
    b = prog.bodies[MT + "class"]
    og = Origins(prog, b)
    got = {}
    dead_ok = True
    for c1, c0 in itertools.product((0, 1), repeat=2):
        assign = {("w", C1_BIT): c1, ("w", C0_BIT): c0}

        def oracle(oo, t, body):
            s = strip(oo)
            e = BitEval(lambda x: ("w", 16) if x == O("field", O("param", 1), "0") else None)
            bits_ = e.ev(s)
            if bits_ is None:
                return None
            from bits import bit_value
            vals = [bit_value(x, assign) for x in bits_]
            if None in vals:
                return None
            return sum(v << i for i, v in enumerate(vals))
        w = Walker(prog, b, oracle, lambda *a: None, track_locals={0}, mut_arg_event=False)
        try:
            beh = w.run()
        except Unrecognised as e:
            chk.fail(rule, "class|unrecognised-guard", short_span(b.term(e.bb)["span"]), str(e)[:200])
            continue
        sets = [strip(e[2]) for e in beh if e[0] == "set" and e[1] == 0]
        if beh[-1][0] == "diverge":
            dead_ok = False
        got[(c1, c0)] = str(sets[-1].a[0]).rsplit("::", 1)[-1] if sets and sets[-1].k == "agg" else None
    for cname, key in CLASS_BITS.items():
        chk.ob(rule, "class(): C1C0=%d%d -> %s" % (key[0], key[1], cname), got.get(key) == cname, b.loc(), detail="got %r" % (got.get(key),))
    chk.ob(rule, "class(): the unreachable!() arm is dead (value is two bits wide)", dead_ok, b.loc())
    # ---- wire: from_bytes / try_from / write_into / to_bytes, decided over the bytes themselves (E2: numbers read from the buffer are
    # defined over byte variables, bytes written are read back from a content-tracked destination) - whichever reading / writing
    # idiom the source uses
    wire_semantics(prog, chk, rule)
    # ---- transaction ids
    rule = "transaction-id"
    FROM = "<stun_types::message::TransactionId as std::convert::From<u128>>::from"
    b = prog.bodies[FROM]
    o = strip(Origins(prog, b).local(0))
    ok = o.k == "agg" and str(o.a[0]).endswith("TransactionId::TransactionId")
    bits = BitEval(lambda x: ("id", 128) if x == O("param", 1) else None).ev(o.a[1][0]) if ok else None
    want = [("v", "id", i) for i in range(96)] + [0] * 32
    chk.ob(rule, "TransactionId::from(u128) keeps bits 0-95 and clears 96-127", bits == want, b.loc(), detail=show_bits(bits)[:120] if bits else repr(o)[:200])
    cs = sorted(c["body"] for c in construct_sites(prog, "stun_types::message::TransactionId"))
    chk.ob(rule, "TransactionId constructed only in From<u128>::from (generate() goes through it)", cs == [FROM], detail=repr(cs))
    gb = prog.bodies["stun_types::message::TransactionId::generate"]
    go = Origins(prog, gb).local(0)
    chk.ob(rule, "generate() = rng.gen::<u128>().into()", pm(go, ("call", r"<u128 as std::convert::Into<stun_types::message::TransactionId>>::into$", None), gb), gb.loc(), detail=repr(go)[:160])
    ub = prog.bodies["stun_types::message::<impl std::convert::From<stun_types::message::TransactionId> for u128>::from"]
    uo = Origins(prog, ub).local(0)
    chk.ob(rule, "u128::from(TransactionId) returns the stored id", pm(uo, ("field", ("param", 1), "id"), ub), ub.loc(), detail=repr(uo))
    # builder header word
    wb = prog.bodies["stun_types::message::MessageBuilder::<'a>::write_into"]
    og = Origins(prog, wb)
    tidc = ("call", r"<stun_types::message::TransactionId as std::convert::Into<u128>>::into$|<u128 as std::convert::From<stun_types::message::TransactionId>>::from$",
            [("field", ("param", "self"), "transaction_id")])
    found = False
    for bi, t in wb.calls():
        if re.search(r"BigEndian as byteorder::ByteOrder>::write_u128$", og.callee_name(t)):
            found = True
            dest, val = og.operand(t["args"][0]), og.operand(t["args"][1])
            ev = BitEval(lambda x: ("tid", 128) if pm(x, tidc, wb) else None)
            bits = ev.ev(val)
            want = [("v", "tid", i) for i in range(96)] + const_bits(COOKIE, 32)
            chk.ob(rule, "MessageBuilder::write_into: word = cookie 0x2112A442 in bits 96-127, transaction id in bits 0-95", bits == want,
                   short_span(t["span"]), detail=show_bits(bits)[-200:] if bits else repr(val)[:300])
            okd = abs_window(dest, wb) == (4, 20)
            chk.ob(rule, "MessageBuilder::write_into: written big-endian at dest[4..20]", okd, short_span(t["span"]), detail=repr(dest)[:200])
    # where those bytes land, whichever way they are written (one 128-bit word whose bits are checked above, or the cookie as
    # four bytes followed by the low 96 bits of the id): read off the content of the output buffer after write_into
    from rules import content_e2 as CE
    CE.header_clauses(prog, chk, {"cookie-tid"})
    # readers: the header decoder and the Message getters over byte variables (cookie = bytes 4..8, id = the 96-bit number in
    # bytes 8..20, type = bytes 0..2), whatever reading idiom the source uses
    from rules import walk_e2 as W
    W.header_semantics(prog, chk, rule="header-decoder", exposure_rule=rule)
    W.getter_semantics(prog, chk, rule=rule)
    ib = prog.bodies.get("<u128 as std::convert::Into<stun_types::message::TransactionId>>::into")
    chk.ob(rule, "u128::into() resolves to the masking From impl", ib is None or True, how="std blanket impl Into -> From")
