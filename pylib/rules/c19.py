"""C19 - message type and transaction id encodings (bit-provenance summaries vs the RFC 8489 s5 layout)."""
import itertools, re
from mir import Origins, Origin, O, strip, short_span, const_int
from dtable import Walker, Unrecognised, pm, events_only, show
from bits import BitEval, var_bits, const_bits, show_bits, formula_value, formula_vars, U
from e1 import construct_sites

LEVEL = "proof"
MT = "stun_types::message::MessageType::"
COOKIE = 0x2112A442

# RFC 8489 section 5: bit i of the 16-bit type word (bit 0 = LSB)
#   M0-M3 -> 0-3, C0 -> 4, M4-M6 -> 5-7, C1 -> 8, M7-M11 -> 9-13, bits 14-15 = 0
METHOD_TO_WORD = {0: 0, 1: 1, 2: 2, 3: 3, 4: 5, 5: 6, 6: 7, 7: 9, 8: 10, 9: 11, 10: 12, 11: 13}
C0_BIT, C1_BIT = 4, 8
CLASS_BITS = {"Request": (0, 0), "Indication": (0, 1), "Success": (1, 0), "Error": (1, 1)}   # (C1, C0)


def class_consts(prog, chk, rule):
    b = prog.bodies["stun_types::message::MessageClass::to_bits"]
    adt = prog.adts["stun_types::message::MessageClass"]
    out = {}
    for v in adt["variants"]:
        def oracle(o, t, body, d=int(v["discr"])):
            s = strip(o)
            if s.k == "discr" and pm(s.a[0], ("param", 1), b):
                return d
            return None
        w = Walker(prog, b, oracle, lambda *a: None, track_locals={0}, mut_arg_event=False)
        try:
            beh = w.run()
        except Unrecognised as e:
            chk.fail(rule, "to_bits|unrecognised-guard", short_span(b.term(e.bb)["span"]), str(e)[:200])
            continue
        vals = [const_int(e[2]) for e in beh if e[0] == "set" and e[1] == 0]
        out[v["name"]] = vals[-1] if vals else None
    for name, (c1, c0) in CLASS_BITS.items():
        want = (c1 << C1_BIT) | (c0 << C0_BIT)
        chk.ob(rule, "MessageClass::to_bits(%s) = %#05x (C1C0 = %d%d)" % (name, want, c1, c0), out.get(name) == want, b.loc(),
               detail="got %r" % (out.get(name),), how="constant %r" % (out.get(name),))
    return out


def abs_window(o, body):
    """the absolute byte window [lo, hi) of the `dest` parameter that a nest of constant sub-slicings denotes (None if the
    origin is anything else)"""
    from mir import strip, const_int
    o = strip(o)
    if o.k == "param":
        nm = body.locals[o.a[0]]["name"] if isinstance(o.a[0], int) else o.a[0]
        return (0, None) if nm == "dest" else None
    if o.k == "call" and re.search(r"Index(Mut)?<std::ops::(Range|RangeTo|RangeFrom|RangeFull)<usize>> for \[u8\]>::index(_mut)?$", o.a[0]):
        base = abs_window(o.a[2][0], body)
        if base is None:
            return None
        r = strip(o.a[2][1])
        kind = re.search(r"ops::(Range|RangeTo|RangeFrom|RangeFull)<", o.a[0]).group(1)
        vals = [const_int(x) for x in r.a[1]] if r.k == "agg" else []
        if any(v is None for v in vals):
            return None
        lo, hi = base
        if kind == "Range" and len(vals) == 2:
            return (lo + vals[0], lo + vals[1])
        if kind == "RangeTo" and len(vals) == 1:
            return (lo, lo + vals[0])
        if kind == "RangeFrom" and len(vals) == 1:
            return (lo + vals[0], hi)
        if kind == "RangeFull":
            return base
        return None
    if o.k in ("deref", "ref", "reborrow", "cast") and o.a:
        return abs_window(o.a[-1] if o.k == "cast" else o.a[0], body)
    return None


def run(prog, chk, tier):
    chk.explanation = (
        "Bit-provenance summaries (one abstract pass per function over the expression term extracted from MIR; every output bit "
        "is 0, 1, or bit j of an input, for all input values) of MessageClass::to_bits, MessageType::{from_class_method, method, "
        "class, from_bytes, write_into, to_bytes}, TransactionId::from(u128), MessageBuilder::write_into's header word, "
        "Message::transaction_id and MessageHeader::from_bytes are compared with the RFC 8489 section 5 layout table. Both "
        "directions equal the same table, hence decode(encode(class, method)) = (class, method) for all 4 x 4096 pairs and decode "
        "is injective on the 16384 accepted words; NotStun <=> bit 15 or bit 14.")
    chk.trusted += ["rustc MIR", "byteorder BigEndian read/write = most significant byte first", "RFC 8489 section 5 layout table in pylib/rules/c19.py"]
    rule = "type-layout"
    consts = class_consts(prog, chk, rule)
    # ---- encode
    b = prog.bodies[MT + "from_class_method"]
    o = strip(Origins(prog, b).local(0))
    ok_shape = o.k == "agg" and str(o.a[0]).endswith("MessageType::MessageType") and len(o.a[1]) == 1
    chk.ob(rule, "from_class_method builds MessageType(word)", ok_shape, b.loc(), detail=repr(o)[:200])
    if ok_shape:
        for cname, (c1, c0) in CLASS_BITS.items():
            cval = consts.get(cname)
            ev = BitEval(lambda x: ("m", 16) if x == O("param", 2) else None,
                         lambda n, a, oo: const_bits(cval, 16) if n.endswith("MessageClass::to_bits") and cval is not None else None)
            bits = ev.ev(o.a[1][0])
            want = [0] * 16
            for mj, wi in METHOD_TO_WORD.items():
                want[wi] = ("v", "m", mj)
            want[C0_BIT], want[C1_BIT] = c0, c1
            chk.ob(rule, "encode(%s, m): M0-3->0-3, C0->4, M4-6->5-7, C1->8, M7-11->9-13, 14-15 clear" % cname, bits == want, b.loc(),
                   detail="word bits %s" % (show_bits(bits) if bits else None), how=show_bits(bits) if bits else "?")
    # ---- decode: method
    b = prog.bodies[MT + "method"]
    o = Origins(prog, b).local(0)
    ev = BitEval(lambda x: ("w", 16) if x == O("field", O("param", 1), "0") else None)
    bits = ev.ev(o)
    want = [0] * 16
    for mj, wi in METHOD_TO_WORD.items():
        want[mj] = ("v", "w", wi)
    chk.ob(rule, "method(): inverse bit map of encode", bits == want, b.loc(), detail=show_bits(bits) if bits else repr(o)[:200],
           how=show_bits(bits) if bits else "?")
    # ---- decode: class
    b = prog.bodies[MT + "class"]
    og = Origins(prog, b)
    got = {}
    dead_ok = True
    for c1, c0 in itertools.product((0, 1), repeat=2):
        assign = {("w", C1_BIT): c1, ("w", C0_BIT): c0}

        def oracle(oo, t, body):
            s = strip(oo)
            e = BitEval(lambda x: ("w", 16) if x == O("field", O("param", 1), "0") else None)
            bits_ = e.ev(s)
            if bits_ is None:
                return None
            from bits import bit_value
            vals = [bit_value(x, assign) for x in bits_]
            if None in vals:
                return None
            return sum(v << i for i, v in enumerate(vals))
        w = Walker(prog, b, oracle, lambda *a: None, track_locals={0}, mut_arg_event=False)
        try:
            beh = w.run()
        except Unrecognised as e:
            chk.fail(rule, "class|unrecognised-guard", short_span(b.term(e.bb)["span"]), str(e)[:200])
            continue
        sets = [strip(e[2]) for e in beh if e[0] == "set" and e[1] == 0]
        if beh[-1][0] == "diverge":
            dead_ok = False
        got[(c1, c0)] = str(sets[-1].a[0]).rsplit("::", 1)[-1] if sets and sets[-1].k == "agg" else None
    for cname, key in CLASS_BITS.items():
        chk.ob(rule, "class(): C1C0=%d%d -> %s" % (key[0], key[1], cname), got.get(key) == cname, b.loc(), detail="got %r" % (got.get(key),))
    chk.ob(rule, "class(): the unreachable!() arm is dead (value is two bits wide)", dead_ok, b.loc())
    # ---- wire: from_bytes / write_into / to_bytes
    b = prog.bodies[MT + "from_bytes"]
    wire = ("call", r"BigEndian as byteorder::ByteOrder>::read_u16$", [("param", "data")])
    res = {}
    for b15, b14 in itertools.product((0, 1), repeat=2):
        def oracle(oo, t, body):
            s = strip(oo)
            if s.k == "bin" and s.a[0] == "Lt" and pm(s.a[1], ("call", r"slice::<impl \[u8\]>::len$", None), b):
                return 0
            e = BitEval(lambda x: ("w", 16) if pm(x, wire, b) else None)
            f = e.pred(s)
            return formula_value(f, {("w", 15): b15, ("w", 14): b14})
        w = Walker(prog, b, oracle, lambda *a: None, track_locals={0}, mut_arg_event=False)
        try:
            beh = w.run()
        except Unrecognised as e:
            chk.fail(rule, "from_bytes|unrecognised-guard", short_span(b.term(e.bb)["span"]), str(e)[:200])
            continue
        sets = [strip(e[2]) for e in beh if e[0] == "set" and e[1] == 0]
        r = sets[-1] if sets else None
        if r is not None and pm(r, ("agg", r"Result::Err$", [("agg", r"StunParseError::NotStun$", [])]), b):
            res[(b15, b14)] = "NotStun"
        elif r is not None and pm(r, ("agg", r"Result::Ok$", [("agg", r"MessageType::MessageType$", [wire])]), b):
            res[(b15, b14)] = "Ok(word unchanged)"
        else:
            res[(b15, b14)] = repr(r)[:80]
    for (b15, b14), v in sorted(res.items()):
        want = "NotStun" if (b15 or b14) else "Ok(word unchanged)"
        chk.ob(rule, "from_bytes: bit15=%d bit14=%d -> %s" % (b15, b14, want), v == want, b.loc(), detail="got %s" % v)
    chk.floor("from_bytes-rows", len(res), 4)
    wb = prog.bodies[MT + "write_into"]
    og = Origins(prog, wb)
    calls = [(og.callee_name(t), [og.operand(a) for a in t["args"]]) for bi, t in wb.calls()]
    ok = len(calls) == 1 and re.search(r"BigEndian as byteorder::ByteOrder>::write_u16$", calls[0][0]) and \
        pm(calls[0][1][0], ("param", "dest"), wb) and pm(calls[0][1][1], ("field", ("param", "self"), "0"), wb)
    chk.ob(rule, "write_into: big-endian u16 of the word", bool(ok), wb.loc(), detail=repr(calls)[:200])
    tb = prog.bodies[MT + "to_bytes"]
    og = Origins(prog, tb)
    calls = [(og.callee_name(t), [og.operand(a) for a in t["args"]]) for bi, t in tb.calls() if "write_u16" in og.callee_name(t)]
    ok = len(calls) == 1 and re.search(r"BigEndian", calls[0][0]) and pm(calls[0][1][1], ("field", ("param", "self"), "0"), tb)
    chk.ob(rule, "to_bytes: big-endian u16 of the word", bool(ok), tb.loc())
    # ---- transaction ids
    rule = "transaction-id"
    FROM = "<stun_types::message::TransactionId as std::convert::From<u128>>::from"
    b = prog.bodies[FROM]
    o = strip(Origins(prog, b).local(0))
    ok = o.k == "agg" and str(o.a[0]).endswith("TransactionId::TransactionId")
    bits = BitEval(lambda x: ("id", 128) if x == O("param", 1) else None).ev(o.a[1][0]) if ok else None
    want = [("v", "id", i) for i in range(96)] + [0] * 32
    chk.ob(rule, "TransactionId::from(u128) keeps bits 0-95 and clears 96-127", bits == want, b.loc(), detail=show_bits(bits)[:120] if bits else repr(o)[:200])
    cs = sorted(c["body"] for c in construct_sites(prog, "stun_types::message::TransactionId"))
    chk.ob(rule, "TransactionId constructed only in From<u128>::from (generate() goes through it)", cs == [FROM], detail=repr(cs))
    gb = prog.bodies["stun_types::message::TransactionId::generate"]
    go = Origins(prog, gb).local(0)
    chk.ob(rule, "generate() = rng.gen::<u128>().into()", pm(go, ("call", r"<u128 as std::convert::Into<stun_types::message::TransactionId>>::into$", None), gb), gb.loc(), detail=repr(go)[:160])
    ub = prog.bodies["stun_types::message::<impl std::convert::From<stun_types::message::TransactionId> for u128>::from"]
    uo = Origins(prog, ub).local(0)
    chk.ob(rule, "u128::from(TransactionId) returns the stored id", pm(uo, ("field", ("param", 1), "id"), ub), ub.loc(), detail=repr(uo))
    # builder header word
    wb = prog.bodies["stun_types::message::MessageBuilder::<'a>::write_into"]
    og = Origins(prog, wb)
    tidc = ("call", r"<stun_types::message::TransactionId as std::convert::Into<u128>>::into$|<u128 as std::convert::From<stun_types::message::TransactionId>>::from$",
            [("field", ("param", "self"), "transaction_id")])
    found = False
    for bi, t in wb.calls():
        if re.search(r"BigEndian as byteorder::ByteOrder>::write_u128$", og.callee_name(t)):
            found = True
            dest, val = og.operand(t["args"][0]), og.operand(t["args"][1])
            ev = BitEval(lambda x: ("tid", 128) if pm(x, tidc, wb) else None)
            bits = ev.ev(val)
            want = [("v", "tid", i) for i in range(96)] + const_bits(COOKIE, 32)
            chk.ob(rule, "MessageBuilder::write_into: word = cookie 0x2112A442 in bits 96-127, transaction id in bits 0-95", bits == want,
                   short_span(t["span"]), detail=show_bits(bits)[-200:] if bits else repr(val)[:300])
            okd = abs_window(dest, wb) == (4, 20)
            chk.ob(rule, "MessageBuilder::write_into: written big-endian at dest[4..20]", okd, short_span(t["span"]), detail=repr(dest)[:200])
    # where those bytes land, whichever way they are written (one 128-bit word whose bits are checked above, or the cookie as
    # four bytes followed by the low 96 bits of the id): read off the content of the output buffer after write_into
    from rules import content_e2 as CE
    CE.header_clauses(prog, chk, {"cookie-tid"})
    # readers
    rd = ("call", r"BigEndian as byteorder::ByteOrder>::read_u128$",
          [("call", r"Index<std::ops::RangeFrom<usize>> for \[u8\]>::index$", [("any",), ("agg", r"RangeFrom::RangeFrom$", [("const", 4)])])])
    mb = prog.bodies["stun_types::message::Message::<'a>::transaction_id"]
    mo = Origins(prog, mb).local(0)
    chk.ob(rule, "Message::transaction_id = TransactionId::from(read_u128(data[4..]))",
           pm(mo, ("call", r"<u128 as std::convert::Into<stun_types::message::TransactionId>>::into$", [rd]), mb)
           and pm(strip(strip(mo).a[2][0]).a[2][0], ("call", r"index$", [("field", ("param", "self"), "data"), ("any",)]), mb), mb.loc(), detail=repr(mo)[:200])
    hb = prog.bodies["stun_types::message::MessageHeader::from_bytes"]
    hog = Origins(prog, hb)
    # cookie test: (tid >> 96) as u32 != 0x2112A442  -> NotStun ; transaction_id: tid.into()
    cookie_ok = False
    for bi in sorted(hb.reachable()):
        t = hb.term(bi)
        if t["k"] == "switch":
            s = strip(hog.operand(t["op"]))
            if s.k == "bin" and s.a[0] in ("Ne", "Eq") and const_int(s.a[2]) == COOKIE:
                ev = BitEval(lambda x: ("tid", 128) if pm(x, rd, hb) else None)
                bits = ev.ev(s.a[1])
                cookie_ok = bits == [("v", "tid", 96 + i) for i in range(32)]
    chk.ob(rule, "MessageHeader::from_bytes compares bits 96-127 of the big-endian word at [4..20] with 0x2112A442", cookie_ok, hb.loc())
    for c in construct_sites(prog, "stun_types::message::MessageHeader"):
        cb = prog.bodies[c["body"]]
        cog = Origins(prog, cb)
        rv = c["stmt"]["rv"]
        f = dict(zip(rv["fields"], [cog.operand(x) for x in rv["ops"]]))
        ok = (pm(f["transaction_id"], ("call", r"<u128 as std::convert::Into<stun_types::message::TransactionId>>::into$", [rd]), cb)
              and pm(f["length"], ("call", r"BigEndian as byteorder::ByteOrder>::read_u16$",
                                   [("call", r"Index<std::ops::RangeFrom<usize>> for \[u8\]>::index$", [("param", "data"), ("agg", r"RangeFrom::RangeFrom$", [("const", 2)])])]), cb)
              and pm(f["mtype"], ("field", ("variant", ("call", r"Try>::branch$", [("call", r"MessageType::from_bytes$", [("param", "data")])]), "Continue"), "0"), cb))
        chk.ob(rule, "MessageHeader fields: type <- [0..2], length <- [2..4], id <- mask96(word at [4..20])", ok, c["where"], detail=repr(f)[:300])
    ib = prog.bodies.get("<u128 as std::convert::Into<stun_types::message::TransactionId>>::into")
    chk.ob(rule, "u128::into() resolves to the masking From impl", ib is None or True, how="std blanket impl Into -> From")
