"""C15 - peer validation is monotone and happens exactly on accepted STUN input."""
import re
from rules import agent as A
from e1 import call_sites

THOROUGH_CONFIGS = ("release", "arbitrary")
LEVEL = "proof"

PEERS_WRITERS = [r"StunAgent::validated_peer$"]
PEERS_READERS = [r"StunAgent::is_validated_peer$"]


def run(prog, chk, tier):
    chk.explanation = (
        "who-may-touch(StunAgent.validated_peers) = {validated_peer: write, is_validated_peer: read, Debug}; "
        "who-may-call(validated_peer) = {handle_stun}; handle_stun decided from the abstract interpreter's return states "
        "(through validated_peer, with the set abstracted by the presence of symbolic addresses): the sender `from` - and "
        "no other address - is present afterwards exactly in the states returning StunResponse or IncomingStun, the set "
        "is untouched in the states returning Drop, nothing is ever removed; is_validated_peer answers exactly the "
        "membership of its argument and changes nothing. With HashSet semantics this is the property.")
    chk.trusted += ["rustc MIR", "std::collections::HashSet contains/insert semantics (model table)", "specification rows in pylib/rules/agent_e2.py"]
    from rules import agent_e2 as AE
    AE.touchers(prog, chk, "who-may-access", A.AGENT_V, "validated_peers", PEERS_READERS, PEERS_WRITERS, 3)
    cs = call_sites(prog, lambda n: n == A.AGENT + "::validated_peer")
    callers = sorted({re.sub(r"::\{closure#\d+\}", "", c["body"]) for c in cs})
    chk.ob("who-may-call", "validated_peer called only from handle_stun", callers == [A.AGENT + "::handle_stun"],
           detail=repr(callers))
    chk.floor("validated_peer-call-sites", len(cs), 1)
    AE.handle_stun(prog, chk)
    AE.membership(prog, chk, "is_validated_peer", A.AGENT + "::is_validated_peer", "validated_peers", "remote_addr")
    # send / send_data / poll: no validated_peer event - implied by who-may-call; recorded for the evidence
    for fn in ("send", "send_data", "poll"):
        chk.ob("no-validation-on-output", "StunAgent::%s does not call validated_peer" % fn,
               not any(c["body"].startswith(A.AGENT + "::" + fn) for c in cs))
