"""C15 - peer validation is monotone and happens exactly on accepted STUN input."""
import re
from rules import agent as A
from e1 import call_sites

LEVEL = "proof"

PEERS_ALLOW = {
    r"StunAgent::validated_peer$": {("ref", r"HashSet::<.*>::contains::<"), ("refmut", r"HashSet::<.*>::insert$")},
    r"StunAgent::is_validated_peer$": {("ref", r"HashSet::<.*>::contains::<")},
    r"<stun_proto::agent::StunAgent as std::fmt::Debug>::fmt$": {("ref", r"^(core|std)::fmt::")},
}


def run(prog, chk, tier):
    chk.explanation = (
        "who-may-access(StunAgent.validated_peers) = {validated_peer: contains/insert, is_validated_peer: contains, Debug}; "
        "no remove/clear/retain/drain/assignment anywhere (monotone); who-may-call(validated_peer) = {handle_stun}; in the "
        "extracted handle_stun table validated_peer(from) occurs exactly on the rows returning StunResponse or IncomingStun, "
        "once, with the `from` parameter; validated_peer inserts when absent and never removes; is_validated_peer is the "
        "membership test. With HashSet semantics this is the property.")
    chk.trusted += ["rustc MIR", "std::collections::HashSet semantics", "spec tables in pylib/rules/agent.py"]
    A.who_may_access(prog, chk, "who-may-access", A.AGENT_V, "validated_peers", PEERS_ALLOW, 4)
    cs = call_sites(prog, lambda n: n == A.AGENT + "::validated_peer")
    callers = sorted({re.sub(r"::\{closure#\d+\}", "", c["body"]) for c in cs})
    chk.ob("who-may-call", "validated_peer called only from handle_stun", callers == [A.AGENT + "::handle_stun"],
           detail=repr(callers))
    chk.floor("validated_peer-call-sites", len(cs), 3)
    A.handle_stun_table(prog, chk)
    A.validated_peer_table(prog, chk)
    # send / send_data / poll: no validated_peer event - implied by who-may-call; recorded for the evidence
    for fn in ("send", "send_data", "poll"):
        chk.ob("no-validation-on-output", "StunAgent::%s does not call validated_peer" % fn,
               not any(c["body"].startswith(A.AGENT + "::" + fn) for c in cs))
