"""C01 - decoding and inspection never panic or hang (E1 + E2 + lemmas)."""
from absint.lin import Lin
from absint.values import *

LEVEL = "proof"


def inv_message(it, st, s):
    """type invariant L1: Message.data.len() >= 20 (checked at every construction site, see run())"""
    d = s.get(0)
    if isinstance(d, Seq):
        st.sys.add_ge(d.len - 20)


INVARIANTS = {"stun_types::message::Message": inv_message}


import re


def entries(prog):
    """C01 entry points, selected by trait impl / def path (never by position)."""
    ents = {}
    for i in prog.impls:
        if i["crate"] != "stun_types":
            continue
        tr = i["trait"]
        for name, path in i["items"].items():
            if path not in prog.bodies:
                continue
            if tr.startswith("std::convert::TryFrom") and name == "try_from":
                ents[path] = "decoder (TryFrom)"
            elif tr.startswith("stun_types::attribute::AttributeFromRaw") and name == "from_raw":
                ents[path] = "decoder (from_raw)"
            elif tr in ("std::fmt::Display", "std::fmt::Debug") and name == "fmt":
                ents[path] = "formatting"
            elif tr == "std::iter::Iterator" and name == "next":
                ents[path] = "attribute iteration"
    rx = [
        (r"^stun_types::message::Message::<'a>::(from_bytes|get_type|class|has_class|is_response|method|has_method|transaction_id|validate_integrity|raw_attribute|attribute|iter_attributes|check_attribute_types|has_attribute)$", "message API"),
        (r"^stun_types::message::MessageHeader::(from_bytes|data_length|transaction_id|get_type)$", "header decoder"),
        (r"^stun_types::message::MessageType::(from_bytes|class|has_class|is_response|method|has_method)$", "message type decoder"),
        (r"^stun_types::attribute::RawAttribute::<'a>::from_bytes$", "raw attribute decoder"),
        (r"^stun_types::attribute::AttributeHeader::parse$", "attribute header decoder"),
        (r"::(MappedSocketAddr|XorSocketAddr)::from_raw$", "address decoder"),
    ]
    for k, b in prog.bodies.items():
        if b.mono or b.crate != "stun_types":
            continue
        for r, why in rx:
            if re.search(r, k):
                ents[k] = why
    return ents
