"""C01 - decoding and inspection never panic or hang (E1 + E2 + lemmas).

Decided: for every entry point of the decode / inspect surface, every panic edge reachable from it (Assert
terminators, preconditions of std / byteorder calls, unwrap, explicit panics) is discharged by the abstract
interpreter for *all* inputs, or by a lemma whose premises are re-checked on this tree; the local call graph is
acyclic and every loop has a machine-checked ranking argument (or is a `for` over a finite std iterator)."""
import re
from absint.lin import Lin
from absint.values import *
from absint.interp import Interp, FailClosed, State
from absint.models import M
from mir import Origins, strip, short_span, const_int
import e1

LEVEL = "proof"

MSG = "stun_types::message::Message"
FROM_BYTES = "stun_types::message::Message::<'a>::from_bytes"
VALIDATE = "stun_types::message::Message::<'a>::validate_integrity"
GET_TYPE = "stun_types::message::Message::<'a>::get_type"
ITER_NEXT = "<stun_types::message::MessageAttributesIter<'a> as std::iter::Iterator>::next"
UNKNOWN_ATTRS = "stun_types::message::Message::<'a>::unknown_attributes"
BAD_REQUEST = "stun_types::message::Message::<'a>::bad_request"
HDR_FROM_BYTES = "stun_types::message::MessageHeader::from_bytes"
MT_FROM_BYTES = "stun_types::message::MessageType::from_bytes"
RAW_FROM_BYTES = "stun_types::attribute::RawAttribute::<'a>::from_bytes"


# ----------------------------------------------------------------------------------------------- invariants

def inv_message(it, st, s):
    """type invariant L1: Message.data.len() >= 20"""
    d = s.get(0)
    if isinstance(d, Seq):
        st.sys.add_ge(d.len - 20)
        st.sys.add_ge(Lin.const(MSG_MAX) - d.len)


def inv_message_check(it, st, s):
    d = s.get(0)
    if isinstance(d, Seq):
        return [(d.len - 20, "Message.data.len() >= 20"), (Lin.const(MSG_MAX) - d.len, "Message.data.len() <= %d" % MSG_MAX)]
    return [(Lin.const(-1), "Message.data is a slice of known length")]


M2T = "stun_types::attribute::integrity::MessageIntegritySha256"


def inv_sha256(it, st, s):
    """type invariant: MessageIntegritySha256.hmac.len() in 16..=32 and a multiple of 4 (constructor and decoder enforce it)"""
    d = s.get(0)
    if isinstance(d, Seq) and not d.len.is_const():
        st.sys.add_ge(d.len - 16)
        st.sys.add_ge(Lin.const(32) - d.len)
        q = it.fresh_num(st, 4, 8, "ghostq")
        st.sys.add_eq(d.len - q.e.scale(4))
        it.ghosts[next(iter(q.e.t))] = (d.len, 4)


def inv_sha256_check(it, st, s):
    d = s.get(0)
    if isinstance(d, Seq):
        return [(d.len - 16, "MessageIntegritySha256.hmac.len() >= 16"), (Lin.const(32) - d.len, "MessageIntegritySha256.hmac.len() <= 32"),
                ("mod", d.len, 4, "MessageIntegritySha256.hmac.len() is a multiple of 4")]
    return [(Lin.const(-1), "MessageIntegritySha256.hmac is a sequence of known length")]


# upper bound used by the attribute-count argument (L6): 2 * ((len - 20 + 3) / 4) must fit u16, i.e. len <= 131085; the
# parser establishes len = declared + 20 <= 65555 (C02 length agreement decides the exact equality)
MSG_MAX = 65555        # 20 + the largest declared length (u16)

INVARIANTS = {MSG: inv_message, M2T: inv_sha256}
INVARIANT_CHECKS = {MSG: inv_message_check, M2T: inv_sha256_check}


def entries(prog):
    """C01 entry points, selected by trait impl / def path (never by position)."""
    ents = {}
    for i in prog.impls:
        if i["crate"] != "stun_types":
            continue
        tr = i["trait"]
        for name, path in i["items"].items():
            if path not in prog.bodies:
                continue
            if tr.startswith("std::convert::TryFrom") and name == "try_from":
                ents[path] = "decoder (TryFrom)"
            elif tr.startswith("stun_types::attribute::AttributeFromRaw") and name == "from_raw":
                ents[path] = "decoder (from_raw)"
            elif tr in ("std::fmt::Display", "std::fmt::Debug") and name == "fmt":
                ents[path] = "formatting"
            elif tr == "std::iter::Iterator" and name == "next":
                ents[path] = "attribute iteration"
            elif tr == "std::clone::Clone" and name == "clone" and i["self_s"].startswith(("stun_types::message::Message<", "stun_types::attribute::RawAttribute<")):
                ents[path] = "read-only copy"
    rx = [
        (r"^stun_types::message::Message::<'a>::(from_bytes|get_type|class|has_class|is_response|method|has_method|transaction_id|validate_integrity|raw_attribute|attribute|iter_attributes|check_attribute_types|has_attribute)$", "message API"),
        (r"^stun_types::message::MessageHeader::(from_bytes|data_length|transaction_id|get_type)$", "header decoder"),
        (r"^stun_types::message::MessageType::(from_bytes|class|has_class|is_response|method|has_method)$", "message type decoder"),
        (r"^stun_types::attribute::RawAttribute::<'a>::from_bytes$", "raw attribute decoder"),
        (r"^stun_types::attribute::AttributeHeader::parse$", "attribute header decoder"),
        (r"::(MappedSocketAddr|XorSocketAddr)::from_raw$", "address decoder"),
    ]
    for k, b in prog.bodies.items():
        if b.mono or b.crate != "stun_types":
            continue
        for r, why in rx:
            if re.search(r, k):
                ents[k] = why
    return ents


# ----------------------------------------------------------------------------------------------- E2 driver

class Analysis:
    """runs E2 over the entries (and over every closure / callback that escaped to external code), collects the
    obligations per source construct"""

    def __init__(self, prog, ents, invariants=INVARIANTS, inv_checks=INVARIANT_CHECKS):
        self.prog = prog
        self.ents = dict(ents)
        self.source = {}      # (body, bb, idx) -> dict(kind, descr, span, contexts: [(ok, ctx, why, entry)])
        self.analysed = {}
        self.unmodelled = {}
        self.failclosed = []
        self.loops = {}
        self.models_used = {}
        self.reached = set()
        self.entry_results = {}
        self.nvars = 0
        self.invariants = invariants
        self.inv_checks = inv_checks

    def run(self):
        todo = list(sorted(self.ents))
        done = set()
        while todo:
            k = todo.pop(0)
            if k in done or k not in self.prog.bodies:
                continue
            done.add(k)
            it = Interp(self.prog, M, self.invariants)
            it.inv_checks = self.inv_checks
            try:
                res = it.analyse_entry(k, setup=SETUPS.get(k))
                self.entry_results[k] = res
            except FailClosed as e:
                self.failclosed.append((k, str(e)))
                continue
            for o in it.obligations.values():
                rec = self.source.setdefault((o.body, o.bb, o.idx), {"kind": o.kind, "descr": o.descr, "span": o.span, "ctx": []})
                rec["ctx"].append((o.ok, o.ctx, o.why, k))
            for b, n in it.analysed.items():
                self.analysed[b] = self.analysed.get(b, 0) + n
            self.unmodelled.update(it.unmodelled)
            for key, v in it.loops.items():
                self.loops.setdefault((key[0], key[2]), []).append((k, key[1], v))
            for m, n in it.model_used.items():
                self.models_used[m] = self.models_used.get(m, 0) + n
            self.reached |= it.reached
            self.nvars += it.nvar
            for e in sorted(it.escaped):
                if e in self.prog.bodies and e not in done:
                    self.ents.setdefault(e, "callback handed to external code")
                    todo.append(e)
            if not todo:
                # trait impls of workspace types that external generic code may call back (PartialEq in
                # slice::contains, Clone in to_vec, ...): analysed stand-alone on arbitrary arguments
                cg = self.prog.call_graph()
                trait_of = {}
                for i in self.prog.impls:
                    for name, path in i["items"].items():
                        trait_of[path] = i["trait"]
                for b in sorted(self.analysed):
                    for bi, t, tg, cb in cg.get(b, []):
                        if (b, bi) not in self.reached:
                            continue        # a call site no analysed context reaches hands nothing to anybody
                        ext = [x[1] for x in tg if x[0] == "ext"]
                        allowed = set()
                        for n in ext:
                            allowed |= callback_traits(n)
                        for c_ in cb:
                            cb_body = self.prog.bodies.get(c_)
                            if cb_body is None or c_ in done or c_ in self.analysed:
                                continue
                            tr = trait_of.get(c_) or trait_of.get(cb_body.defp)
                            if cb_body.kind != "closure" and (tr is None or tr.split("<")[0] not in allowed):
                                continue
                            if cb_body.mono and cb_body.defp in self.analysed:
                                continue
                            self.ents.setdefault(c_, "trait impl callable from external generic code")
                            todo.append(c_)
        return self


def snapshot_self(it, st, fr):
    """keep the initial value of *self alive as a ghost cell, so return states can be related to it"""
    for c in list(st.cells):
        if c.endswith("*a1"):
            st.cells["ghost:init"] = st.cells[c]


SETUPS = {ITER_NEXT: snapshot_self}


CALLBACK_TABLE = [
    # external callee pattern -> traits of its generic arguments it may call
    (r"::contains$|PartialEq|::eq$|::ne$|assert_failed|::starts_with$|::ends_with$|::dedup|::position", {"std::cmp::PartialEq"}),
    (r"to_vec|to_owned|::clone$|cloned|extend_from_slice|from_elem|::resize$|Clone", {"std::clone::Clone"}),
    (r"new_debug|debug_|field::debug|Debug", {"std::fmt::Debug"}),
    (r"new_display|field::display|to_string|Display", {"std::fmt::Display"}),
    (r"new_lower_hex|LowerHex", {"std::fmt::LowerHex"}),
    (r"hash|Hash", {"std::hash::Hash", "std::cmp::PartialEq", "std::cmp::Eq"}),
    (r"::cmp$|partial_cmp|::sort|::max$|::min$|Ord|binary_search|BTree", {"std::cmp::Ord", "std::cmp::PartialOrd", "std::cmp::PartialEq"}),
    (r"Iterator|IntoIterator|FromIterator|Extend", {"std::iter::Iterator", "std::iter::IntoIterator"}),
    (r"Default|unwrap_or_default|mem::take", {"std::default::Default"}),
    (r"drop_glue|mem::drop", {"std::ops::Drop"}),
    (r"::into$|::from$|try_into|try_from", {"std::convert::From", "std::convert::TryFrom", "std::convert::Into"}),
    (r"Deref|as_ref|borrow", {"std::ops::Deref", "std::ops::DerefMut", "std::convert::AsRef"}),
]


def callback_traits(name):
    out = set()
    for rx, trs in CALLBACK_TABLE:
        if re.search(rx, name):
            out |= trs
    return out


# ----------------------------------------------------------------------------------------------- helpers for lemmas

def guard_of_panic(prog, body, bb):
    """classify the condition guarding a panic block: origin of the discriminant of the nearest switch that
    decides between the panic block and the normal continuation"""
    og = Origins(prog, body)
    seen = set()
    cur = bb
    for _ in range(6):
        ps = [p for p in body.preds(cur) if p not in seen]
        if len(ps) != 1:
            return None
        p = ps[0]
        seen.add(p)
        t = body.term(p)
        if t["k"] == "switch":
            return og.operand(t["op"])
        cur = p
    return None


PREMISE_PROG = None     # premises are evaluated on the dev-profile program (their rules read dev MIR shapes)


_SUB_CACHE = {}
_SUB_KEEP = []      # keeps the programs alive so that ids are not reused


def sub_check(prog, module, rules=None):
    """run another property's rule set on this tree as a lemma premise; -> (ok, failing keys)"""
    import importlib
    from report import Check
    if PREMISE_PROG is not None:
        prog = PREMISE_PROG
    mod = importlib.import_module("rules." + module)
    ck = (id(prog), module)
    sub = _SUB_CACHE.get(ck)
    if sub is None:
        # (one evaluation per rule set and program: several lemmas use the same premises)
        sub = Check(module.upper(), "quick", "other", 0)
        try:
            mod.run(prog, sub, "quick")
        except Exception as e:
            return False, ["%s: %s" % (type(e).__name__, e)]
        _SUB_CACHE[ck] = sub
        _SUB_KEEP.append(prog)
    bad = [o for o in sub.obs if not o["ok"] and (rules is None or o["rule"] in rules)]
    n = sum(1 for o in sub.obs if (rules is None or o["rule"] in rules))
    if n == 0:
        return False, ["no instance of %s evaluated" % (rules,)]
    return not bad, ["%s|%s" % (o["rule"], o["instance"]) for o in bad[:5]]


def walker_facts(prog, key):
    """For a TLV-walking loop body: (start offset consts, advance facts).  Returns dict with
       'from_bytes_arg': origins of the slice handed to RawAttribute::from_bytes,
       'advance': True when the RangeFrom index start is padded_len(&attr) with attr the Ok payload of that call,
       'base': origin of the slice the walk starts on (the [20..] re-slice)"""
    from dtable import instrumented_body
    b, ups = instrumented_body(prog, key)
    og = Origins(prog, b)
    facts = {"body": b.key, "raw_calls": 0, "advance_ok": 0, "advance_sites": 0, "starts": [], "base": []}
    heads = {h for (_, h) in b.back_edges()}
    loop_blocks = set()
    for h in heads:
        loop_blocks |= b.natural_loop(h)
    for bi, t in b.calls():
        name = og.callee_name(t)
        if name == RAW_FROM_BYTES and bi in loop_blocks:
            facts["raw_calls"] += 1
        if re.search(r"Index<std::ops::RangeFrom<usize>> for \[u8\]>::index$", name):
            rng = strip(og.operand(t["args"][1]))
            start = strip(rng.a[1][0]) if rng.k == "agg" and rng.a[1] else None
            if bi in loop_blocks:
                facts["advance_sites"] += 1
                # start must be AttributeExt::padded_len(&attr), attr <- Continue payload of Try::branch(RawAttribute::from_bytes(..))
                if start is not None and start.k == "call" and "AttributeExt>::padded_len" in start.a[0]:
                    src = repr(start)
                    if RAW_FROM_BYTES in src or "multi" in src or "partial" in src:
                        facts["advance_ok"] += 1
                elif start is not None and start.k in ("multi", "partial"):
                    # padded_len stored in a local first: accept when that local's only definition is the padded_len call
                    l = start.a[0]
                    ds = b.defs().get(l, [])
                    if ds and all(d[0] == "call" and "AttributeExt>::padded_len" in og.callee_name(d[3]) for d in ds):
                        facts["advance_ok"] += 1
            else:
                c = const_int(start) if start is not None else None
                facts["starts"].append(c)
                facts["base"].append(repr(strip(og.operand(t["args"][0])))[:200])
    return facts


# ----------------------------------------------------------------------------------------------- the rule

def run(prog, chk, tier, analysis=None):
    chk.explanation = ("Abstract interpretation (linear constraints over integers and slice lengths with affine-hull joins, "
                       "enum-variant partitioning, widening; workspace callees analysed in context; external callees by a "
                       "model table) of every decode/inspect entry point of stun-types: each reachable panic edge is an "
                       "obligation discharged for all inputs by the domain or by a lemma whose premises are re-checked here; "
                       "call graph acyclic; every loop has a ranking argument checked on the fixpoint.")
    chk.trusted += ["external-callee model table (pylib/absint/models.py): std/byteorder/tracing/hmac/crc calls are total under "
                    "their recorded preconditions; Formatter sinks and tracing Subscribers do not panic",
                    "lemma arguments L2-L5, L7 (prose in DESIGN.md); their premises are machine-checked",
                    "allocation failure and stack exhaustion are out of scope"]
    cfg = prog.meta.get("stun_types", {})
    chk.assumptions.append("analysed configuration: overflow_checks=%s debug_assertions=%s (dev profile is the binding one for the "
                           "'overflows' clause)" % (cfg.get("overflow_checks"), cfg.get("debug_assertions")))
    ents = entries(prog)
    chk.floor("entry-points", len(ents), 110)
    # no unsafe code in the analysed crates (soundness premise of the memory model)
    user_unsafe = [u for u in prog.unsafe_blocks if u["crate"] == "stun_types" and not u.get("exp")]
    chk.ob("no-unsafe", "stun_types has no user-written unsafe block", not user_unsafe,
           where=user_unsafe[0]["span"] if user_unsafe else None, how="HIR visitor")
    an = analysis or Analysis(prog, ents).run()
    chk.analysed["entries"] = len(an.ents)
    chk.analysed["bodies_analysed"] = len(an.analysed)
    chk.analysed["contexts_analysed"] = sum(an.analysed.values())
    chk.analysed["symbolic_variables"] = an.nvars
    chk.analysed["models_used"] = an.models_used
    for k, why in an.failclosed:
        chk.fail("fail-closed", k, prog.bodies[k].loc(), why)
    for n, w in an.unmodelled.items():
        chk.fail("unmodelled-callee", n, w, "external callee without a model (fail closed)")
    # coverage: every body reachable from the analysed entries through resolved workspace calls was analysed in some
    # context (callbacks and closures reach the analysis as entries of their own: Analysis.run)
    reach = prog.reach(sorted(an.ents), follow_callbacks=False, follow_closures=False)
    direct = _direct_reach(prog, sorted(an.ents))
    # (targets of dyn / generic dispatch are analysed per call site after devirtualisation by the pointer's recorded
    # concrete type or by signature; only uniquely resolved edges are required to be covered)
    missing = [k for k in direct if k not in an.analysed and not _covered_elsewhere(prog, k, an)]
    chk.counts["reachable_bodies"] = len(reach)
    chk.ob("coverage", "every body reachable from the entries was analysed", not missing,
           detail="not analysed: %s" % missing[:8], how="call-graph reachability vs analysed set")
    chk.floor("bodies-analysed", len(an.analysed), 220)

    lemmas = Lemmas(prog, chk, an)
    n_src = 0
    by_kind = {}
    for (body, bb, idx), rec in sorted(an.source.items()):
        n_src += 1
        by_kind[rec["kind"]] = by_kind.get(rec["kind"], 0) + 1
        bad = [c for c in rec["ctx"] if not c[0]]
        b = prog.bodies[body]
        inst = "%s|%s|%s" % (body, rec["kind"], _stable_descr(rec["descr"]))
        if not bad:
            chk.ob("panic-free", inst, True, where=short_span(rec["span"]), how="E2 domain (%d context(s))" % len(rec["ctx"]))
            continue
        lem = lemmas.match(body, bb, rec, bad)
        if lem is not None:
            lid, ok, detail = lem
            chk.ob("panic-free", inst, ok, where=short_span(rec["span"]),
                   detail=("lemma %s premise failed: %s" % (lid, detail)) if not ok else None, how="lemma %s (premises checked)" % lid)
            continue
        c = bad[0]
        chk.ob("open", inst, False, where=short_span(rec["span"]),
               detail="%s; reached from entry %s via %s (%d of %d context(s) open)" % (c[2], c[3], _ctx_path(c[1]), len(bad), len(rec["ctx"])))
    chk.counts["obligations_by_kind"] = by_kind
    chk.floor("panic-obligations", n_src, 125 if cfg.get("overflow_checks") else 75)
    lemmas.report()
    termination(prog, chk, an, reach)
    chk.sample({"what": "obligation kinds", "counts": by_kind})


def _direct_reach(prog, roots):
    cg = prog.call_graph()
    seen = set(r for r in roots if r in prog.bodies)
    work = list(seen)
    while work:
        k = work.pop()
        for bi, t, tg, cb in cg.get(k, []):
            loc = [x[1] for x in tg if x[0] == "local"]
            if len(loc) == 1 and loc[0] not in seen:
                seen.add(loc[0])
                work.append(loc[0])
    return seen


ALLOW_UNREACHED = ()


def _allowed_unreached(k):
    return False


def _covered_elsewhere(prog, k, an):
    b = prog.bodies[k]
    if b.mono and b.defp in an.analysed:
        return True
    if b.mono and any(prog.bodies[a_].defp == b.defp for a_ in an.analysed if a_ in prog.bodies and prog.bodies[a_].mono):
        return True          # another instance of the same generic definition was analysed
    m = re.match(r"^(.*)::\{closure#\d+\}((?:::\{closure#\d+\})*)(\[.*\])?$", k)
    if m and ((m.group(1) + (m.group(3) or "")) in an.analysed or m.group(1) in an.analysed):
        # a closure of an analysed body: calls of it are analysed in context, so a closure that never ran sits on a path the
        # analysis showed infeasible (closures handed to external code are entries of their own)
        return True
    # derive-generated helper never called at run time
    if k.endswith("::assert_fields_are_eq") or "assert_receiver_is_total_eq" in k:
        return True
    return False


def _stable_descr(d):
    d = re.sub(r"\b[tp][0-9a-f]+(_[a-z0-9_]+)?\b", "v", d)
    return d[:80]


def _ctx_path(ctx):
    parts = re.findall(r"[:\[]([A-Za-z_][\w.{}#|<>' ]*?)#[0-9a-f]+", ctx)
    return " > ".join(parts[-5:]) if parts else ctx[-80:]


# ----------------------------------------------------------------------------------------------- lemmas

class Lemmas:
    def __init__(self, prog, chk, an):
        self.prog, self.chk, self.an = prog, chk, an
        self.cache = {}
        self.used = {}

    def premise(self, lid):
        if lid not in self.cache:
            self.cache[lid] = getattr(self, "prem_" + lid)()
        return self.cache[lid]

    def match(self, body, bb, rec, bad):
        kind = rec["kind"]
        b = self.prog.bodies[body]
        lid = None
        if body == FROM_BYTES + "::{closure#0}" or body == FROM_BYTES:
            m4 = re.search(r"< len (\d+)$", rec["descr"])
            if kind == "assert:BoundsCheck" and m4 and int(m4.group(1)) >= 3:
                lid = "L4"
        if body in (VALIDATE, VALIDATE + "::{closure#0}"):
            if kind == "panic-call":
                g = guard_of_panic(self.prog, b, bb)
                gs = repr(g) if g is not None else ""
                if "padded_len" in gs and ("Le" in gs or "Gt" in gs or "Lt" in gs or "Ge" in gs):
                    lid = "L2"
                elif re.search(r"PartialEq.*>::(eq|ne)|partial_eq|equality", gs):
                    lid = "L3"
                elif "is_empty" in gs or g is None:
                    lid = "L3"
            elif kind in ("index:start",):
                lid = "L2"
        if body == GET_TYPE and kind == "unwrap":
            lid = "L7"
        if kind == "unwrap" and body in (UNKNOWN_ATTRS, BAD_REQUEST):
            lid = "L5"
        if kind == "panic-call" and body.startswith("stun_types::message::MessageBuilder::<'a>::add_attribute"):
            if all(("unknown_attributes" in c[1] or "bad_request" in c[1]) for c in bad):
                lid = "L5"
        if lid is None:
            return None
        ok, detail = self.premise(lid)
        self.used[lid] = self.used.get(lid, 0) + 1
        return lid, ok, detail

    def report(self):
        for lid in sorted(self.cache):
            ok, detail = self.cache[lid]
            self.chk.ob("lemma-premises", lid, ok, detail=detail, how="re-checked on this tree; discharges %d obligation(s)" % self.used.get(lid, 0))

    # ---- L4: seen_ending_len < 3 at the store into seen_ending_attributes
    def prem_L4(self):
        ok, bad = sub_check(self.prog, "c02", rules={"ending-automaton"})
        if not ok:
            return False, "the C02 ending-attribute automaton (no ending type is recorded twice; only MI/M2/FP are recorded) does not hold: %s" % bad
        return True, "C02 ending-automaton holds: at most |{MI,M2,FP}| = 3 distinct types are ever recorded, each at most once"

    # ---- L2: an accepted message body is tiled by (RawAttribute::from_bytes, padded_len)
    def prem_L2(self):
        msgs = []
        # the parser tiles the buffer it accepts (C02: scripted walk) ...
        ok, bad = sub_check(self.prog, "c02", rules={"tiling", "length-agreement"})
        if not ok:
            msgs.append("C02 tiling / length agreement fails: %s" % bad)
        # ... and the inspection walk steps over the same buffer the same way (ghost-based inductive check)
        from rules import walk_e2 as W

        class _C:
            def __init__(s_):
                s_.bad = []

            def ob(s_, rule, inst, ok_, loc=None, detail=None, how=None, where=None):
                if not ok_:
                    s_.bad.append("%s (%s)" % (inst, detail))
                return ok_

            def fail(s_, rule, inst, loc=None, detail=None):
                s_.bad.append("%s (%s)" % (inst, detail))

            def floor(s_, *a):
                pass
        c_ = _C()
        W.tiling_walk(self.prog, c_, "tiling", VALIDATE, "in:self_data", 20, "validate_integrity")
        msgs += c_.bad
        # the parser's own advance is discharged by the domain (its guard `padded_len > data.len()` refuses first)
        for (body, bb, idx), rec in self.an.source.items():
            if body.startswith(FROM_BYTES) and rec["kind"] == "index:start" and any(not c[0] for c in rec["ctx"]):
                msgs.append("from_bytes: its own `&data[padded_len..]` is not discharged")
        sites = e1.construct_sites(self.prog, MSG)
        where = {s["body"] for s in sites}
        allowed = {FROM_BYTES, FROM_BYTES + "::{closure#0}", "<stun_types::message::Message<'a> as std::clone::Clone>::clone"}
        if not where <= allowed:
            msgs.append("Message is constructed outside from_bytes/clone: %s" % sorted(where - allowed))
        return (not msgs), ("; ".join(msgs) if msgs else "the parser accepts only buffers tiled by attributes from offset 20 (C02 scripted walk); validate_integrity decodes each attribute where the previous one's padded extent ended, from offset 20 of self.data; the parser refuses an over-long attribute before advancing; Message is constructed only by from_bytes/clone")

    def prem_L3(self):
        ok2, d2 = self.premise("L2")
        if not ok2:
            return False, "needs L2: " + d2
        ok, bad = sub_check(self.prog, "c02", rules={"ending-automaton"})
        if not ok:
            return False, "C02 ending-automaton (no repeated integrity attribute) fails: %s" % bad
        ok, bad = sub_check(self.prog, "c10")
        if not ok:
            return False, "C10 exposure transducer fails: %s" % bad
        ok, bad = sub_check(self.prog, "c04", rules={"validate-side"})
        if not ok:
            return False, "C04 validate-side (the scan stops at an attribute of the type that was looked up, per algorithm) fails: %s" % bad
        return True, "the scan stops at an attribute of the looked-up type (C04 validate-side, E2 return states); parser admits each at most once; iterator exposure (C10) and tiling (L2) hold"

    def _scan_types(self):
        """the scan compares the same type constants the lookups used"""
        from dtable import instrumented_body
        b, ups = instrumented_body(self.prog, VALIDATE)
        og = Origins(self.prog, b)
        looked, compared = set(), set()
        for bi, t in b.calls():
            name = og.callee_name(t)
            if name.endswith("::raw_attribute"):
                c = const_int(strip_field(og.operand(t["args"][1])))
                looked.add(c)
            if re.search(r"AttributeType as std::cmp::PartialEq>::eq$", name):
                for a in t["args"]:
                    c = const_int(strip_field(og.operand(a)))
                    if c is not None:
                        compared.add(c)
        if looked != {0x0008, 0x001C} or not looked <= compared:
            return False, "lookups use types %s but the scan compares %s" % (sorted(looked), sorted(compared))
        # each comparison is conjoined with the matching algorithm test: `algo == X && type == T(X)`
        eqs = [(bi, t) for bi, t in b.calls() if og.callee_name(t).endswith("IntegrityAlgorithm as std::cmp::PartialEq>::eq")]
        if len(eqs) < 2:
            return False, "the scan no longer tests the selected algorithm before comparing types (%d test(s))" % len(eqs)
        return True, "ok"

    # ---- L5: adding distinct non-sealing attributes to a fresh builder succeeds
    def prem_L5(self):
        ok, bad = sub_check(self.prog, "c11")
        if not ok:
            return False, "C11 builder tables fail: %s" % bad
        msgs = []
        for key in (UNKNOWN_ATTRS, BAD_REQUEST):
            b = self.prog.bodies[key]
            og = Origins(self.prog, b)
            types = []
            fresh = False
            for bi, t in b.calls():
                name = og.callee_name(t)
                if name.endswith("::builder_error_unchecked"):
                    fresh = True
                if name.endswith("MessageBuilder::<'a>::add_attribute"):
                    recv = repr(og.operand(t["args"][0]))
                    a = og.operand(t["args"][1])
                    # &T coerced to &dyn AttributeWrite: find T through the cast operand's type
                    tname = None
                    for bi2, si2, s2 in b.iter_stmts():
                        pass
                    src = t["args"][1]
                    tname = _unsized_source_type(b, src)
                    cv = self.prog.consts.get("<%s as stun_types::attribute::AttributeStaticType>::TYPE" % tname, {}).get("v", {}).get("int") if tname else None
                    types.append((tname, cv))
            if not fresh:
                msgs.append("%s: the builder does not come from builder_error_unchecked" % key)
            vals = [v for _, v in types]
            if not types or None in vals:
                msgs.append("%s: cannot resolve the attribute types added: %s" % (key, types))
            elif len(set(vals)) != len(vals) or set(vals) & {0x0008, 0x001C, 0x8028}:
                msgs.append("%s: added types are not pairwise distinct non-sealing types: %s" % (key, types))
        # a fresh builder holds no attributes
        bk = "stun_types::message::Message::<'a>::builder"
        if bk in self.prog.bodies:
            b = self.prog.bodies[bk]
            og = Origins(self.prog, b)
            sites = [s for s in e1.construct_sites(self.prog, "stun_types::message::MessageBuilder") if s["body"] == bk]
            okb = False
            for s in sites:
                ops = [repr(strip(og.operand(o))) for o in s["stmt"]["rv"]["ops"]]
                if sum(1 for o in ops if "Vec" in o and ("::new" in o or "with_capacity" in o)) >= 2 or sum(1 for o in ops if "SmallVec" in o or "Vec" in o) >= 2:
                    okb = True
            if not okb:
                msgs.append("Message::builder does not start from empty attribute lists")
        return (not msgs), ("; ".join(msgs) if msgs else "fresh builder; added types pairwise distinct and none of MI/M2/FP; C11 refusal table holds")

    # ---- L7: the first two bytes of an accepted message decode as a MessageType
    def prem_L7(self):
        msgs = []
        # (a) what the header decoder accepts (>= 20 bytes, top two bits of byte 0 clear), the getters reading the same bytes
        ok, bad = sub_check(self.prog, "c17", rules={"header-acceptance", "offset-agreement", "header-delegation"})
        if not ok:
            msgs.append("header acceptance / delegation (C17) fails: %s" % bad)
        # (b) the message constructed is the buffer the header decoder accepted
        ok, bad = sub_check(self.prog, "c02", rules={"length-agreement"})
        if not ok:
            msgs.append("C02 length agreement (Message.data is the whole accepted buffer) fails: %s" % bad)
        # (c) the type decoder refuses only what the header decoder refuses too
        from rules import walk_e2 as W
        ok, d = W.type_decoder_refusals(self.prog)
        if not ok:
            msgs.append("MessageType::from_bytes: %s" % d)
        sites = e1.construct_sites(self.prog, MSG)
        where = {s["body"] for s in sites}
        allowed = {FROM_BYTES, FROM_BYTES + "::{closure#0}", "<stun_types::message::Message<'a> as std::clone::Clone>::clone"}
        if not where <= allowed:
            msgs.append("Message is constructed outside from_bytes/clone: %s" % sorted(where - allowed))
        return (not msgs), ("; ".join(msgs) if msgs else "Message.data is a buffer the header decoder accepted (>= 20 bytes, top two bits of byte 0 clear); the type decoder refuses only shorter buffers or set top bits (decided over byte variables); Message is constructed only by from_bytes/clone")

def strip_field(o):
    """AttributeType(x) newtype / references peeled down to the constant"""
    o = strip(o)
    for _ in range(4):
        if o.k == "agg" and len(o.a[1]) == 1:
            o = strip(o.a[1][0])
        elif o.k == "field":
            o = strip(o.a[0])
        else:
            break
    return o


def _unsized_source_type(b, op):
    """the concrete T of an `&T as &dyn Trait` argument"""
    if op["k"] not in ("copy", "move") or op["pl"]["p"]:
        return None
    l = op["pl"]["l"]
    seen = set()
    for _ in range(6):
        ds = b.defs().get(l, [])
        if len(ds) != 1 or ds[0][0] != "stmt" or l in seen:
            return None
        seen.add(l)
        rv = ds[0][3]["rv"]
        if rv["k"] == "cast" and rv["kind"].startswith("PointerCoercion(Unsize"):
            src = rv["op"]
            t = b.ty(src["pl"]["ty"]) if src["k"] in ("copy", "move") else b.ty(src["ty"])
            if t.get("k") == "ref":
                to = b.ty(t["to"])
                return to.get("path")
            return None
        if rv["k"] in ("use", "copy_for_deref") and (rv.get("op", {}).get("k") in ("copy", "move")):
            l = rv["op"]["pl"]["l"]
            continue
        if rv["k"] == "ref" and not rv["pl"]["p"]:
            l = rv["pl"]["l"]
            continue
        if rv["k"] == "ref" and rv["pl"]["p"] == [{"k": "deref"}]:
            l = rv["pl"]["l"]
            continue
        return None
    return None


def _ok_arm_dominates(prog, b, og, call_bb, target_bb):
    """the value returned by the call at call_bb goes through `Try::branch`, and target_bb is dominated by the
    Continue arm of the switch on its discriminant (i.e. by the `?` having succeeded)"""
    t = b.term(call_bb)
    dest = t["dest"]["l"]
    for bi, tt in b.calls():
        if og.callee_name(tt).endswith("as std::ops::Try>::branch") and tt["args"] and tt["args"][0]["k"] in ("move", "copy") and tt["args"][0]["pl"]["l"] == dest:
            nb = tt["t"]
            sw = b.term(nb)
            if sw["k"] != "switch":
                return False
            cont = [x for v, x in sw["targets"] if v == 0]
            return bool(cont) and b.dominates(cont[0], target_bb)
    return False


# ----------------------------------------------------------------------------------------------- termination

STD_FINITE_ITER = re.compile(r"^<(std::iter::(Enumerate|Map|Filter|Rev|Take|Skip|Zip|Cloned|Copied)<)*std::(slice::(Iter|IterMut|ChunksExact|Chunks)(Mut)?|vec::IntoIter|ops::Range)<.*> as std::iter::Iterator>::next$")
LOCAL_ITER = re.compile(r"^<(std::iter::(Enumerate|Map|Filter)<)+stun_types::message::MessageAttributesIter<.*> as std::iter::Iterator>::next$")


def termination(prog, chk, an, reach):
    # (i) acyclic call graph over the reachable bodies
    cg = prog.call_graph()
    color = {}
    cyc = []

    def dfs(k):
        stack = [(k, iter([x[1] for _, _, tg, cb in cg.get(k, []) for x in tg if x[0] == "local"]))]
        color[k] = 1
        while stack:
            n, itx = stack[-1]
            adv = False
            for m in itx:
                if m not in reach:
                    continue
                if color.get(m) == 1:
                    cyc.append((n, m))
                elif m not in color:
                    color[m] = 1
                    stack.append((m, iter([x[1] for _, _, tg, cb in cg.get(m, []) for x in tg if x[0] == "local"])))
                    adv = True
                    break
            if not adv:
                color[n] = 2
                stack.pop()
    for k in sorted(reach):
        if k not in color:
            dfs(k)
    # CHA-induced cycles through `dyn` dispatch were already excluded by the principal-trait filter; E2 also fails closed
    chk.ob("termination", "call graph over the reachable bodies is acyclic", not cyc, detail="cycle: %s" % (cyc[:2],), how="DFS")
    # (ii) loops
    n_loops = 0
    for k in sorted(reach):
        b = prog.bodies[k]
        if b.mono and b.defp in reach and b.defp != k:
            continue
        heads = sorted({h for (_, h) in b.back_edges()})
        for h in heads:
            n_loops += 1
            inst = "%s|loop" % k
            ok, how = classify_loop(prog, b, h, an)
            chk.ob("termination", inst, ok, where=b.loc(b.term(h).get("span")), detail=None if ok else how, how=how)
    chk.floor("loops-classified", n_loops, 9)
    # (iii) the workspace iterator makes progress: every Some advances the cursor by >= 4 below the length
    res = an.entry_results.get(ITER_NEXT)
    ok, why = iterator_progress(prog, an, res)
    chk.ob("termination", "MessageAttributesIter::next: Some => cursor advanced by >= 4 and was < len", ok, detail=None if ok else why,
           how="E2 return states" if ok else None)


def classify_loop(prog, b, h, an):
    og = Origins(prog, b)
    loop = b.natural_loop(h)
    # `for` over a finite std iterator: a next() call on it inside the loop dominates every back-edge source
    backs = [p for p in b.preds(h) if b.dominates(h, p)]
    for bi in sorted(loop):
        t = b.term(bi)
        if t["k"] == "call":
            name = og.callee_name(t)
            if STD_FINITE_ITER.match(name) and all(b.dominates(bi, p) for p in backs):
                return True, "for-loop over a finite std iterator (%s)" % name.split(" as ")[0][1:60]
            if LOCAL_ITER.match(name) and all(b.dominates(bi, p) for p in backs):
                return True, "for-loop over MessageAttributesIter (finite by rule iii)"
    recs = an.loops.get((b.key, h))
    if not recs:
        return False, "loop not analysed"
    for entry, fid, (heads, backs_) in recs:
        r = ranking(heads, backs_, "%s:ghost@bb%d" % (fid, h))
        if r is None:
            return False, "no ranking argument found for the loop at bb%d (entry %s)" % (h, entry)
        how = r
    return True, "ranking: " + how


def ranking(heads, backs, ghost_name=None):
    """a measure that strictly decreases on every back edge and is bounded below.  Every back-edge state carries a
    ghost snapshot of the numeric state at the start of its iteration; returns a description or None"""
    from absint.interp import num_leaves
    if not backs:
        return "no feasible back edge"
    per_state = []
    for bs in backs:
        gname = [c for c in bs.cells if ":ghost@bb" in c and (ghost_name is None or c == ghost_name)]
        if not gname:
            return None
        # the innermost enclosing loop's snapshot is the one whose name matches this head; callers pass it
        g = bs.cells[gname[-1] if ghost_name is None else ghost_name]
        start = {n: v.e for n, v in g.f.items() if isinstance(v, Num)}
        end = {}
        for c, v in bs.cells.items():
            if ":ghost@bb" not in c and ":k@bb" not in c:
                num_leaves(c, v, end)
        per_state.append((bs, start, end))
    names = set(per_state[0][1])
    for _, st_, _e in per_state[1:]:
        names &= set(st_)
    for name in sorted(names):
        dec = inc = True
        bound = None
        for bs, start, end in per_state:
            he, be = start[name], end.get(name)
            if be is None:
                dec = inc = False
                break
            if not (bs.sys.entails_ge(he - be - 1) and bs.sys.entails_ge(be)):
                dec = False
            if inc and bs.sys.entails_ge(be - he - 1):
                ub = None
                for n2, h2 in start.items():
                    if n2 != name and end.get(n2) is not None and bs.sys.entails_eq(end[n2] - h2) and bs.sys.entails_ge(h2 - he - 1):
                        ub = n2
                        break
                if ub is None:
                    inc = False
                else:
                    bound = ub
            else:
                inc = False
            if not dec and not inc:
                break
        if dec:
            return "%s decreases by >= 1 and stays >= 0" % _leaf_name(name)
        if inc:
            return "%s increases by >= 1 below the loop-invariant %s" % (_leaf_name(name), _leaf_name(bound))
    return None


def _leaf_name(n):
    return re.sub(r"^.*:(_\d+|a\d+\*a\d+)", r"\1", n)


def iterator_progress(prog, an, res):
    if not res:
        return False, "MessageAttributesIter::next was not analysed"
    b = prog.bodies[ITER_NEXT]
    for st, ret in res:
        if isinstance(ret, Enum) and 1 in ret.v:
            if 0 in ret.v:
                return False, "a return state mixes Some and None"
            # cursor field before/after: the region cell of `self`
            cells = [c for c in st.cells if c.endswith("*a1")]
            if not cells:
                return False, "self region not found"
            s = st.cells[cells[0]]
            if not isinstance(s, Struct):
                return False, "self is not a struct"
            data, cur = s.get(0), s.get(1)
            if not (isinstance(data, Seq) and isinstance(cur, Num)):
                return False, "cursor/data not tracked"
            g = st.cells.get("ghost:init")
            if not (isinstance(g, Struct) and isinstance(g.get(1), Num)):
                return False, "initial cursor not tracked"
            i0 = g.get(1).e
            if not st.sys.entails_ge(cur.e - i0 - 4):
                return False, "cannot show cursor' >= cursor + 4 on a Some return"
            if not st.sys.entails_ge(data.len - i0 - 1):
                return False, "cannot show cursor < len on a Some return"
    return True, None


def run_thorough(prog, chk):
    """repeat under the release profile (no debug assertions, wrapping arithmetic) and with the `arbitrary` feature"""
    import mir
    from report import Check
    global PREMISE_PROG
    PREMISE_PROG = prog
    for cfgname in ("release", "arbitrary"):
        try:
            p2 = mir.build_program(config=cfgname)
        except Exception as e:
            chk.fail("thorough-config", cfgname, None, "cannot analyse configuration: %s" % e)
            continue
        sub = Check("C01", "thorough", LEVEL, 0)
        run(p2, sub, "quick")
        bad = [o for o in sub.obs if not o["ok"]]
        chk.ob("thorough-config", cfgname, not bad, detail="; ".join("%s|%s" % (o["rule"], o["instance"]) for o in bad[:4]),
               how="%d obligations under configuration %s" % (len(sub.obs), cfgname))
        chk.counts["obligations_" + cfgname] = len(sub.obs)
