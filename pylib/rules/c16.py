"""C16 - attribute policing returns the RFC 8489 s6.3.1 verdict (requests)."""
import re
from mir import Origins, Origin, strip, short_span, const_int
from dtable import Walker, Unrecognised, pm, events_only, show, mentions, instrumented_body, ev_match

LEVEL = "proof"
M = "stun_types::message::Message::<'a>::"
ITER = ("call", r"Message::<'a>::iter_attributes$", [("param", "msg")])


def closure_of(o):
    """key of the closure aggregate inside an origin"""
    for x in o.walk():
        if x.k == "agg" and str(x.a[0]).startswith("closure:"):
            return str(x.a[0])[len("closure:"):], x
    return None, None


def returns_get_type(prog, key):
    cb = prog.bodies.get(key)
    if cb is None:
        return False
    o = Origins(prog, cb).local(0)
    return pm(o, ("call", r"RawAttribute<'a> as stun_types::attribute::Attribute>::get_type$", [("param", 2)]), cb)


def eq_upvar_closure(prog, key):
    """closure(|x| x == captured)"""
    cb = prog.bodies.get(key)
    if cb is None:
        return False
    o = strip(Origins(prog, cb).local(0))
    if not (o.k == "call" and re.search(r"AttributeType as std::cmp::PartialEq>::eq$", o.a[0])):
        return False
    reprs = [repr(strip(a)) for a in o.a[2]]
    return any(r == "param(2)" for r in reprs) and any("upvar0" in r for r in reprs)


def run(prog, chk, tier):
    chk.explanation = (
        "check_attribute_types as a decision table: unsupported list non-empty -> Some(unknown_attributes(msg, &unsupported)) "
        "(tested before the required-missing test) ; else a required type absent -> Some(bad_request(msg)) ; else None. The "
        "candidate list is iter_attributes().map(get_type).filter(comprehension_required && !supported.any(==)).collect() - "
        "order-preserving adaptors only; comprehension_required is `value < 0x8000` (exact for all 65536 values); the responses "
        "are built with ErrorCode 420/400, class Error, method and transaction id of the source, UNKNOWN-ATTRIBUTES added iff "
        "the list is non-empty. Decided for the wiring; that the response parses back is C03.")
    chk.trusted += ["rustc MIR", "Iterator::map/filter/collect/any semantics (order preserving)", "spec in pylib/rules/c16.py"]
    rule = "policing-table"
    b, ups = instrumented_body(prog, M + "check_attribute_types")
    og = Origins(prog, b)
    msg, supported, required = ("param", "msg"), ("param", "supported"), ("param", "required_in_msg")
    collect = ("call", r"Iterator>::collect::<std::vec::Vec<stun_types::attribute::AttributeType>>$",
               [("call", r"Iterator>::filter::<", [("call", r"MessageAttributesIter<'_> as std::iter::Iterator>::map::<", [ITER, ("agg", "^closure:", None)]),
                                                   ("agg", "^closure:", None)])])
    is_empty = ("call", r"Vec::<stun_types::attribute::AttributeType>::is_empty$", [collect])
    any_req = ("call", r"slice::Iter<'_, stun_types::attribute::AttributeType> as std::iter::Iterator>::any::<",
               [("call", r"slice::<impl \[stun_types::attribute::AttributeType\]>::iter$", [required]), ("agg", "^closure:", [msg])])
    captured = {}

    def mk(U, Mi):
        def oracle(o, t, body):
            s = strip(o)
            neg = False
            if s.k == "un" and s.a[0] == "Not":
                neg, s = True, strip(s.a[1])
            if pm(s, is_empty, b):
                captured["collect"] = strip(s).a[2][0]
                v = 0 if U else 1
                return 1 - v if neg else v
            if pm(s, any_req, b):
                captured["any"] = s
                return (1 - Mi) if neg else Mi
            return None
        return oracle

    def call_event(name, args, t, og_):
        if re.search(r"Message::<'a>::(unknown_attributes|bad_request)$", name):
            return ("call", name, args)
        return None
    unk = ("call", r"Message::<'a>::unknown_attributes$", [msg, ("call", r"Vec<stun_types::attribute::AttributeType> as std::ops::Deref>::deref$", [collect])])
    bad = ("call", r"Message::<'a>::bad_request$", [msg])
    n = 0
    for U in (0, 1):
        for Mi in (0, 1):
            w = Walker(prog, b, mk(U, Mi), call_event, track_locals={0}, mut_arg_event=False)
            name = "unsupported=%s,required-missing=%s" % ("some" if U else "none", "yes" if Mi else "no")
            try:
                beh = w.run()
            except Unrecognised as e:
                chk.fail(rule, name + "|unrecognised-guard", short_span(b.term(e.bb)["span"]), str(e)[:400])
                continue
            n += 1
            evs = [e for e in events_only(beh) if e[0] in ("call", "set")]
            if U:
                exp = [unk, ("set", 0, ("agg", r"Option::Some$", [unk]))]
            elif Mi:
                exp = [bad, ("set", 0, ("agg", r"Option::Some$", [bad]))]
            else:
                exp = [("set", 0, ("agg", r"Option::None$", []))]
            ok = len(evs) == len(exp) and all(ev_match(e, p, b) for e, p in zip(evs, exp))
            chk.ob(rule, name, ok, b.loc(), detail=show(evs)[:500], how=show(evs)[:200])
    chk.floor(rule + "-rows", n, 4)
    # ---- the candidate list
    rule = "candidate-list"
    col = captured.get("collect")
    if col is None:
        chk.fail(rule, "collect-chain-not-found", b.loc())
    else:
        flt = strip(strip(col).a[2][0])
        mp = strip(flt.a[2][0])
        mk_, _ = closure_of(mp.a[2][1])
        fk, fagg = closure_of(flt.a[2][1])
        chk.ob(rule, "map closure returns the attribute's type", returns_get_type(prog, mk_), b.loc(), detail=str(mk_))
        chk.ob(rule, "filter closure captures `supported`", fagg is not None and len(fagg.a[1]) == 1 and pm(fagg.a[1][0], supported, b), b.loc(),
               detail=repr(fagg)[:200])
        fb = prog.bodies.get(fk)
        if fb is None:
            chk.fail(rule, "filter-closure-missing")
        else:
            fog = Origins(prog, fb)
            cr = ("call", r"AttributeType::comprehension_required$", [("param", 2)])
            anyc = ("call", r"slice::Iter<'_, stun_types::attribute::AttributeType> as std::iter::Iterator>::any::<",
                    [("call", r"slice::<impl \[stun_types::attribute::AttributeType\]>::iter$", [("field", ("param", 1), "upvar0")]), ("agg", "^closure:", None)])
            res = {}
            inner = {}
            for CR in (0, 1):
                for SUP in (0, 1):
                    def oracle(o, t, body, CR=CR, SUP=SUP):
                        s = strip(o)
                        if pm(s, cr, fb):
                            return CR
                        if pm(s, anyc, fb):
                            inner["k"] = closure_of(s)[0]
                            return SUP
                        if s.k == "un" and s.a[0] == "Not" and pm(s.a[1], anyc, fb):
                            inner["k"] = closure_of(s)[0]
                            return 1 - SUP
                        return None
                    multi = {i for i in range(len(fb.locals)) if len(fb.defs().get(i, [])) > 1}
                    w = Walker(prog, fb, oracle, lambda *a: None, track_locals={0} | multi, mut_arg_event=False)
                    try:
                        beh = w.run()
                    except Unrecognised as e:
                        chk.fail(rule, "filter|unrecognised-guard", short_span(fb.term(e.bb)["span"]), str(e)[:300])
                        continue
                    last = None
                    for e in beh:
                        if e[0] == "set" and e[1] == 0:
                            last = strip(e[2])
                    val = None
                    if last is not None:
                        if last.k == "const":
                            val = bool(last.a[0])
                        elif last.k == "un" and last.a[0] == "Not" and pm(last.a[1], anyc, fb):
                            val = not SUP
                            inner["k"] = closure_of(last)[0]
                        elif pm(last, cr, fb):
                            val = bool(CR)
                    res[(CR, SUP)] = val
            want = {(c, s): bool(c and not s) for c in (0, 1) for s in (0, 1)}
            chk.ob(rule, "filter keeps exactly comprehension-required types that are not supported", res == want, fb.loc(),
                   detail="truth table %r" % res, how=repr(res))
            chk.ob(rule, "`supported` membership is tested with ==", inner.get("k") is not None and eq_upvar_closure(prog, inner["k"]), fb.loc(),
                   detail=str(inner.get("k")))
    # required-missing: required.iter().any(|at| !msg.iter_attributes().map(get_type).any(|a| a == at))
    a = captured.get("any")
    if a is None:
        chk.fail(rule, "required-chain-not-found", b.loc())
    else:
        rk, _ = closure_of(a)
        rb = prog.bodies.get(rk)
        ro = strip(Origins(prog, rb).local(0)) if rb else None
        ok = False
        if ro is not None and ro.k == "un" and ro.a[0] == "Not":
            inner_any = strip(ro.a[1])
            if inner_any.k == "call" and re.search(r"Iterator>::any::<", inner_any.a[0]):
                src = strip(inner_any.a[2][0])
                ok = (src.k == "call" and re.search(r"MessageAttributesIter<'_> as std::iter::Iterator>::map::<", src.a[0]) is not None
                      and pm(src.a[2][0], ("call", r"Message::<'a>::iter_attributes$", [("field", ("param", 1), "upvar0")]), rb)
                      and returns_get_type(prog, closure_of(src.a[2][1])[0])
                      and eq_upvar_closure(prog, closure_of(inner_any.a[2][1])[0]))
        chk.ob(rule, "required-missing = required.any(|t| !exposed types.any(== t))", ok, rb.loc() if rb else None, detail=repr(ro)[:300])
    # ---- comprehension_required
    cb = prog.bodies["stun_types::attribute::AttributeType::comprehension_required"]
    o = Origins(prog, cb).local(0)
    from bits import BitEval
    from mir import O
    f = BitEval(lambda x: ("t", 16) if x == O("field", O("param", 1), "0") else None).pred(o)
    chk.ob("comprehension-required", "value < 0x8000 (bit 15 clear), exact for all 65536 types",
           f == ("and", frozenset({("n", "t", 15)})) or f == ("lit", ("n", "t", 15)), cb.loc(),
           detail="predicate %r from %r" % (f, o), how="known-bits: result = not bit 15")
    # ---- responses
    rule = "responses"
    be = prog.bodies[M + "builder_error_unchecked"]
    o = Origins(prog, be).local(0)
    orig = ("param", "orig")
    ok = pm(o, ("call", r"Message::<'a>::builder$", [("call", r"MessageType::from_class_method$", [("agg", r"MessageClass::Error$", []), ("call", r"Message::<'a>::method$", [orig])]),
                                                   ("call", r"Message::<'a>::transaction_id$", [orig])]), be)
    chk.ob(rule, "error builder: class Error, method and transaction id of the source", ok, be.loc(), detail=repr(o)[:300])
    for fn, code, with_unknown in (("unknown_attributes", 420, True), ("bad_request", 400, False)):
        fb = prog.bodies[M + fn]
        src = ("param", "src")
        out = ("call", r"Message::<'a>::builder_error_unchecked$", [src])
        for E in ((0, 1) if with_unknown else (0,)):
            def oracle(o, t, body, E=E):
                s = strip(o)
                neg = False
                if s.k == "un" and s.a[0] == "Not":
                    neg, s = True, strip(s.a[1])
                if pm(s, ("call", r"slice::<impl \[stun_types::attribute::AttributeType\]>::is_empty$", [("param", "attributes")]), fb):
                    return (1 - E) if neg else E
                return None

            def call_event(name, args, t, og_):
                if re.search(r"(MessageBuilder::<'a>::(add_attribute|into_owned|add_raw_attribute|add_fingerprint|add_message_integrity)|builder_error(_unchecked)?|ErrorCode::new|UnknownAttributes::new)$", name):
                    return ("call", name, args)
                return None
            w = Walker(prog, fb, oracle, call_event, track_locals={0}, mut_arg_event=False)
            try:
                beh = w.run()
            except Unrecognised as e:
                chk.fail(rule, fn + "|unrecognised-guard", short_span(fb.term(e.bb)["span"]), str(e)[:300])
                continue
            evs = [e for e in events_only(beh) if e[0] == "call"]
            names = [re.sub(r"<[^<>]*>", "", e[1]).split("::")[-1] for e in evs]
            want = ["builder_error_unchecked", "add_attribute", "new", "add_attribute"]
            if with_unknown:
                want += ["new"] + ([] if E else ["add_attribute"])
            want += ["into_owned"]
            ok = names == want
            codes = [const_int(e[2][0]) for e in evs if e[1].endswith("ErrorCode::new")]
            ok = ok and codes == [code] and pm(evs[0][2][0], src, fb)
            if ok and with_unknown:
                un = [e for e in evs if e[1].endswith("UnknownAttributes::new")]
                ok = pm(un[0][2][0], ("param", "attributes"), fb)
                if not E:
                    ok = ok and mentions(evs[5][2][1], lambda x: x.k == "call" and x.a[0].endswith("UnknownAttributes::new"))
            ok = ok and pm(Origins(prog, fb).local(0), ("call", r"into_owned$", [out]), fb)
            ok = ok and mentions(evs[3][2][1], lambda x: x.k == "call" and x.a[0].endswith("ErrorCode::new"))
            chk.ob(rule, "%s%s: ERROR-CODE %d on an error response to the source%s" % (
                fn, ("|list-empty" if E else "|list-non-empty") if with_unknown else "", code,
                ", UNKNOWN-ATTRIBUTES %s" % ("omitted" if E else "added") if with_unknown else ""), ok, fb.loc(), detail=repr(names) + " codes %r" % codes)
