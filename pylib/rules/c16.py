"""C16 - attribute policing returns the RFC 8489 s6.3.1 verdict (requests)."""
import re
from mir import Origins, Origin, strip, short_span, const_int
from dtable import Walker, Unrecognised, pm, events_only, show, mentions, instrumented_body, ev_match

THOROUGH_CONFIGS = ("release", "arbitrary")
LEVEL = "proof"
M = "stun_types::message::Message::<'a>::"
ITER = ("call", r"Message::<'a>::iter_attributes$", [("param", "msg")])


def closure_of(o):
    """key of the closure aggregate inside an origin"""
    for x in o.walk():
        if x.k == "agg" and str(x.a[0]).startswith("closure:"):
            return str(x.a[0])[len("closure:"):], x
    return None, None


def returns_get_type(prog, key):
    cb = prog.bodies.get(key)
    if cb is None:
        return False
    o = Origins(prog, cb).local(0)
    return pm(o, ("call", r"RawAttribute<'a> as stun_types::attribute::Attribute>::get_type$", [("param", 2)]), cb)


def eq_upvar_closure(prog, key):
    """closure(|x| x == captured)"""
    cb = prog.bodies.get(key)
    if cb is None:
        return False
    o = strip(Origins(prog, cb).local(0))
    if not (o.k == "call" and re.search(r"AttributeType as std::cmp::PartialEq>::eq$", o.a[0])):
        return False
    reprs = [repr(strip(a)) for a in o.a[2]]
    return any(r == "param(2)" for r in reprs) and any("upvar0" in r for r in reprs)


def run(prog, chk, tier):
    chk.explanation = (
        "check_attribute_types decided from the abstract interpreter's return states over short symbolic lists: the message "
        "exposes k attributes of symbolic types, the caller supports m and requires n symbolic types (all sizes 0..2); the "
        "iterator chains (map / filter / any / contains / collect / copied, whatever their arrangement) are evaluated "
        "element by element with the closures called in context, every comparison a path does not decide forks it. Each "
        "return state is compared with the specification evaluated on the comparisons it decided: comprehension-required "
        "types the caller does not support => Some(unknown_attributes(msg, exactly those types in message order)), tested "
        "before the required types; else a required type missing => Some(bad_request(msg)); else None. "
        "comprehension_required is `value < 0x8000` (exact for all 65536 values); the responses are built with ErrorCode "
        "420/400, class Error, method and transaction id of the source, UNKNOWN-ATTRIBUTES added iff the list is "
        "non-empty. Lists longer than two are covered by the element-wise structure of the std adaptors (model table), not "
        "by enumeration. That the response parses back is C03.")
    chk.trusted += ["rustc MIR", "Iterator::map/filter/collect/any semantics (order preserving)", "spec in pylib/rules/c16.py"]
    from rules import police_e2 as PE
    PE.policing(prog, chk, sizes=(0, 1, 2, 3) if tier == "thorough" else (0, 1, 2))
    # ---- comprehension_required
    cb = prog.bodies["stun_types::attribute::AttributeType::comprehension_required"]
    o = Origins(prog, cb).local(0)
    from bits import BitEval
    from mir import O
    f = BitEval(lambda x: ("t", 16) if x == O("field", O("param", 1), "0") else None).pred(o)
    chk.ob("comprehension-required", "value < 0x8000 (bit 15 clear), exact for all 65536 types",
           f == ("and", frozenset({("n", "t", 15)})) or f == ("lit", ("n", "t", 15)), cb.loc(),
           detail="predicate %r from %r" % (f, o), how="known-bits: result = not bit 15")
    # ---- responses
    rule = "responses"
    be = prog.bodies[M + "builder_error_unchecked"]
    o = Origins(prog, be).local(0)
    orig = ("param", "orig")
    ok = pm(o, ("call", r"Message::<'a>::builder$", [("call", r"MessageType::from_class_method$", [("agg", r"MessageClass::Error$", []), ("call", r"Message::<'a>::method$", [orig])]),
                                                   ("call", r"Message::<'a>::transaction_id$", [orig])]), be)
    chk.ob(rule, "error builder: class Error, method and transaction id of the source", ok, be.loc(), detail=repr(o)[:300])
    for fn, code, with_unknown in (("unknown_attributes", 420, True), ("bad_request", 400, False)):
        fb = prog.bodies[M + fn]
        src = ("param", "src")
        out = ("call", r"Message::<'a>::builder_error_unchecked$", [src])
        for E in ((0, 1) if with_unknown else (0,)):
            def oracle(o, t, body, E=E):
                s = strip(o)
                neg = False
                if s.k == "un" and s.a[0] == "Not":
                    neg, s = True, strip(s.a[1])
                if pm(s, ("call", r"slice::<impl \[stun_types::attribute::AttributeType\]>::is_empty$", [("param", "attributes")]), fb):
                    return (1 - E) if neg else E
                return None

            def call_event(name, args, t, og_):
                if re.search(r"(MessageBuilder::<'a>::(add_attribute|into_owned|add_raw_attribute|add_fingerprint|add_message_integrity)|builder_error(_unchecked)?|ErrorCode::new|UnknownAttributes::new)$", name):
                    return ("call", name, args)
                return None
            w = Walker(prog, fb, oracle, call_event, track_locals={0}, mut_arg_event=False)
            try:
                beh = w.run()
            except Unrecognised as e:
                chk.fail(rule, fn + "|unrecognised-guard", short_span(fb.term(e.bb)["span"]), str(e)[:300])
                continue
            evs = [e for e in events_only(beh) if e[0] == "call"]
            names = [re.sub(r"<[^<>]*>", "", e[1]).split("::")[-1] for e in evs]
            want = ["builder_error_unchecked", "add_attribute", "new", "add_attribute"]
            if with_unknown:
                want += ["new"] + ([] if E else ["add_attribute"])
            want += ["into_owned"]
            ok = names == want
            codes = [const_int(e[2][0]) for e in evs if e[1].endswith("ErrorCode::new")]
            ok = ok and codes == [code] and pm(evs[0][2][0], src, fb)
            if ok and with_unknown:
                un = [e for e in evs if e[1].endswith("UnknownAttributes::new")]
                ok = pm(un[0][2][0], ("param", "attributes"), fb)
                if not E:
                    ok = ok and mentions(evs[5][2][1], lambda x: x.k == "call" and x.a[0].endswith("UnknownAttributes::new"))
            ok = ok and pm(Origins(prog, fb).local(0), ("call", r"into_owned$", [out]), fb)
            ok = ok and mentions(evs[3][2][1], lambda x: x.k == "call" and x.a[0].endswith("ErrorCode::new"))
            chk.ob(rule, "%s%s: ERROR-CODE %d on an error response to the source%s" % (
                fn, ("|list-empty" if E else "|list-non-empty") if with_unknown else "", code,
                ", UNKNOWN-ATTRIBUTES %s" % ("omitted" if E else "added") if with_unknown else ""), ok, fb.loc(), detail=repr(names) + " codes %r" % codes)
