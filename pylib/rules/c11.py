"""C11 - builder ordering rules hold and refused operations leave no trace (E3 tables + who-may-write)."""
import re
from mir import Origins, Origin, O, strip, short_span, const_int
from dtable import (Walker, Unrecognised, pm, events_only, show, mentions, instrumented_body, resolve_upvars, param_index)
from e1 import field_accesses

THOROUGH_CONFIGS = ("release", "arbitrary")
LEVEL = "proof"
MB = "stun_types::message::MessageBuilder::<'a>::"
MB_V = "stun_types::message::MessageBuilder::MessageBuilder"
MI, M2, FP = 0x0008, 0x001C, 0x8028
E = (MI, M2, FP)
OTHER = 0x0006
NAMES = {MI: "MI", M2: "M2", FP: "FP", OTHER: "ty", None: "none"}
GET_TYPE = r"(virtual stun_types::attribute::Attribute::get_type|RawAttribute<'a> as stun_types::attribute::Attribute>::get_type)$"


def is_ty(o):
    o = strip(o)
    return o.k == "call" and re.search(GET_TYPE, o.a[0]) is not None


def _mut_ref_arg(body, t):
    for a in t["args"]:
        if a["k"] in ("move", "copy"):
            ty = body.place_ty(a["pl"])
            if ty.get("k") == "ref" and ty.get("mut"):
                return True
    return False


def builder_call_event(body):
    def call_event(name, args, t, og):
        if re.search(r"::\{closure#\d+\}$", name) or name.startswith(("tracing", "core::fmt", "std::fmt")):
            return None
        touches = any(mentions(a, lambda x: x.k == "field" and x.a[1] in ("attributes", "attribute_types")) for a in args)
        if touches and _mut_ref_arg(body, t):
            return ("call", name, args)
        if name.startswith("stun_types::message::MessageBuilder") and _mut_ref_arg(body, t):
            return ("call", name, args)
        return None
    return call_event


def ret_kind(evs, b):
    rets = [e for e in evs if e[0] == "set" and e[1] == 0]
    if not rets:
        return None, None
    r = strip(rets[-1][2])
    if r.k == "agg" and str(r.a[0]).endswith("Result::Ok"):
        return "Ok", None
    if r.k == "agg" and str(r.a[0]).endswith("Result::Err"):
        e = strip(r.a[1][0])
        return "Err", (str(e.a[0]).rsplit("::", 1)[-1] if e.k == "agg" else repr(e))
    return "?", repr(r)[:80]


def generic_adder(prog, chk, fn, raw):
    rule = fn + "-table"
    b, ups = instrumented_body(prog, MB + fn)
    rw = (lambda o: resolve_upvars(o, ups)) if ups else None
    pb = prog.bodies[MB + fn]
    self_ = ("param", param_index(pb, "self"))
    attr = ("param", param_index(pb, "attr"))
    has_any = ("call", r"MessageBuilder::<'a>::has_any_attribute$", None)
    found = ("field", ("variant", has_any, "Some"), "0")
    qsets = []

    def mk(ty, x):
        def oracle(o, t, body):
            s = strip(o)
            if s.k == "field" and s.a[1] == "0" and is_ty(s.a[0]):
                return ty
            if s.k == "discr" and pm(s.a[0], has_any, b):
                q = strip(strip(s.a[0]).a[2][1])
                while q.k == "cast":
                    q = strip(q.a[1])
                if q.k == "agg" and q.a[0] == "array":
                    qsets.append(tuple("ty" if is_ty(v) else const_int(v) for v in q.a[1]))
                return 0 if x is None else 1
            if s.k == "field" and s.a[1] == "0" and pm(s.a[0], found, b):
                return x
            if s.k == "call" and re.search(r"AttributeType as std::cmp::PartialEq>::(eq|ne)$", s.a[0]):
                vals = []
                for a in s.a[2]:
                    if is_ty(a):
                        vals.append(ty)
                    elif pm(a, found, b):
                        vals.append(x)
                    else:
                        vals.append(const_int(a))
                if None in vals:
                    return None
                r = 1 if vals[0] == vals[1] else 0
                return r if s.a[0].endswith("eq") else 1 - r
            return None
        return oracle
    rows = 0
    for ty in (OTHER, MI, M2, FP):
        for x in ((None, OTHER, MI, M2, FP) if ty == OTHER else (None,)):
            name = "ty=%s|present=%s" % (NAMES[ty] if ty != OTHER else "other", NAMES[x])
            w = Walker(prog, b, mk(ty, x), builder_call_event(b), track_locals={0}, rewrite=rw)
            try:
                beh = w.run()
            except Unrecognised as e:
                chk.fail(rule, name + "|unrecognised-guard", short_span(b.term(e.bb)["span"]), str(e)[:400])
                continue
            rows += 1
            evs = events_only(beh)
            calls = [e for e in evs if e[0] in ("call", "mutcall")]
            kind, err = ret_kind(evs, b)
            if ty in E:
                ok = evs[-1][0] == "diverge" and not calls
                chk.ob(rule, name + "|documented-panic", ok, b.loc(), detail=show(evs)[:300], how="diverges (panic) without touching the builder")
                continue
            if x is None:
                want_attr = ("agg", r"AttrOrRaw::%s$" % ("Raw" if raw else "Attr"), [attr])
                ok = (len(calls) == 2 and kind == "Ok"
                      and pm_call(calls[0], r"Vec::<stun_types::message::AttrOrRaw<'_>>::push$", [("field", self_, "attributes"), want_attr], b)
                      and pm_call(calls[1], r"SmallVec::<\[stun_types::attribute::AttributeType; 16\]>::push$",
                                  [("field", self_, "attribute_types"), ("fn", is_ty)], b))
                chk.ob(rule, name + "|accept", ok, b.loc(), detail=show(evs)[:500], how="push(attributes, attr) ; push(attribute_types, attr.get_type()) ; Ok")
            else:
                ok = not calls and kind == "Err" and err in ("AttributeExists", "MessageIntegrityExists", "FingerprintExists")
                chk.ob(rule, name + "|refuse", ok, b.loc(), detail=show(evs)[:400], how="Err(%s), no event" % err)
    chk.floor(rule + "-rows", rows, 8)
    q = set(qsets)
    chk.ob(rule, "query set is {ty, MI, M2, FP}", len(q) == 1 and set(next(iter(q))) == {"ty", MI, M2, FP}, b.loc(), detail=repr(q))


def pm_call(e, regex, argpats, b):
    from dtable import ev_match
    return ev_match(e, ("call", regex, argpats), b)


def integrity_adder(prog, chk):
    rule = "add_message_integrity-table"
    fn = "add_message_integrity"
    b, ups = instrumented_body(prog, MB + fn)
    rw = (lambda o: resolve_upvars(o, ups)) if ups else (lambda o: o)
    pb = prog.bodies[MB + fn]
    self_i, cred_i, alg_i = (param_index(pb, n) for n in ("self", "credentials", "algorithm"))
    self_, cred, alg = ("param", self_i), ("param", cred_i), ("param", alg_i)
    has_any = ("call", r"MessageBuilder::<'a>::has_any_attribute$", None)
    found = ("field", ("variant", has_any, "Some"), "0")
    multi = {i for i in range(len(b.locals)) if len(b.defs().get(i, [])) > 1 and not b.is_arg(i)}
    adt = prog.adts.get("stun_types::message::IntegrityAlgorithm")
    vidx = {v["name"]: int(v["discr"]) for v in adt["variants"]}
    spec_q = {vidx["Sha1"]: [MI, M2, FP], vidx["Sha256"]: [M2, FP]}

    def mk(a, x):
        def oracle(o, t, body):
            s = strip(o)
            if s.k == "discr" and pm(s.a[0], alg, b):
                return a
            if s.k == "call" and re.search(r"IntegrityAlgorithm as std::cmp::PartialEq>::eq$", s.a[0]):
                other = [const_int(y) for y in s.a[2] if not pm(y, alg, b)]
                if len(other) == 1 and other[0] is not None:
                    return 1 if a == other[0] else 0
                return None
            if s.k == "discr" and pm(s.a[0], has_any, b):
                return 0 if x is None else 1
            if s.k == "field" and s.a[1] == "0" and pm(s.a[0], found, b):
                return x
            return None
        return oracle

    def write_event(pl, val, s):
        p = strip(pl)
        if p.k == "index":
            return ("write", pl, val)
        return None
    rows = 0
    for a in sorted(spec_q):
        aname = [k for k, v in vidx.items() if v == a][0]
        for x in [None] + spec_q[a]:
            name = "%s|present=%s" % (aname, NAMES[x])
            w = Walker(prog, b, mk(a, x), builder_call_event(b), track_locals={0} | multi, write_event=write_event, rewrite=rw)
            try:
                beh = w.run()
            except Unrecognised as e:
                chk.fail(rule, name + "|unrecognised-guard", short_span(b.term(e.bb)["span"]), str(e)[:400])
                continue
            rows += 1
            evs = events_only(beh)
            # query list = values stored into the scratch array, in order; one increment per store
            last = {}
            q = []
            incs = 0
            for e in evs:
                if e[0] == "set":
                    last[e[1]] = e[2]
                    if strip(e[2]).k == "field" and strip(strip(e[2]).a[0]).k == "bin" and strip(strip(e[2]).a[0]).a[0] == "AddWithOverflow":
                        incs += 1
                elif e[0] == "write":
                    v = strip(e[2])
                    if v.k == "multi" and v.a[0] in last:
                        v = strip(last[v.a[0]])
                    q.append(const_int(v))
            calls = [e for e in evs if e[0] in ("call", "mutcall")]
            kind, err = ret_kind(evs, b)
            sliced = any(x_.k == "call" and re.search(r"Index<std::ops::RangeTo<usize>>", x_.a[0]) for e in beh if e[0] == "decide" for x_ in [])  # informational
            chk.ob(rule, "%s|query-set" % aname, q == spec_q[a] and incs == len(q), b.loc(),
                   detail="queried %r (increments %d), spec %r" % ([NAMES.get(v, v) for v in q], incs, [NAMES[v] for v in spec_q[a]]),
                   how="scratch list %r" % [NAMES.get(v, v) for v in q])
            if x is None:
                ok = (kind == "Ok" and len(calls) == 1 and
                      pm_call(calls[0], r"MessageBuilder::<'a>::add_message_integrity_unchecked$", [self_, cred, alg], b))
                chk.ob(rule, name + "|accept", ok, b.loc(), detail=show(evs)[-400:], how="add_message_integrity_unchecked(self, credentials, algorithm) ; Ok")
            else:
                ok = not calls and kind == "Err" and err in ("AttributeExists", "FingerprintExists", "MessageIntegrityExists")
                chk.ob(rule, name + "|refuse", ok, b.loc(), detail=show(evs)[-400:], how="Err(%s), no event" % err)
    chk.floor(rule + "-rows", rows, 7)
    # the has_any_attribute argument is the filled prefix of the scratch list
    og = Origins(prog, b)
    for bi, t in b.calls():
        if re.search(r"has_any_attribute$", og.callee_name(t)):
            a1 = strip(rw(og.operand(t["args"][1])))
            ok = a1.k == "call" and re.search(r"Index<std::ops::RangeTo<usize>> for \[stun_types::attribute::AttributeType; \d+\]>::index$", a1.a[0]) is not None
            chk.ob(rule, "has_any_attribute(&atypes[..i])", ok, short_span(t["span"]), detail=repr(a1)[:200])


def fingerprint_adder(prog, chk):
    rule = "add_fingerprint-table"
    b, ups = instrumented_body(prog, MB + "add_fingerprint")
    rw = (lambda o: resolve_upvars(o, ups)) if ups else None
    self_ = ("param", "self")
    has = ("call", r"MessageBuilder::<'a>::has_attribute$", [self_, ("const", FP)])

    def mk(p):
        def oracle(o, t, body):
            if pm(o, has, b):
                return p
            return None
        return oracle
    for p in (0, 1):
        w = Walker(prog, b, mk(p), builder_call_event(b), track_locals={0}, rewrite=rw)
        try:
            beh = w.run()
        except Unrecognised as e:
            chk.fail(rule, "present=%d|unrecognised-guard" % p, short_span(b.term(e.bb)["span"]), str(e)[:400])
            continue
        evs = events_only(beh)
        calls = [e for e in evs if e[0] in ("call", "mutcall")]
        kind, err = ret_kind(evs, b)
        if p:
            chk.ob(rule, "FP present|refuse", not calls and kind == "Err", b.loc(), detail=show(evs)[:300], how="Err(%s), no event" % err)
        else:
            ok = kind == "Ok" and len(calls) == 1 and pm_call(calls[0], r"add_fingerprint_unchecked$", [self_], b)
            chk.ob(rule, "FP absent|accept", ok, b.loc(), detail=show(evs)[:300], how="add_fingerprint_unchecked(self) ; Ok")


def unchecked_pushes(prog, chk):
    """each sealing helper pushes exactly one attribute and one type, of the same sealing type"""
    rule = "sealing-push-pairing"
    # add_fingerprint_unchecked
    b = prog.bodies[MB + "add_fingerprint_unchecked"]
    w = Walker(prog, b, lambda o, t, body: None, builder_call_event(b), track_locals=set())
    try:
        evs = [e for e in events_only(w.run()) if e[0] in ("call", "mutcall")]
        pushes = [e for e in evs if re.search(r"::push$", e[1])]
        ok = (len(pushes) == 2 and "attributes" in repr(pushes[0][2][0]) and "attribute_types" in repr(pushes[1][2][0])
              and const_int(pushes[1][2][1]) == FP
              and mentions(pushes[0][2][1], lambda x: x.k == "call" and re.search(r"Fingerprint::new$", x.a[0]) is not None))
        chk.ob(rule, "add_fingerprint_unchecked|FP", ok, b.loc(), detail=show(evs)[:400], how="push(Fingerprint) ; push(type 0x8028)")
    except Unrecognised as e:
        chk.fail(rule, "add_fingerprint_unchecked|unrecognised-guard", short_span(b.term(e.bb)["span"]), str(e)[:300])
    b = prog.bodies[MB + "add_message_integrity_unchecked"]
    adt = prog.adts.get("stun_types::message::IntegrityAlgorithm")
    vidx = {v["name"]: int(v["discr"]) for v in adt["variants"]}
    want = {"Sha1": (MI, r"MessageIntegrity::new$"), "Sha256": (M2, r"MessageIntegritySha256::new$")}
    for aname, (code, ctor) in want.items():
        def oracle(o, t, body, a=vidx[aname]):
            s = strip(o)
            if s.k == "discr" and pm(s.a[0], ("param", "algorithm"), b):
                return a
            return None
        w = Walker(prog, b, oracle, builder_call_event(b), track_locals=set())
        try:
            evs = [e for e in events_only(w.run()) if e[0] in ("call", "mutcall")]
        except Unrecognised as e:
            chk.fail(rule, "add_message_integrity_unchecked|%s|unrecognised-guard" % aname, short_span(b.term(e.bb)["span"]), str(e)[:300])
            continue
        pushes = [e for e in evs if re.search(r"::push$", e[1])]
        ok = (len(pushes) == 2 and "attributes" in repr(pushes[0][2][0]) and "attribute_types" in repr(pushes[1][2][0])
              and const_int(pushes[1][2][1]) == code
              and mentions(pushes[0][2][1], lambda x: x.k == "call" and re.search(ctor, x.a[0]) is not None))
        chk.ob(rule, "add_message_integrity_unchecked|%s" % aname, ok, b.loc(), detail=show(evs)[:500],
               how="push(%s attribute) ; push(type %#06x)" % (aname, code))


def queries(prog, chk):
    rule = "presence-queries"
    b = prog.bodies[MB + "has_any_attribute"]
    og = Origins(prog, b)
    o = og.local(0)
    find = ("call", r"Iterator>::find::<", [("call", r"slice::<impl \[stun_types::attribute::AttributeType\]>::iter$",
                                             [("call", r"SmallVec<.*> as std::ops::Deref>::deref$", [("field", ("param", "self"), "attribute_types")])]),
                                            ("agg", r"^closure:", [("param", "atypes")])])
    ok = pm(o, ("call", r"Option::<&stun_types::attribute::AttributeType>::cloned$", [find]), b)
    chk.ob(rule, "has_any_attribute = attribute_types.iter().find(|t| atypes.contains(t)).cloned()", ok, b.loc(), detail=repr(o)[:300])
    ck = MB + "has_any_attribute::{closure#0}"
    cb = prog.bodies.get(ck)
    if cb is not None:
        cog = Origins(prog, cb)
        o = cog.local(0)
        ok = pm(o, ("call", r"slice::<impl \[stun_types::attribute::AttributeType\]>::contains$",
                    [("field", ("param", 1), "upvar0"), ("param", 2)]), cb)
        chk.ob(rule, "has_any_attribute predicate = atypes.contains(candidate)", ok, cb.loc(), detail=repr(o)[:300])
    else:
        chk.fail(rule, "closure-missing|has_any_attribute")
    b = prog.bodies[MB + "has_attribute"]
    og = Origins(prog, b)
    o = og.local(0)
    ok = pm(o, ("call", r"Iterator>::any::<", [("call", r"slice::<impl \[stun_types::attribute::AttributeType\]>::iter$",
                                                [("call", r"SmallVec<.*> as std::ops::Deref>::deref$", [("field", ("param", "self"), "attribute_types")])]),
                                               ("agg", r"^closure:", [("param", "atype")])]), b)
    chk.ob(rule, "has_attribute = attribute_types.iter().any(|t| t == atype)", ok, b.loc(), detail=repr(o)[:300])
    cb = prog.bodies.get(MB + "has_attribute::{closure#0}")
    if cb is not None:
        cog = Origins(prog, cb)
        o = cog.local(0)
        ok = pm(o, ("call", r"AttributeType as std::cmp::PartialEq>::eq$", None), cb) and \
            {repr(strip(x)) for x in strip(o).a[2]} >= {"param(2)"} and any("upvar0" in repr(x) for x in strip(o).a[2])
        chk.ob(rule, "has_attribute predicate = (candidate == atype)", ok, cb.loc(), detail=repr(o)[:300])


WRITERS = {
    "attributes": {
        r"MessageBuilder::<'a>::add_attribute$": {"refmut"}, r"MessageBuilder::<'a>::add_raw_attribute$": {"refmut"},
        r"MessageBuilder::<'a>::add_message_integrity_unchecked$": {"refmut"}, r"MessageBuilder::<'a>::add_fingerprint_unchecked$": {"refmut"},
        r"MessageBuilder::<'a>::into_owned$": {"move"},
    },
    "attribute_types": {
        r"MessageBuilder::<'a>::add_attribute$": {"refmut"}, r"MessageBuilder::<'a>::add_raw_attribute$": {"refmut"},
        r"MessageBuilder::<'a>::add_message_integrity_unchecked$": {"refmut"}, r"MessageBuilder::<'a>::add_fingerprint_unchecked$": {"refmut"},
    },
}


def who_may_write(prog, chk):
    rule = "who-may-write"
    from rules import agent_e2 as AE
    # writers by function (private helpers reachable only from them count as them); what each writer pushes is decided by
    # its table above
    wr = [r"MessageBuilder::<'a>::add_attribute$", r"MessageBuilder::<'a>::add_raw_attribute$", r"MessageBuilder::<'a>::add_message_integrity(_unchecked)?$",
          r"MessageBuilder::<'a>::add_fingerprint(_unchecked)?$", r"MessageBuilder::<'a>::into_owned$",
          r"^<stun_types::message::MessageBuilder<'a> as std::clone::Clone>::clone$"]
    rd = [r"MessageBuilder::<'a>::"]
    for f in ("attributes", "attribute_types"):
        AE.touchers(prog, chk, rule, MB_V, f, rd, wr, 4)
    # construction sites: Message::builder (both empty) and into_owned (element-wise)
    from e1 import construct_sites
    cs = construct_sites(prog, "stun_types::message::MessageBuilder")
    where = sorted(c["body"] for c in cs)
    CLONE = "<stun_types::message::MessageBuilder<'a> as std::clone::Clone>::clone"
    chk.ob(rule, "MessageBuilder constructed only in Message::builder, MessageBuilder::into_owned and the derived Clone",
           where == sorted(["stun_types::message::Message::<'a>::builder", MB + "into_owned", CLONE]), detail=repr(where))
    for c in cs:
        if c["body"] == CLONE:
            b = prog.bodies[c["body"]]
            og = Origins(prog, b)
            rv = c["stmt"]["rv"]
            ok = True
            for name, op in zip(rv["fields"], rv["ops"]):
                ok = ok and pm(og.operand(op), ("call", r"as std::clone::Clone>::clone$", [("field", ("param", "self"), name)]), b)
            chk.ob(rule, "derived Clone copies every field from the same field", ok, c["where"])
            continue
        b = prog.bodies[c["body"]]
        og = Origins(prog, b)
        rv = c["stmt"]["rv"]
        f = dict(zip(rv["fields"], [og.operand(o) for o in rv["ops"]]))
        if c["body"].endswith("::builder"):
            ok = (pm(f["attributes"], ("call", r"Vec::<.*>::with_capacity$", None), b)
                  and (pm(f["attribute_types"], ("call", r"SmallVec::<.*>::new$", []), b) or pm(f["attribute_types"], ("call", r"smallvec::SmallVec", None), b)))
            chk.ob(rule, "Message::builder starts with both lists empty", ok, c["where"], detail="%r / %r" % (f["attributes"], f["attribute_types"]))
        else:
            ok = (mentions(f["attributes"], lambda x: x.k == "field" and x.a[1] == "attributes")
                  and mentions(f["attributes"], lambda x: x.k == "call" and re.search(r"Iterator>::collect::<", x.a[0]) is not None)
                  and mentions(f["attributes"], lambda x: x.k == "call" and re.search(r"Iterator>::map::<", x.a[0]) is not None)
                  and (pm(f["attribute_types"], ("call", r"SmallVec<.*> as std::clone::Clone>::clone$", [("field", ("param", "self"), "attribute_types")]), b)
                       or pm(f["attribute_types"], ("field", ("param", "self"), "attribute_types"), b)))       # a copy of the type list, or the list itself moved
            chk.ob(rule, "into_owned maps attributes element-wise in order and keeps the list of types (cloned or moved)", ok, c["where"],
                   detail="%r / %r" % (f["attributes"], f["attribute_types"]))


def run(prog, chk, tier):
    chk.explanation = (
        "The four adders decided from the abstract interpreter's return states, with has_attribute / has_any_attribute "
        "summarised as one question about a listed set of types (the list is tracked element by element through array "
        "literals, constant arrays, element stores and sub-slices): add_attribute / add_raw_attribute ask about exactly "
        "{the attribute's type, MESSAGE-INTEGRITY, MESSAGE-INTEGRITY-SHA256, FINGERPRINT}, add_message_integrity about "
        "{MI (SHA-1 only), MI-SHA256, FINGERPRINT}, add_fingerprint about {FINGERPRINT}; the call is refused with the "
        "documented error exactly when the answer is Some, and then pushes nothing; it is accepted when the answer is None "
        "and then pushes exactly one attribute and one type of the same kind; the three sealing types cannot be added "
        "through the generic adders. who-may-write(attributes, attribute_types) = the adders' pushes + builder()/into_owned; "
        "has_attribute / has_any_attribute themselves are first-match searches of attribute_types. That the serialised "
        "result parses with valid integrity is C03/C04.")
    chk.trusted += ["rustc MIR", "Vec/SmallVec push semantics", "Iterator::find/any semantics", "spec table in pylib/rules/c11.py"]
    from rules import content_e2 as CE
    CE.adders(prog, chk, ks=(0, 1, 2, 3) if tier == "thorough" else (0, 1, 2))
    CE.build_side(prog, chk, rule="add_message_integrity-pushes")
    CE.fingerprint_build(prog, chk, rule="add_fingerprint-pushes")
    CE.attr_into_owned(prog, chk)
    who_may_write(prog, chk)
