"""C06 - retransmission timing (constants, per-request table, earliest wake-up provenance). Partial:
exact instants as values are not decided statically."""
import re
from mir import Origins, strip, short_span
from dtable import Walker, Unrecognised, pm
from rules import agent as A
from rules import agent_e2 as AE
from e1 import field_accesses

THOROUGH_CONFIGS = ("release", "arbitrary")
LEVEL = "other"

UDP_DEFAULT = [500, 1000, 2000, 4000, 8000, 16000]
UDP_LAST = 8000
TCP_LAST = 39500

TIMING = {
    # field: (readers, writers) by function; what the writers do is decided by their tables
    "timeouts_ms": ([r"StunRequestState::poll$"], [r"StunRequestMut::<'a>::configure_timeout$"]),
    "last_retransmit_timeout_ms": ([r"StunRequestState::poll$"], [r"StunRequestMut::<'a>::configure_timeout$"]),
    "timeout_i": ([], [r"StunRequestState::poll$"]),
    "last_send_time": ([], [r"StunRequestState::poll$"]),
}


def defaults(prog, chk, rule="default-schedule"):
    AE.req_new(prog, chk, rule, {"schedule"})


def run(prog, chk, tier):
    AE.DEEP[0] = (tier == "thorough")
    chk.explanation = (
        "Decided from the abstract interpreter's return states: (a) what StunRequestState::new gives a request: UDP intervals "
        "500..16000 ms then 8000 ms, TCP no retransmission and 39500 ms = their sum, timeout_i = 0, last_send_time = None; "
        "(b) StunRequestState::poll row by row over {recv_cancelled, last_send_time is Some, schedule exhausted, wake-up "
        "after now, send_cancelled}: the wake-up is last_send_time + from_millis(timeouts_ms[timeout_i]) (or "
        "last_retransmit_timeout_ms once exhausted), SendData only when due, not exhausted and not cancelled with "
        "timeout_i += 1 and last_send_time = Some(now), nothing else changes; (c) function-level who-may-touch of the four "
        "timing fields, with configure_timeout changing only the two schedule fields (and giving a TCP request no "
        "retransmission intervals) and cancel_retransmissions only send_cancelled; (d) StunAgent::poll for any number of "
        "requests (one summary request) and for exactly two requests: it answers WaitUntil only when no request reported "
        "anything else, the instant is one reported by a request and, with two wake-ups, the comparisons taken on the "
        "path order it before both; (e) configure_timeout's formula: the closure it maps / folds over the index range, "
        "evaluated in context for each constant index i < 10 (16 in the thorough tier) with durations as uninterpreted terms, "
        "yields initial_rto * 2^i (positive evidence only; unreadable intervals are listed as not decided). NOT decided: the "
        "numeric instants themselves, the minimum over more than two concurrent schedules (run-time quantities).")
    chk.trusted += ["rustc MIR", "std Instant/Duration arithmetic as uninterpreted terms with a total order", "specification rows in pylib/rules/agent_e2.py"]
    defaults(prog, chk)
    AE.req_poll(prog, chk)
    for f, (rd, wr) in TIMING.items():
        AE.touchers(prog, chk, "who-may-access", A.REQ_V, f, rd, wr, 2)
    A.no_whole_struct_writes(prog, chk, "no-struct-overwrite", A.REQ)
    AE.agent_poll(prog, chk)
    AE.handles(prog, chk, which=("configure_timeout", "cancel_retransmissions"))
    AE.schedule_formula(prog, chk, n=(16 if tier == "thorough" else 10))
