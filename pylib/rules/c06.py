"""C06 - retransmission timing (constants, per-request table, earliest wake-up provenance). Partial:
exact instants as values are not decided statically."""
import re
from mir import Origins, strip, short_span
from dtable import Walker, Unrecognised, pm
from rules import agent as A
from e1 import field_accesses

LEVEL = "other"

UDP_DEFAULT = [500, 1000, 2000, 4000, 8000, 16000]
UDP_LAST = 8000
TCP_LAST = 39500

TIMING_ALLOW = {
    "timeouts_ms": {r"StunRequestState::poll$": {"ref"}, r"StunRequestMut::<'a>::configure_timeout$": {"write", "drop"}},
    "last_retransmit_timeout_ms": {r"StunRequestState::poll$": {"copy"}, r"StunRequestMut::<'a>::configure_timeout$": {"write"}},
    "timeout_i": {r"StunRequestState::poll$": {"copy", "write"}},
    "last_send_time": {r"StunRequestState::poll$": {"copy", "write", "discr"}},
}


def defaults(prog, chk, rule="default-schedule"):
    b = prog.bodies[A.REQ + "::new"]
    multi = {i for i in range(len(b.locals)) if len(b.defs().get(i, [])) > 1 and not b.is_arg(i)}
    tt = prog.adts.get("stun_types::TransportType")
    names = {v["name"]: int(v["discr"]) for v in tt["variants"]} if tt else {}
    rows = {}
    for T in (0, 1):
        cmp_args = []

        def oracle(o, t, body):
            s = strip(o)
            if pm(s, ("call", r"TransportType as std::cmp::PartialEq>::eq$", None), b):
                cmp_args.append(s.a[2])
                return T
            if s.k == "call" and "has_attribute" in s.a[0]:
                return 0
            return None
        w = Walker(prog, b, oracle, lambda *a: None, track_locals=multi, mut_arg_event=False)
        try:
            beh = w.run()
        except Unrecognised as e:
            chk.fail(rule, "new|unrecognised-guard", short_span(b.term(e.bb)["span"]), str(e)[:300])
            return
        tuples = [e[2] for e in beh if e[0] == "set" and strip(e[2]).k == "agg" and strip(e[2]).a[0] == "tuple" and len(strip(e[2]).a[1]) == 2]
        rows[T] = (tuples[-1] if tuples else None, cmp_args)
    # which side is compared against: the constant must be TransportType::Tcp
    ca = rows[1][1]
    tcp_ok = False
    if ca:
        other = strip(ca[0][1])
        if other.k == "const" and isinstance(other.a[0], str) and "mem" in other.a[0]:
            m = re.search(r"'mem': '([0-9a-f]+)'", other.a[0])
            if m:
                val = int.from_bytes(bytes.fromhex(m.group(1)), "little")
                tcp_ok = names.get("Tcp") == val
        tcp_ok = tcp_ok and pm(ca[0][0], ("param", "transport"), b)
    chk.ob(rule, "schedule selected by `transport == TransportType::Tcp`", tcp_ok, b.loc(), detail=repr(ca[:1]))
    tcp, udp = rows[1][0], rows[0][0]
    ok_tcp = tcp is not None and pm(tcp, ("agg", "tuple", [("call", r"Vec::<u64>::new$", []), ("const", TCP_LAST)]), b)
    chk.ob(rule, "TCP: no retransmissions, time-out %d ms" % TCP_LAST, ok_tcp, b.loc(), detail=repr(tcp))
    arrays = []
    for bi, si, s in b.iter_stmts():
        if s["k"] == "assign" and s["rv"]["k"] == "aggregate" and s["rv"].get("agg") == "array":
            vals = [o.get("v", {}).get("int") for o in s["rv"]["ops"]]
            if b.ty(s["rv"]["of"])["s"] == "u64":
                arrays.append(vals)
    ok_udp = (udp is not None and strip(udp).a[1][1] == __import__("mir").O("const", UDP_LAST)
              and strip(strip(udp).a[1][0]).k == "call" and re.search(r"into_vec|from", strip(strip(udp).a[1][0]).a[0])
              and arrays == [UDP_DEFAULT])
    chk.ob(rule, "UDP: intervals %r ms then %d ms" % (UDP_DEFAULT, UDP_LAST), ok_udp, b.loc(), detail="tuple %r arrays %r" % (udp, arrays))
    chk.ob(rule, "TCP time-out equals the sum of the UDP schedule", TCP_LAST == sum(UDP_DEFAULT) + UDP_LAST,
           how="%d = %d + %d" % (TCP_LAST, sum(UDP_DEFAULT), UDP_LAST))
    # the tuple's components feed the aggregate fields of the same name
    og = Origins(prog, b)
    for bi, si, s in b.iter_stmts():
        if s["k"] == "assign" and s["rv"]["k"] == "aggregate" and s["rv"].get("adt") == A.REQ:
            rv = s["rv"]
            f = dict(zip(rv["fields"], [og.operand(o) for o in rv["ops"]]))
            ok = (strip(f["timeouts_ms"]).k == "field" and strip(f["timeouts_ms"]).a[1] == "0"
                  and strip(f["last_retransmit_timeout_ms"]).k == "field" and strip(f["last_retransmit_timeout_ms"]).a[1] == "1"
                  and strip(strip(f["timeouts_ms"]).a[0]) == strip(strip(f["last_retransmit_timeout_ms"]).a[0]))
            chk.ob(rule, "(list, last) pair feeds timeouts_ms / last_retransmit_timeout_ms in that order", ok, short_span(s["span"]),
                   detail="%r / %r" % (f["timeouts_ms"], f["last_retransmit_timeout_ms"]))
            chk.ob(rule, "timeout_i starts at 0", f["timeout_i"] == __import__("mir").O("const", 0), short_span(s["span"]), detail=repr(f["timeout_i"]))


def run(prog, chk, tier):
    chk.explanation = (
        "Decided: (a) the default schedule constants (UDP 500..16000 ms + 8000 ms, TCP [] + 39500 ms = their sum) read from the "
        "MIR of StunRequestState::new; (b) StunRequestState::poll as a complete decision table over {recv_cancelled, "
        "last_send_time is Some, schedule exhausted, next instant in the future, send_cancelled} with the provenance "
        "next = last_send + from_millis(timeouts_ms[timeout_i] | last_retransmit_timeout_ms), timeout_i += 1 and "
        "last_send_time = Some(now) only on the (re)transmit path, never SendData when send_cancelled; (c) who-may-write of the "
        "four timing fields; (d) in StunAgent::poll the WaitUntil answer must derive from per-request wake-ups only, selected "
        "by a `<` comparison in the right direction. NOT decided: the numeric instants themselves, the configure_timeout "
        "formula, min over concurrent schedules as values (run-time quantities).")
    chk.trusted += ["rustc MIR", "std Instant/Duration arithmetic", "spec tables in pylib/rules/agent.py"]
    chk.assumptions += ["default constants are written as literals in StunRequestState::new (a computed table would fail closed)"]
    defaults(prog, chk)
    A.req_poll_table(prog, chk)
    for f, allow in TIMING_ALLOW.items():
        accs = field_accesses(prog, A.REQ_V, f)
        for a in accs:
            fn = re.sub(r"::\{closure#\d+\}", "", a["body"])
            if fn.startswith("<" + A.REQ + " as std::fmt::Debug>"):
                continue
            ok = any(re.search(p, fn) and a["how"] in hows for p, hows in allow.items())
            chk.ob("who-may-access", "%s|%s|%s" % (f, fn.split("::", 2)[-1], a["how"]), ok, a["where"],
                   detail="timing field `%s` accessed (%s) in %s" % (f, a["how"], fn))
        chk.floor("timing-%s-sites" % f, len(accs), 2)
    A.no_whole_struct_writes(prog, chk, "no-struct-overwrite", A.REQ)
    A.agent_poll_table(prog, chk)
    A.agent_poll_wait(prog, chk)
