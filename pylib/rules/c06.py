"""C06 - retransmission timing (constants, per-request table, earliest wake-up provenance). Partial:
exact instants as values are not decided statically."""
import re
from mir import Origins, strip, short_span
from dtable import Walker, Unrecognised, pm
from rules import agent as A
from rules import agent_e2 as AE
from e1 import field_accesses

LEVEL = "other"

UDP_DEFAULT = [500, 1000, 2000, 4000, 8000, 16000]
UDP_LAST = 8000
TCP_LAST = 39500

TIMING_ALLOW = {
    "timeouts_ms": {r"StunRequestState::poll$": {"ref"}, r"StunRequestMut::<'a>::configure_timeout$": {"write", "drop"}},
    "last_retransmit_timeout_ms": {r"StunRequestState::poll$": {"copy"}, r"StunRequestMut::<'a>::configure_timeout$": {"write"}},
    "timeout_i": {r"StunRequestState::poll$": {"copy", "write"}},
    "last_send_time": {r"StunRequestState::poll$": {"copy", "write", "discr"}},
}


def defaults(prog, chk, rule="default-schedule"):
    AE.req_new(prog, chk, rule, {"schedule"})


def run(prog, chk, tier):
    chk.explanation = (
        "Decided: (a) the default schedule constants (UDP 500..16000 ms + 8000 ms, TCP [] + 39500 ms = their sum) read from the "
        "MIR of StunRequestState::new; (b) StunRequestState::poll as a complete decision table over {recv_cancelled, "
        "last_send_time is Some, schedule exhausted, next instant in the future, send_cancelled} with the provenance "
        "next = last_send + from_millis(timeouts_ms[timeout_i] | last_retransmit_timeout_ms), timeout_i += 1 and "
        "last_send_time = Some(now) only on the (re)transmit path, never SendData when send_cancelled; (c) who-may-write of the "
        "four timing fields; (d) in StunAgent::poll the WaitUntil answer must derive from per-request wake-ups only, selected "
        "by a `<` comparison in the right direction. NOT decided: the numeric instants themselves, the configure_timeout "
        "formula, min over concurrent schedules as values (run-time quantities).")
    chk.trusted += ["rustc MIR", "std Instant/Duration arithmetic", "spec tables in pylib/rules/agent.py"]
    chk.assumptions += ["default constants are written as literals in StunRequestState::new (a computed table would fail closed)"]
    defaults(prog, chk)
    AE.req_poll(prog, chk)
    for f, allow in TIMING_ALLOW.items():
        accs = field_accesses(prog, A.REQ_V, f)
        for a in accs:
            fn = re.sub(r"::\{closure#\d+\}", "", a["body"])
            if fn.startswith("<" + A.REQ + " as std::fmt::Debug>"):
                continue
            ok = any(re.search(p, fn) and a["how"] in hows for p, hows in allow.items())
            chk.ob("who-may-access", "%s|%s|%s" % (f, fn.split("::", 2)[-1], a["how"]), ok, a["where"],
                   detail="timing field `%s` accessed (%s) in %s" % (f, a["how"], fn))
        chk.floor("timing-%s-sites" % f, len(accs), 2)
    A.no_whole_struct_writes(prog, chk, "no-struct-overwrite", A.REQ)
    A.agent_poll_table(prog, chk)
    A.agent_poll_wait(prog, chk)
