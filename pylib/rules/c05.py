"""C05 - every request transaction completes exactly once (who-may-access + E3 tables)."""
import re
from rules import agent as A
from rules import agent_e2 as AE

LEVEL = "proof"

MAP_ALLOW = {
    r"StunAgent::send$": {("ref", r"(Hash|BTree)Map::<.*>::contains_key::<"), ("refmut", r"(Hash|BTree)Map::<.*>::insert$")},
    r"StunAgent::handle_stun$": {("refmut", r"(Hash|BTree)Map::<.*>::insert$")},
    r"StunAgent::take_outstanding_request$": {("refmut", r"(Hash|BTree)Map::<.*>::remove::<")},
    r"StunAgent::request_transaction$": {("ref", r"(Hash|BTree)Map::<.*>::contains_key::<")},
    r"StunAgent::mut_request_transaction$": {("ref", r"(Hash|BTree)Map::<.*>::contains_key::<")},
    r"StunAgent::mut_request_state$": {("refmut", r"(Hash|BTree)Map::<.*>::get_mut::<")},
    r"StunAgent::request_state$": {("ref", r"(Hash|BTree)Map::<.*>::get::<")},
    r"StunAgent::poll$": {("refmut", r"(Hash|BTree)Map::<.*>::(values_mut|iter_mut|get_mut::<.*|remove::<.*)$"),
                          ("ref", r"(Hash|BTree)Map::<.*>::(keys|len|is_empty|get::<.*|contains_key::<.*|iter|values)$")},
    r"<stun_proto::agent::StunAgent as std::fmt::Debug>::fmt$": {("ref", r"^(core|std)::fmt::")},
}
CANCEL_ALLOW = {
    r"StunRequestMut::<'a>::cancel$": {("write", r"^-$")},
    r"StunRequestMut::<'a>::cancel_retransmissions$": {("write", r"^-$")},
    r"StunRequestState::poll$": {("copy", r"^-$")},
    r"<stun_proto::agent::StunRequestState as std::fmt::Debug>::fmt$": {("ref", r"^(core|std)::fmt::")},
}


def run(prog, chk, tier):
    chk.explanation = (
        "Complete per-call transition relation of the transaction map, extracted from the MIR control-flow graphs of "
        "send / handle_stun / take_outstanding_request / StunRequestState::poll / StunAgent::poll by a guided walk "
        "(every valuation of the tracked predicates; unrecognised guards fail closed) and compared row by row with the "
        "spec tables of DESIGN appendix A.4; plus who-may-access tables showing nothing else touches "
        "outstanding_requests or the cancellation flags. With HashMap semantics the rows compose into the two-state "
        "typestate per id (absent/outstanding): delivery, time-out and cancellation happen only from `outstanding` and "
        "lead to `absent`; a refused send and a dropped response leave the state object untouched.")
    chk.trusted += ["rustc MIR", "std::collections::HashMap insert/remove/contains_key semantics",
                    "spec tables in pylib/rules/agent.py (transcribed from the property statement)"]
    A.who_may_access(prog, chk, "who-may-access", A.AGENT_V, "outstanding_requests", MAP_ALLOW, 12)
    # a construction site outside the builder would create a second map
    from e1 import construct_sites
    cs = construct_sites(prog, A.AGENT)
    chk.ob("who-may-construct", "StunAgent built only by StunAgentBuilder::build",
           [c["body"] for c in cs] == ["stun_proto::agent::StunAgentBuilder::build"], detail=repr([c["body"] for c in cs]))
    A.who_may_access(prog, chk, "who-may-access", A.REQ_V, "recv_cancelled", CANCEL_ALLOW, 3)
    A.who_may_access(prog, chk, "who-may-access", A.REQ_V, "send_cancelled", CANCEL_ALLOW, 4)
    A.no_whole_struct_writes(prog, chk, "no-struct-overwrite", A.REQ)
    A.send_table(prog, chk)
    A.handle_stun_table(prog, chk)
    A.taken_state_untouched(prog, chk)
    A.take_outstanding_table(prog, chk)
    AE.req_poll(prog, chk)
    AE.req_new(prog, chk, "request-new", {"fresh"})
    A.agent_poll_table(prog, chk)
