"""C05 - every request transaction completes exactly once (who-may-access + E3 tables)."""
import re
from rules import agent as A
from rules import agent_e2 as AE

THOROUGH_CONFIGS = ("release", "arbitrary")
LEVEL = "proof"

# who may touch the transaction map and the cancellation flags (function level; what each writer does is its table)
MAP_WRITERS = [r"StunAgent::send$", r"StunAgent::handle_stun$", r"StunAgent::take_outstanding_request$", r"StunAgent::mut_request_state$", r"StunAgent::poll$"]
MAP_READERS = [r"StunAgent::request_transaction$", r"StunAgent::mut_request_transaction$", r"StunAgent::request_state$"]
CANCEL_WRITERS = [r"StunRequestMut::<'a>::cancel$", r"StunRequestMut::<'a>::cancel_retransmissions$"]
CANCEL_READERS = [r"StunRequestState::poll$"]


def run(prog, chk, tier):
    AE.DEEP[0] = (tier == "thorough")
    chk.explanation = (
        "The per-call transition relation of the transaction map, decided from the abstract interpreter's return states "
        "(one row per return state: the facts the path decided, the net effect on the map as presence/absence of symbolic "
        "keys, the value returned) of send, handle_stun (through take_outstanding_request and validated_peer), "
        "StunRequestState::poll, StunAgent::poll and the request handles, each compared with the specification of DESIGN "
        "appendix A; plus function-level who-may-touch tables showing that nothing else reads or writes "
        "outstanding_requests or the cancellation flags. With HashMap semantics the rows compose into the two-state "
        "typestate per id (absent/outstanding): delivery, time-out and cancellation happen only from `outstanding` and "
        "lead to `absent`; a refused send and a dropped response leave the state object untouched.")
    chk.trusted += ["rustc MIR", "std::collections::HashMap insert/remove/contains_key/get_mut/values_mut semantics (model table)",
                    "specification rows in pylib/rules/agent_e2.py (transcribed from the property statement)"]
    AE.touchers(prog, chk, "who-may-access", A.AGENT_V, "outstanding_requests", MAP_READERS, MAP_WRITERS, 12)
    # a construction site outside the builder would create a second map
    from e1 import construct_sites
    cs = construct_sites(prog, A.AGENT)
    chk.ob("who-may-construct", "StunAgent built only by StunAgentBuilder::build",
           [c["body"] for c in cs] == ["stun_proto::agent::StunAgentBuilder::build"], detail=repr([c["body"] for c in cs]))
    AE.touchers(prog, chk, "who-may-access", A.REQ_V, "recv_cancelled", CANCEL_READERS, CANCEL_WRITERS, 3)
    AE.touchers(prog, chk, "who-may-access", A.REQ_V, "send_cancelled", CANCEL_READERS, CANCEL_WRITERS, 4)
    A.no_whole_struct_writes(prog, chk, "no-struct-overwrite", A.REQ)
    AE.send(prog, chk)
    AE.handle_stun(prog, chk)
    AE.req_poll(prog, chk)
    AE.req_new(prog, chk, "request-new", {"fresh"})
    AE.agent_poll(prog, chk)
    AE.handles(prog, chk, which=("cancel", "cancel_retransmissions", "configure_timeout"))
    AE.handle_lookups(prog, chk)
