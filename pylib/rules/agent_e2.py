"""Semantic (E2) extraction of the agent's per-call behaviour: each function is abstractly interpreted with unknown
booleans as 0/1 variables, instants / durations / addresses as uninterpreted terms with identity, maps and sets
abstracted by the presence of symbolic keys, and a ghost trace of container events.  Every return state is one row
of the function's decision table: the path facts that hold in it, the events in order, the return value and the
final field values - independent of how the source arranges its branches."""
import re
from absint.lin import Lin
from absint.values import *
from absint.interp import Interp, FailClosed, Frame, State, ISIZE_MAX, event
from absint.models import M
from rules.c01 import INVARIANTS

A = "stun_proto::agent::"
OPAQUE = ("std::time::Instant", "std::time::Duration", "std::net::SocketAddr")


class Run:
    def __init__(self, prog, key, names=None, hooks=None, pre_hooks=None, local_models=None, setup=None):
        self.prog = prog
        self.it = it = Interp(prog, M, INVARIANTS, trace=__import__("os").environ.get("E2_TRACE"))
        it.bool_vars = True
        it.opaque = OPAQUE
        it.ret_hooks.update(hooks or {})
        it.pre_hooks.update(pre_hooks or {})
        it.local_models.update(local_models or {})
        body = prog.bodies[key]
        self.fr = fr = Frame("E[%s]" % key.rsplit("::", 1)[-1], body, 0, frozenset())
        st = State()
        for i in range(body.arg_count):
            l = i + 1
            hint = (names or {}).get(l) or body.locals[l]["name"] or "a%d" % l
            st.cells[it.cell_of(fr, l)] = it.top_of(st, body, body.locals[l]["ty"], hint=hint, region_prefix=fr.id + ":a%d" % l)
        st.cells["ghost:trace"] = Trace()
        st.cells["ghost:pc"] = Trace()
        a1 = st.cells.get(it.cell_of(fr, 1)) if body.arg_count else None
        self.self_cell = a1.cell if isinstance(a1, Ref) and not a1.path else None
        if self.self_cell:
            sv = st.cells[self.self_cell]
            if isinstance(sv, Struct):
                # every byte container of the receiver gets a content identity, so that copies of it are recognised
                for i, fv in list(sv.f.items()):
                    if isinstance(fv, Seq) and fv.view is None and fv.src is None:
                        sv = sv.with_field(i, Seq(fv.len, fv.elem, fv.items, None, ("self.%s" % i, Lin.const(0))))
                st.cells[self.self_cell] = sv
            st.cells["ghost:self0"] = st.cells[self.self_cell]
            it.snapshots["ghost:self0"] = self.self_cell
        if setup:
            setup(self, st)
        self.error = None
        try:
            self.results = [(s, r) for s, r in it.run_body(fr, st) if s.sys.feasible()]
        except FailClosed as e:
            self.error = str(e)
            self.results = []

    def trace(self, st):
        t = st.cells.get("ghost:trace")
        return t.ev if isinstance(t, Trace) else ()

    def pc(self, st):
        t = st.cells.get("ghost:pc")
        return t.ev if isinstance(t, Trace) else ()

    def self_now(self, st):
        return st.cells.get(self.self_cell)

    def self_before(self, st):
        return st.cells.get("ghost:self0")


def field_index(prog, adt, name):
    a = prog.adts[adt]
    for i, f in enumerate(a["variants"][0]["fields"]):
        if f["name"] == name:
            return i
    raise KeyError(name)


def variant_of(prog, v):
    """name of the single variant of an enum value (None when not decided)"""
    if isinstance(v, Enum) and len(v.v) == 1:
        i = next(iter(v.v))
        a = prog.adts.get(v.adt)
        return a["variants"][i]["name"] if a else str(i)
    return None


def bool_of(st, v):
    """True / False / None for a 0/1 value in this state"""
    if isinstance(v, Num):
        c = st.sys.const_value(v.e)
        if c is not None:
            return c != 0
        if st.sys.entails_ge(v.e - 1):
            return True
        if st.sys.entails_ge(-v.e):
            return False
    if isinstance(v, Cond) and v.k == "const":
        return v.a[0]
    return None


# ------------------------------------------------------------------------------------------------
# StunRequestState::poll  (DESIGN appendix A.4)

REQ = A + "StunRequestState"
POLLRET = A + "StunRequestPollRet"


def same_value(st, a, b):
    """are two abstract values the same value in this state (identity of terms, entailed equality of numbers)"""
    if a is b:
        return True
    if isinstance(a, Num) and isinstance(b, Num):
        return st.sys.entails_eq(a.e - b.e)
    if isinstance(a, Seq) and isinstance(b, Seq):
        return st.sys.entails_eq(a.len - b.len) and (a.content() == b.content() or a is b)
    if isinstance(a, Enum) and isinstance(b, Enum):
        return a.adt == b.adt and set(a.v) == set(b.v) and all(same_value(st, a.v[k], b.v[k]) for k in a.v) and (len(a.v) == 1 or a == b)
    if isinstance(a, Struct) and isinstance(b, Struct):
        return set(a.f) == set(b.f) and all(same_value(st, a.f[k], b.f[k]) for k in a.f)
    return a == b


class Fields:
    def __init__(self, prog, adt, val):
        self.names = [f["name"] for f in prog.adts[adt]["variants"][0]["fields"]]
        self.val = val

    def __getitem__(self, name):
        return self.val.get(self.names.index(name)) if isinstance(self.val, Struct) else TOP


def pc_decisions(run, st):
    """comparisons of uninterpreted values decided on this path: list of (op, a, b, truth)"""
    return [e[0][0] + (e[1],) for e in run.pc(st)]


def req_poll(prog, chk, rule="request-poll-table"):
    key = REQ + "::poll"

    def setup(run, st):
        run.it.snapshots["ghost:self0"] = run.self_cell
    r = Run(prog, key, setup=setup)
    if r.error or not r.results:
        chk.fail(rule, "analysis", detail=r.error or "no return state")
        return
    n = 0
    body = prog.bodies[key]
    now_l = next(i for i in range(1, body.arg_count + 1) if body.locals[i]["name"] == "now")
    outcomes = set()
    for st, ret in r.results:
        n += 1
        s0 = Fields(prog, REQ, r.self_before(st))
        s1 = Fields(prog, REQ, r.self_now(st))
        now = st.cells.get(r.it.cell_of(r.fr, now_l))
        RC, SC = bool_of(st, s0["recv_cancelled"]), bool_of(st, s0["send_cancelled"])
        ls = s0["last_send_time"]
        LS = {"Some": True, "None": False}.get(variant_of(prog, ls))
        last = ls.v[1].get(0) if LS and isinstance(ls, Enum) else None
        ti, tl = s0["timeout_i"], s0["timeouts_ms"]
        X = None
        if isinstance(ti, Num) and isinstance(tl, Seq):
            if st.sys.entails_ge(ti.e - tl.len):
                X = True
            elif st.sys.entails_ge(tl.len - ti.e - 1):
                X = False
        out = variant_of(prog, ret)
        outcomes.add(out)
        payload = ret.v[next(iter(ret.v))] if isinstance(ret, Enum) and len(ret.v) == 1 else None
        # the wait decision on this path: a comparison of `last + interval` with `now`
        D = None
        interval_ok = None
        for (op, a, b, truth) in pc_decisions(r, st):
            # normalise to "deadline > now"
            if op in ("gt", "ge") and same_value(st, b, now):
                dl, wait = a, truth
            elif op in ("lt", "le") and same_value(st, a, now):
                dl, wait = b, truth
            elif op in ("le", "lt") and same_value(st, b, now):
                dl, wait = a, not truth
            elif op in ("ge", "gt") and same_value(st, a, now):
                dl, wait = b, not truth
            else:
                continue
            D = wait
            interval_ok = deadline_ok(st, dl, last, s0, X)
        row = "RC=%s,LS=%s,X=%s,D=%s,SC=%s" % tuple({True: 1, False: 0, None: "*"}[x] for x in (RC, LS, X, D, SC))
        unchanged = lambda f: same_value(st, s0[f], s1[f])
        frozen = [f for f in s0.names if f not in ("timeout_i", "last_send_time") and not unchanged(f)]
        chk.ob(rule, row + "|other-fields-unchanged", not frozen, body.loc(), detail="poll changes %s" % frozen, how="E2 return state: entry snapshot vs final fields")
        inc = None
        if isinstance(s1["timeout_i"], Num) and isinstance(ti, Num):
            inc = st.sys.const_value(s1["timeout_i"].e - ti.e)
        sent_now = variant_of(prog, s1["last_send_time"]) == "Some" and isinstance(now, V) and same_value(st, s1["last_send_time"].v[1].get(0), now)
        last_same = unchanged("last_send_time")
        # ---- the specification, row by row; a fact the path did not decide counts as both
        ok, why = True, ""
        if out == "SendData":
            need = RC is False and SC is False and (LS is False or (LS is True and D is False and X is False))
            ok = need and sent_now and ((LS is False and inc == 0) or (LS is True and inc == 1))
            why = "SendData requires not cancelled, due and not exhausted; sets last_send_time = now%s" % (", timeout_i += 1" if LS else "")
            tx = payload.get(0) if payload else None
            okt = transmit_ok(prog, st, tx, s0)
            chk.ob(rule, row + "|transmit", okt is True, body.loc(), detail="SendData carries %r: %s" % (tx, okt), how="provenance of the returned Transmit")
        elif out == "WaitUntil":
            need = RC is False and LS is True and D is True
            ok = need and interval_ok is True and last_same and inc == 0 and payload is not None and deadline_ok(st, payload.get(0), last, s0, X) is True
            why = "WaitUntil(last_send_time + current interval) only while that instant is after now; no state change"
        elif out == "TimedOut":
            need = RC is False and LS is True and D is False and X is True
            ok = need and interval_ok is True and last_same and inc == 0
            why = "TimedOut only when the final interval elapsed; no state change"
        elif out == "Cancelled":
            need = RC is True or (RC is False and SC is True and (LS is False or (LS is True and D is False and X is False)))
            ok = need and last_same and (inc == 0 or (RC is False and inc == 1))
            if RC is True:
                ok = ok and inc == 0
            why = "Cancelled only for a cancelled request; last_send_time untouched"
        else:
            ok, why = False, "unknown outcome"
        chk.ob(rule, row + "|" + str(out), ok, body.loc(),
               detail="%s; got inc=%s sent_now=%s last_same=%s interval_ok=%s pc=%r" % (why, inc, sent_now, last_same, interval_ok, r.pc(st)), how=why)
    chk.floor(rule + "-rows", n, 6)
    chk.ob(rule, "all four outcomes are produced", outcomes >= {"SendData", "WaitUntil", "TimedOut", "Cancelled"}, body.loc(), detail=repr(outcomes))


def deadline_ok(st, dl, last, s0, X):
    """dl == last + from_millis(timeouts_ms[timeout_i]) (not exhausted) or last + from_millis(last_retransmit_timeout_ms)"""
    if not (isinstance(dl, Term) and dl.op == "add" and len(dl.a) == 2 and last is not None):
        return False
    a, d = dl.a
    if not same_value(st, a, last):
        if same_value(st, d, last):
            a, d = d, a
        else:
            return False
    if not (isinstance(d, Term) and d.op == "from_millis" and isinstance(d.a[0], Num)):
        return False
    ms = d.a[0]
    ti, tl = s0["timeout_i"], s0["timeouts_ms"]
    if X is True:
        return isinstance(s0["last_retransmit_timeout_ms"], Num) and st.sys.entails_eq(ms.e - s0["last_retransmit_timeout_ms"].e)
    if X is False:
        # the element variable of timeouts_ms at index timeout_i
        vs = list(ms.e.t)
        if len(vs) != 1 or ms.e.t[vs[0]] != 1 or ms.e.c != 0:
            return False
        m = re.match(r"^e\((.*)\)#0@(.*)$", vs[0])
        if not m:
            return False
        lenvars = list(tl.len.t) if isinstance(tl, Seq) else []
        idxv = list(ti.e.t) if isinstance(ti, Num) else []
        return len(lenvars) == 1 and m.group(2) == lenvars[0] and len(idxv) == 1 and m.group(1) == idxv[0] and ti.e.c == 0
    return False


def transmit_ok(prog, st, tx, s0):
    if not isinstance(tx, Struct):
        return "not a Transmit"
    t = Fields(prog, A + "Transmit", tx)
    d = t["data"]
    if isinstance(d, Enum) and len(d.v) == 1:
        d = d.v[next(iter(d.v))].get(0)
    while isinstance(d, Struct) and len(d.f) == 1:
        d = d.get(0)
    if isinstance(d, Ref):
        return "data is a reference %r" % (d,)
    b = s0["bytes"]
    if not (isinstance(d, Seq) and isinstance(b, Seq) and st.sys.entails_eq(d.len - b.len)):
        return "data %r is not the request bytes %r" % (d, b)
    if d.content() != b.content():
        return "data content %r differs from the request bytes %r" % (d.content(), b.content())
    for f in ("transport", "from", "to"):
        if not same_value(st, t[f], s0[f]):
            return "%s = %r, not the request's %r" % (f, t[f], s0[f])
    return True


# ------------------------------------------------------------------------------------------------
# StunRequestState::new : what a request is born with

MB = "stun_types::message::MessageBuilder::<'a>::"
UDP_DEFAULT = [500, 1000, 2000, 4000, 8000, 16000]
UDP_LAST = 8000
TCP_LAST = 39500
MI_TYPES = {0x0008: "MESSAGE-INTEGRITY", 0x001C: "MESSAGE-INTEGRITY-SHA256"}


def model_build(c):
    """summary of MessageBuilder::build: some bytes whose content is identified as `build(<that builder>)`"""
    n = c.it.fresh_num(c.st, 20, None, "built_len")
    return [(c.st, Seq(n.e, None, None, None, ("build(arg)", Lin.const(0))))]


def model_has_attribute(c):
    """summary of MessageBuilder::has_attribute: an unknown boolean per attribute type, the same on every call"""
    t = c.deref(c.args[1])
    while isinstance(t, Struct) and len(t.f) == 1:
        t = t.get(0)
    cv = c.st.sys.const_value(t.e) if isinstance(t, Num) else None
    if cv is None:
        return [(c.st, c.top_ret())]
    v = Lin.var("has_attr_%d" % cv)
    c.st.sys.add_range(v, 0, 1)
    return [(c.st, Num(v))]


def as01(st, v):
    """a boolean abstract value as a 0/1 linear term (None when it is not one)"""
    if isinstance(v, Num):
        return v.e
    if isinstance(v, Cond) and v.k == "const":
        return Lin.const(1 if v.a[0] else 0)
    return None


def req_new(prog, chk, rule, aspects):
    """aspects: subset of {'schedule', 'credentials', 'provenance', 'fresh'}"""
    key = REQ + "::new"
    body = prog.bodies[key]
    arg = {body.locals[i]["name"]: i for i in range(1, body.arg_count + 1)}
    r = Run(prog, key, local_models={MB + "build": model_build, MB + "has_attribute": model_has_attribute})
    if r.error or not r.results:
        chk.fail(rule, "new|analysis", detail=r.error or "no return state")
        return
    seen_tr = set()
    for st, ret in r.results:
        f = Fields(prog, REQ, ret)
        tr = variant_of(prog, f["transport"])
        seen_tr.add(tr)
        a = lambda name: st.cells.get(r.it.cell_of(r.fr, arg[name])) if name in arg else None
        if "schedule" in aspects:
            tm, last = f["timeouts_ms"], f["last_retransmit_timeout_ms"]
            lastc = st.sys.const_value(last.e) if isinstance(last, Num) else None
            ln = st.sys.const_value(tm.len) if isinstance(tm, Seq) else None
            if tr == "Tcp":
                ok = ln == 0 and lastc == TCP_LAST
                chk.ob(rule, "new|Tcp: no retransmissions, time-out %d ms" % TCP_LAST, ok, body.loc(), detail="timeouts_ms %r, last %r" % (tm, last), how="E2 return state")
            elif tr == "Udp":
                items = tm.items if isinstance(tm, Seq) else None
                vals = [st.sys.const_value(items.get(i).e) if isinstance(items.get(i), Num) else None for i in range(ln or 0)] if isinstance(items, Struct) and items.tag == "elems" else None
                ok = vals == UDP_DEFAULT and lastc == UDP_LAST
                chk.ob(rule, "new|Udp: intervals %r ms then %d ms" % (UDP_DEFAULT, UDP_LAST), ok, body.loc(), detail="timeouts_ms %r, last %r" % (tm, last), how="E2 return state")
            else:
                chk.fail(rule, "new|schedule for an undecided transport", body.loc(), detail=repr(f["transport"]))
            ti = f["timeout_i"]
            chk.ob(rule, "new|timeout_i starts at 0", isinstance(ti, Num) and st.sys.const_value(ti.e) == 0, body.loc(), detail=repr(ti))
            chk.ob(rule, "new|last_send_time starts as None", variant_of(prog, f["last_send_time"]) == "None", body.loc(), detail=repr(f["last_send_time"]))
        if "fresh" in aspects:
            for fl in ("recv_cancelled", "send_cancelled"):
                chk.ob(rule, "new|%s starts false" % fl, bool_of(st, f[fl]) is False, body.loc(), detail=repr(f[fl]))
        if "credentials" in aspects:
            rhc = as01(st, f["request_had_credentials"])
            hs = [Lin.var("has_attr_%d" % t) for t in sorted(MI_TYPES)]
            sy = st.sys.copy()
            for h in hs:
                sy.add_range(h, 0, 1)       # a question this path never asked is still a boolean
            ok = rhc is not None and all(sy.entails_ge(rhc - h) for h in hs) and sy.entails_ge(hs[0] + hs[1] - rhc)
            chk.ob(rule, "new|request_had_credentials = has(MESSAGE-INTEGRITY) or has(MESSAGE-INTEGRITY-SHA256)", ok, body.loc(),
                   detail="value %r under %r" % (f["request_had_credentials"], st.sys), how="E2 return state with has_attribute summarised as one unknown boolean per type")
        if "provenance" in aspects:
            b = f["bytes"]
            chk.ob(rule, "new|bytes = request.build()", isinstance(b, Seq) and b.content() == ("build(arg)", Lin.const(0)), body.loc(), detail=repr(b))
            for fl in ("transport", "from", "to"):
                av = a(fl)
                chk.ob(rule, "new|%s is the argument" % fl, av is not None and same_value(st, f[fl], av), body.loc(), detail="%r vs argument %r" % (f[fl], av))
            req = a("request")
            tid = Fields(prog, "stun_types::message::MessageBuilder", req)["transaction_id"] if isinstance(req, Struct) else None
            chk.ob(rule, "new|transaction_id is the request's", tid is not None and same_value(st, f["transaction_id"], tid), body.loc(), detail="%r vs %r" % (f["transaction_id"], tid))
    if "schedule" in aspects:
        chk.ob(rule, "new|both transports analysed", seen_tr >= {"Tcp", "Udp"}, body.loc(), detail=repr(seen_tr))
        chk.ob(rule, "TCP time-out equals the sum of the UDP schedule", TCP_LAST == sum(UDP_DEFAULT) + UDP_LAST, how="%d = %d + %d" % (TCP_LAST, sum(UDP_DEFAULT), UDP_LAST))
