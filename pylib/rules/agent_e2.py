"""Semantic (E2) extraction of the agent's per-call behaviour: each function is abstractly interpreted with unknown
booleans as 0/1 variables, instants / durations / addresses as uninterpreted terms with identity, maps and sets
abstracted by the presence of symbolic keys, and a ghost trace of container events.  Every return state is one row
of the function's decision table: the path facts that hold in it, the events in order, the return value and the
final field values - independent of how the source arranges its branches."""
import re
from absint.lin import Lin
from absint.values import *
from absint.interp import Interp, FailClosed, Frame, State, ISIZE_MAX, event
from absint.models import M
from absint.models_std2 import tag_seqs
from rules.c01 import INVARIANTS

A = "stun_proto::agent::"
DEEP = [False]      # set by a rule running in the thorough tier: deeper bounds (three requests, longer lists)
OPAQUE = ("std::time::Instant", "std::time::Duration", "std::net::SocketAddr")


class Run:
    def __init__(self, prog, key, names=None, hooks=None, pre_hooks=None, local_models=None, setup=None, track_content=False, bool_vars=True, max_parts=None, def_models=None, path_sensitive=None, byte_defs=False, net_records=False):
        self.prog = prog
        self.it = it = Interp(prog, M, INVARIANTS, trace=__import__("os").environ.get("E2_TRACE"))
        it.bool_vars = bool_vars
        it.map_key_field = "transaction_id"      # invariant of outstanding_requests (established by send, kept by handle_stun)
        it.track_content = track_content
        it.byte_defs = byte_defs
        from absint.models_content import use_registry
        use_registry(it)
        if max_parts:
            it.max_parts = max_parts
        it.opaque = OPAQUE if not net_records else tuple(x for x in OPAQUE if not x.startswith("std::net::"))
        it.net_records = net_records
        it.ret_hooks.update(hooks or {})
        it.pre_hooks.update(pre_hooks or {})
        it.local_models.update(local_models or {})
        it.def_models.update(def_models or {})
        body = prog.bodies[key]
        self.fr = fr = Frame("E[%s]" % key.rsplit("::", 1)[-1], body, 0, frozenset())
        st = State()
        for i in range(body.arg_count):
            l = i + 1
            hint = (names or {}).get(l) or body.locals[l]["name"] or "a%d" % l
            st.cells[it.cell_of(fr, l)] = it.top_of(st, body, body.locals[l]["ty"], hint=hint, region_prefix=fr.id + ":a%d" % l)
        st.cells["ghost:trace"] = Trace()
        st.cells["ghost:pc"] = Trace()
        it.path_sensitive = bool_vars if path_sensitive is None else path_sensitive
        if it.path_sensitive:
            st.cells["ghost:path"] = Trace()
            if not max_parts:
                it.max_parts = 4000
        a1 = st.cells.get(it.cell_of(fr, 1)) if body.arg_count else None
        self.self_cell = a1.cell if isinstance(a1, Ref) and not a1.path else None
        if self.self_cell:
            sv = st.cells[self.self_cell]
            st.cells[self.self_cell] = tag_seqs(sv, "self")
            st.cells["ghost:self0"] = st.cells[self.self_cell]
            it.snapshots["ghost:self0"] = self.self_cell
        self.error = None
        try:
            # a setup callback may fork: it returns the list of states to start from (None: the one it was given)
            starts = setup(self, st) if setup else None
            if starts is None:
                starts = [st]
            self.results = []
            for st0 in starts:
                self.results += [(s, r) for s, r in it.run_body(fr, st0) if s.sys.feasible()]
        except FailClosed as e:
            self.error = str(e)
            self.results = []

    def trace(self, st):
        t = st.cells.get("ghost:trace")
        return t.ev if isinstance(t, Trace) else ()

    def pc(self, st):
        t = st.cells.get("ghost:pc")
        return t.ev if isinstance(t, Trace) else ()

    def self_now(self, st):
        return st.cells.get(self.self_cell)

    def self_before(self, st):
        return st.cells.get("ghost:self0")


def pin_variant(prog, st, cell, adt, field, vname):
    """restrict an enum-typed field of the struct in `cell` to one variant (the analysis is repeated per variant, so that a
    copy of the field is told apart from a constant)"""
    sv = st.cells.get(cell)
    i = field_index(prog, adt, field)
    ev = sv.get(i) if isinstance(sv, Struct) else None
    if isinstance(ev, Enum):
        a = prog.adts[ev.adt]
        vi = [v["name"] for v in a["variants"]].index(vname)
        st.cells[cell] = sv.with_field(i, ev.only(vi))


def field_index(prog, adt, name):
    a = prog.adts[adt]
    for i, f in enumerate(a["variants"][0]["fields"]):
        if f["name"] == name:
            return i
    raise KeyError(name)


def variant_of(prog, v):
    """name of the single variant of an enum value (None when not decided)"""
    if isinstance(v, Enum) and len(v.v) == 1:
        i = next(iter(v.v))
        a = prog.adts.get(v.adt)
        return a["variants"][i]["name"] if a else str(i)
    return None


def bool_of(st, v):
    """True / False / None for a 0/1 value in this state"""
    if isinstance(v, Num):
        c = st.sys.const_value(v.e)
        if c is not None:
            return c != 0
        if st.sys.entails_ge(v.e - 1):
            return True
        if st.sys.entails_ge(-v.e):
            return False
    if isinstance(v, Cond) and v.k == "const":
        return v.a[0]
    return None


# ------------------------------------------------------------------------------------------------
# StunRequestState::poll  (DESIGN appendix A.4)

REQ = A + "StunRequestState"
POLLRET = A + "StunRequestPollRet"


def same_value(st, a, b):
    """are two abstract values the same value in this state (identity of terms, entailed equality of numbers)"""
    if a is b:
        return True
    if isinstance(a, Num) and isinstance(b, Num):
        return st.sys.entails_eq(a.e - b.e)
    if isinstance(a, Seq) and isinstance(b, Seq):
        # equal length and the same identified content (unknown content is equal only to itself)
        return st.sys.entails_eq(a.len - b.len) and a.content() is not None and a.content() == b.content()
    if isinstance(a, Enum) and isinstance(b, Enum):
        return a.adt == b.adt and set(a.v) == set(b.v) and all(same_value(st, a.v[k], b.v[k]) for k in a.v) and (len(a.v) == 1 or a == b)
    if isinstance(a, Struct) and isinstance(b, Struct):
        return set(a.f) == set(b.f) and all(same_value(st, a.f[k], b.f[k]) for k in a.f)
    return a == b


def unchanged(st, a, b):
    """a field still holds its entry value: the same abstract value (in-place mutation of container contents is a write
    access, which the who-may-access rules decide)"""
    return same_value(st, a, b) or a == b


class Fields:
    def __init__(self, prog, adt, val):
        self.names = [f["name"] for f in prog.adts[adt]["variants"][0]["fields"]]
        self.val = val

    def __getitem__(self, name):
        return self.val.get(self.names.index(name)) if isinstance(self.val, Struct) else TOP


def pc_decisions(run, st):
    """comparisons of uninterpreted values decided on this path: list of (op, a, b, truth)"""
    return [e[0][0] + (e[1],) for e in run.pc(st)]


def req_poll(prog, chk, rule="request-poll-table"):
    key = REQ + "::poll"

    n = 0
    body = prog.bodies[key]
    now_l = next(i for i in range(1, body.arg_count + 1) if body.locals[i]["name"] == "now")
    outcomes = set()
    results = []
    for tv in ("Udp", "Tcp"):
        def setup(run, st, tv=tv):
            pin_variant(prog, st, run.self_cell, REQ, "transport", tv)
            st.cells["ghost:self0"] = st.cells[run.self_cell]
        r = Run(prog, key, setup=setup)
        if r.error or not r.results:
            chk.fail(rule, "analysis", detail=r.error or "no return state")
            return
        results += [(r, st, ret) for st, ret in r.results]
    for r, st, ret in results:
        n += 1
        s0 = Fields(prog, REQ, r.self_before(st))
        s1 = Fields(prog, REQ, r.self_now(st))
        now = st.cells.get(r.it.cell_of(r.fr, now_l))
        RC, SC = bool_of(st, s0["recv_cancelled"]), bool_of(st, s0["send_cancelled"])
        ls = s0["last_send_time"]
        LS = {"Some": True, "None": False}.get(variant_of(prog, ls))
        last = ls.v[1].get(0) if LS and isinstance(ls, Enum) else None
        ti, tl = s0["timeout_i"], s0["timeouts_ms"]
        X = None
        if isinstance(ti, Num) and isinstance(tl, Seq):
            if st.sys.entails_ge(ti.e - tl.len):
                X = True
            elif st.sys.entails_ge(tl.len - ti.e - 1):
                X = False
        out = variant_of(prog, ret)
        outcomes.add(out)
        payload = ret.v[next(iter(ret.v))] if isinstance(ret, Enum) and len(ret.v) == 1 else None
        # the wait decision on this path: a comparison of `last + interval` with `now`
        D = None
        interval_ok = None
        for (op, a, b, truth) in pc_decisions(r, st):
            # normalise to "deadline > now"
            if op in ("gt", "ge") and same_value(st, b, now):
                dl, wait = a, truth
            elif op in ("lt", "le") and same_value(st, a, now):
                dl, wait = b, truth
            elif op in ("le", "lt") and same_value(st, b, now):
                dl, wait = a, not truth
            elif op in ("ge", "gt") and same_value(st, a, now):
                dl, wait = b, not truth
            else:
                continue
            D = wait
            interval_ok = deadline_ok(st, dl, last, s0, X)
        row = "RC=%s,LS=%s,X=%s,D=%s,SC=%s" % tuple({True: 1, False: 0, None: "*"}[x] for x in (RC, LS, X, D, SC))
        unch = lambda f: unchanged(st, s0[f], s1[f])
        frozen = [f for f in s0.names if f not in ("timeout_i", "last_send_time") and not unch(f)]
        chk.ob(rule, row + "|other-fields-unchanged", not frozen, body.loc(), detail="poll changes %s" % frozen, how="E2 return state: entry snapshot vs final fields")
        inc = None
        if isinstance(s1["timeout_i"], Num) and isinstance(ti, Num):
            inc = st.sys.const_value(s1["timeout_i"].e - ti.e)
        sent_now = variant_of(prog, s1["last_send_time"]) == "Some" and isinstance(now, V) and same_value(st, s1["last_send_time"].v[1].get(0), now)
        last_same = unch("last_send_time")
        # ---- the specification, row by row; a fact the path did not decide counts as both
        ok, why = True, ""
        if out == "SendData":
            need = RC is False and SC is False and (LS is False or (LS is True and D is False and X is False))
            ok = need and sent_now and ((LS is False and inc == 0) or (LS is True and inc == 1))
            why = "SendData requires not cancelled, due and not exhausted; sets last_send_time = now%s" % (", timeout_i += 1" if LS else "")
            tx = payload.get(0) if payload else None
            okt = transmit_ok(prog, st, tx, s0)
            chk.ob(rule, row + "|transmit", okt is True, body.loc(), detail="SendData carries %r: %s" % (tx, okt), how="provenance of the returned Transmit")
        elif out == "WaitUntil":
            need = RC is False and LS is True and D is True
            ok = need and interval_ok is True and last_same and inc == 0 and payload is not None and deadline_ok(st, payload.get(0), last, s0, X) is True
            why = "WaitUntil(last_send_time + current interval) only while that instant is after now; no state change"
        elif out == "TimedOut":
            need = RC is False and LS is True and D is False and X is True
            ok = need and interval_ok is True and last_same and inc == 0
            why = "TimedOut only when the final interval elapsed; no state change"
        elif out == "Cancelled":
            need = RC is True or (RC is False and SC is True and (LS is False or (LS is True and D is False and X is False)))
            ok = need and last_same and (inc == 0 or (RC is False and inc == 1))
            if RC is True:
                ok = ok and inc == 0
            why = "Cancelled only for a cancelled request; last_send_time untouched"
        else:
            ok, why = False, "unknown outcome"
        chk.ob(rule, row + "|" + str(out), ok, body.loc(),
               detail="%s; got inc=%s sent_now=%s last_same=%s interval_ok=%s pc=%r" % (why, inc, sent_now, last_same, interval_ok, r.pc(st)), how=why)
    chk.floor(rule + "-rows", n, 12)
    chk.ob(rule, "all four outcomes are produced", outcomes >= {"SendData", "WaitUntil", "TimedOut", "Cancelled"}, body.loc(), detail=repr(outcomes))


def deadline_ok(st, dl, last, s0, X):
    """dl == last + from_millis(timeouts_ms[timeout_i]) (not exhausted) or last + from_millis(last_retransmit_timeout_ms)"""
    if not (isinstance(dl, Term) and dl.op == "add" and len(dl.a) == 2 and last is not None):
        return False
    a, d = dl.a
    if not same_value(st, a, last):
        if same_value(st, d, last):
            a, d = d, a
        else:
            return False
    if not (isinstance(d, Term) and d.op == "from_millis" and isinstance(d.a[0], Num)):
        return False
    ms = d.a[0]
    ti, tl = s0["timeout_i"], s0["timeouts_ms"]
    if X is True:
        return isinstance(s0["last_retransmit_timeout_ms"], Num) and st.sys.entails_eq(ms.e - s0["last_retransmit_timeout_ms"].e)
    if X is False:
        # the element variable of timeouts_ms at index timeout_i
        vs = list(ms.e.t)
        if len(vs) != 1 or ms.e.t[vs[0]] != 1 or ms.e.c != 0:
            return False
        m = re.match(r"^e\((.*)\)#0@(.*)$", vs[0])
        if not m:
            return False
        lenvars = list(tl.len.t) if isinstance(tl, Seq) else []
        idxv = list(ti.e.t) if isinstance(ti, Num) else []
        return len(lenvars) == 1 and m.group(2) == lenvars[0] and len(idxv) == 1 and m.group(1) == idxv[0] and ti.e.c == 0
    return False


def transmit_ok(prog, st, tx, s0):
    if not isinstance(tx, Struct):
        return "not a Transmit"
    t = Fields(prog, A + "Transmit", tx)
    d = t["data"]
    if isinstance(d, Enum) and len(d.v) == 1:
        d = d.v[next(iter(d.v))].get(0)
    while isinstance(d, Struct) and len(d.f) == 1:
        d = d.get(0)
    if isinstance(d, Ref):
        return "data is a reference %r" % (d,)
    b = s0["bytes"]
    if not (isinstance(d, Seq) and isinstance(b, Seq) and st.sys.entails_eq(d.len - b.len)):
        return "data %r is not the request bytes %r" % (d, b)
    if d.content() != b.content():
        return "data content %r differs from the request bytes %r" % (d.content(), b.content())
    for f in ("transport", "from", "to"):
        if not same_value(st, t[f], s0[f]):
            return "%s = %r, not the request's %r" % (f, t[f], s0[f])
    return True


# ------------------------------------------------------------------------------------------------
# StunRequestState::new : what a request is born with

MB = "stun_types::message::MessageBuilder::<'a>::"
UDP_DEFAULT = [500, 1000, 2000, 4000, 8000, 16000]
UDP_LAST = 8000
TCP_LAST = 39500
MI_TYPES = {0x0008: "MESSAGE-INTEGRITY", 0x001C: "MESSAGE-INTEGRITY-SHA256"}


def model_build(c):
    """summary of MessageBuilder::build: some bytes whose content is identified as `build(<that builder>)`"""
    n = c.it.fresh_num(c.st, 20, None, "built_len")
    return [(c.st, Seq(n.e, None, None, None, ("build(arg)", Lin.const(0))))]


def model_has_attribute(c):
    """summary of MessageBuilder::has_attribute: an unknown boolean per attribute type, the same on every call"""
    t = c.deref(c.args[1])
    while isinstance(t, Struct) and len(t.f) == 1:
        t = t.get(0)
    cv = c.st.sys.const_value(t.e) if isinstance(t, Num) else None
    if cv is None:
        return [(c.st, c.top_ret())]
    v = Lin.var("has_attr_%d" % cv)
    c.st.sys.add_range(v, 0, 1)
    c.st.cells["ghost:q:has_attr_%d" % cv] = Num(v)
    return [(c.st, Num(v))]


def as01(st, v):
    """a boolean abstract value as a 0/1 linear term (None when it is not one)"""
    if isinstance(v, Num):
        return v.e
    if isinstance(v, Cond) and v.k == "const":
        return Lin.const(1 if v.a[0] else 0)
    return None


def req_new(prog, chk, rule, aspects):
    """aspects: subset of {'schedule', 'credentials', 'provenance', 'fresh'}"""
    key = REQ + "::new"
    body = prog.bodies[key]
    arg = {body.locals[i]["name"]: i for i in range(1, body.arg_count + 1)}
    r = Run(prog, key, local_models={MB + "build": model_build, MB + "has_attribute": model_has_attribute})
    if r.error or not r.results:
        chk.fail(rule, "new|analysis", detail=r.error or "no return state")
        return
    seen_tr = set()
    for st, ret in r.results:
        f = Fields(prog, REQ, ret)
        tr = variant_of(prog, f["transport"])
        seen_tr.add(tr)
        a = lambda name: st.cells.get(r.it.cell_of(r.fr, arg[name])) if name in arg else None
        if "schedule" in aspects:
            tm, last = f["timeouts_ms"], f["last_retransmit_timeout_ms"]
            lastc = st.sys.const_value(last.e) if isinstance(last, Num) else None
            ln = st.sys.const_value(tm.len) if isinstance(tm, Seq) else None
            if tr == "Tcp":
                ok = ln == 0 and lastc == TCP_LAST
                chk.ob(rule, "new|Tcp: no retransmissions, time-out %d ms" % TCP_LAST, ok, body.loc(), detail="timeouts_ms %r, last %r" % (tm, last), how="E2 return state")
            elif tr == "Udp":
                items = tm.items if isinstance(tm, Seq) else None
                vals = [st.sys.const_value(items.get(i).e) if isinstance(items.get(i), Num) else None for i in range(ln or 0)] if isinstance(items, Struct) and items.tag == "elems" else None
                ok = vals == UDP_DEFAULT and lastc == UDP_LAST
                chk.ob(rule, "new|Udp: intervals %r ms then %d ms" % (UDP_DEFAULT, UDP_LAST), ok, body.loc(), detail="timeouts_ms %r, last %r" % (tm, last), how="E2 return state")
            else:
                chk.fail(rule, "new|schedule for an undecided transport", body.loc(), detail=repr(f["transport"]))
            ti = f["timeout_i"]
            chk.ob(rule, "new|timeout_i starts at 0", isinstance(ti, Num) and st.sys.const_value(ti.e) == 0, body.loc(), detail=repr(ti))
            chk.ob(rule, "new|last_send_time starts as None", variant_of(prog, f["last_send_time"]) == "None", body.loc(), detail=repr(f["last_send_time"]))
        if "fresh" in aspects:
            for fl in ("recv_cancelled", "send_cancelled"):
                chk.ob(rule, "new|%s starts false" % fl, bool_of(st, f[fl]) is False, body.loc(), detail=repr(f[fl]))
        if "credentials" in aspects:
            rhc = as01(st, f["request_had_credentials"])
            hs = [Lin.var("has_attr_%d" % t) for t in sorted(MI_TYPES)]
            sy = st.sys.copy()
            for h in hs:
                sy.add_range(h, 0, 1)       # a question this path never asked is still a boolean
            ok = rhc is not None and all(sy.entails_ge(rhc - h) for h in hs) and sy.entails_ge(hs[0] + hs[1] - rhc)
            chk.ob(rule, "new|request_had_credentials = has(MESSAGE-INTEGRITY) or has(MESSAGE-INTEGRITY-SHA256)", ok, body.loc(),
                   detail="value %r under %r" % (f["request_had_credentials"], st.sys), how="E2 return state with has_attribute summarised as one unknown boolean per type")
        if "provenance" in aspects:
            b = f["bytes"]
            chk.ob(rule, "new|bytes = request.build()", isinstance(b, Seq) and b.content() == ("build(arg)", Lin.const(0)), body.loc(), detail=repr(b))
            for fl in ("transport", "from", "to"):
                av = a(fl)
                chk.ob(rule, "new|%s is the argument" % fl, av is not None and same_value(st, f[fl], av), body.loc(), detail="%r vs argument %r" % (f[fl], av))
            req = a("request")
            tid = Fields(prog, "stun_types::message::MessageBuilder", req)["transaction_id"] if isinstance(req, Struct) else None
            chk.ob(rule, "new|transaction_id is the request's", tid is not None and same_value(st, f["transaction_id"], tid), body.loc(), detail="%r vs %r" % (f["transaction_id"], tid))
    if "schedule" in aspects:
        chk.ob(rule, "new|both transports analysed", seen_tr >= {"Tcp", "Udp"}, body.loc(), detail=repr(seen_tr))
        chk.ob(rule, "TCP time-out equals the sum of the UDP schedule", TCP_LAST == sum(UDP_DEFAULT) + UDP_LAST, how="%d = %d + %d" % (TCP_LAST, sum(UDP_DEFAULT), UDP_LAST))


# ------------------------------------------------------------------------------------------------
# StunAgent::handle_stun  (DESIGN appendix A.1)

AGENT = A + "StunAgent"
MSG = "stun_types::message::Message::<'a>::"


def ref_id(v):
    """identity of the storage a reference points to"""
    if isinstance(v, Ref):
        return "%s%s" % (v.cell.rsplit(":", 1)[-1] if "*" in v.cell else v.cell, "".join(".%s%s" % (p[0] if p[0] != "f" else "", p[1]) for p in v.path))
    return None


def msg_models():
    """summaries of the Message getters used by the agent: one unknown per (message, question); their faithfulness to the
    bytes is C02's faithful-exposure clause, the verdict of validate_integrity is C04"""
    def tid(c):
        v = Lin.var("tid(%s)" % ref_id(c.args[0]))
        c.st.sys.add_range(v, 0, (1 << 128) - 1)
        c.st.cells["ghost:q:" + next(iter(v.t))] = Num(v)
        return [(c.st, Struct({0: Num(v)}))]

    def is_response(c):
        v = Lin.var("is_response(%s)" % ref_id(c.args[0]))
        c.st.sys.add_range(v, 0, 1)
        c.st.cells["ghost:q:" + next(iter(v.t))] = Num(v)      # keeps the answer among the facts of the return state
        return [(c.st, Num(v))]

    def validate(c):
        s_ok, s_err = c.st, c.st.copy()
        event(s_ok, "validate", ref_id(c.args[0]), ref_id(c.args[1]), True)
        event(s_err, "validate", ref_id(c.args[0]), ref_id(c.args[1]), False)
        rt = c.it.top_of(s_err, c.fr.body, c.term["dest"]["ty"], hint="verdict")
        err = rt.only(1) if isinstance(rt, Enum) and 1 in rt.v else Enum("std::result::Result", {1: Struct({0: TOP})})
        okv = rt.only(0) if isinstance(rt, Enum) and 0 in rt.v else Enum("std::result::Result", {0: Struct({0: TOP})})
        return [(s_ok, okv), (s_err, err)]
    return {MSG + "transaction_id": tid, MSG + "is_response": is_response, MSG + "validate_integrity": validate}


def agent_field_of(prog, mid):
    """'a1*self.5' -> 'outstanding_requests'"""
    m = re.match(r"^a1\*self\.(\d+)$", mid if isinstance(mid, str) else "")
    if not m:
        return None
    fs = prog.adts[AGENT]["variants"][0]["fields"]
    i = int(m.group(1))
    return fs[i]["name"] if i < len(fs) else None


def handle_stun(prog, chk, rule="handle_stun-table"):
    key = AGENT + "::handle_stun"
    body = prog.bodies[key]
    arg = {body.locals[i]["name"]: i for i in range(1, body.arg_count + 1)}

    def setup(run, st):
        mc = run.it.cell_of(run.fr, arg["msg"])
        mv = st.cells.get(mc)
        if isinstance(mv, Struct):
            st.cells[mc] = Struct({i: (Seq(x.len, x.elem, x.items, None, ("msg", Lin.const(0))) if isinstance(x, Seq) else x) for i, x in mv.f.items()}, mv.tag)
        st.cells["ghost:msg0"] = st.cells[mc]
    r = Run(prog, key, local_models=msg_models(), setup=setup)
    if r.error or not r.results:
        chk.fail(rule, "analysis", detail=r.error or "no return state")
        return
    msg_id = "E[handle_stun]:_%d" % arg["msg"]
    tidk = "K[tid(%s)]" % msg_id
    isr = Lin.var("is_response(%s)" % msg_id)
    fromk = None
    n = 0
    outcomes = set()
    for st, ret in r.results:
        n += 1
        s0 = Fields(prog, AGENT, r.self_before(st))
        s1 = Fields(prog, AGENT, r.self_now(st))
        tr = r.trace(st)
        sy = st.sys.copy()
        sy.add_range(isr, 0, 1)
        R = True if sy.entails_ge(isr - 1) else False if sy.entails_ge(-isr) else None
        req_ev = [e for e in tr if agent_field_of(prog, e[1]) == "outstanding_requests"]
        peer_ev = [e for e in tr if agent_field_of(prog, e[1]) == "validated_peers"]
        other_ev = [e for e in tr if e[0] != "validate" and e not in req_ev and e not in peer_ev]
        foreign = [e for e in req_ev if e[2] != tidk]
        T = next((e[3] for e in req_ev if e[0] in ("lookup",) and e[2] == tidk), None)
        mid = next((e[1] for e in req_ev), None)
        taken = st.cells.get("ghost:taken:%s:%s" % (mid, tidk)) if mid else None
        H = bool_of(st, Fields(prog, REQ, taken)["request_had_credentials"]) if isinstance(taken, Struct) else None
        C = {"Some": True, "None": False}.get(variant_of(prog, s0["remote_credentials"]))
        vals = [e for e in tr if e[0] == "validate"]
        V = vals[0][3] if len(vals) == 1 else None
        out = variant_of(prog, ret)
        outcomes.add(out)
        payload = ret.v[next(iter(ret.v))].get(0) if isinstance(ret, Enum) and len(ret.v) == 1 and ret.v[next(iter(ret.v))].f else None
        # what happened to the request and to the peer set, as net effects
        gm = st.cells.get("ghost:map:%s" % mid) if mid else None
        present_now = None
        if isinstance(gm, Struct) and isinstance(gm.get(tidk), Num):
            present_now = bool(gm.get(tidk).e.c)
        stored = st.cells.get("ghost:mapval:%s:%s" % (mid, tidk)) if mid else None
        mutated = [e for e in req_ev if e[0] in ("insert", "remove", "shrink")]
        reinserted_same = present_now is True and T is True and isinstance(taken, V.__class__.__mro__[-2]) if False else None
        reinserted_same = bool(present_now is True and T is True and taken is not None and stored is not None and same_value(st, stored, taken))
        removed = bool(T is True and present_now is False)
        frm = st.cells.get(r.it.cell_of(r.fr, arg["from"]))
        fk = "K[%r]" % (frm,)
        pmid = next((e[1] for e in peer_ev), None)
        pm = st.cells.get("ghost:map:%s" % pmid) if pmid else None
        peer_valid = isinstance(pm, Struct) and isinstance(pm.get(fk), Num) and pm.get(fk).e.c == 1
        peer_touched = [e for e in peer_ev if e[0] not in ("lookup",)]
        peer_foreign = [e for e in peer_ev if e[2] != fk]
        row = "R=%s,T=%s,H=%s,C=%s,V=%s" % tuple({True: 1, False: 0, None: "*"}[x] for x in (R, T, H, C, V))
        # ---- specification over every completion of the facts this path left open
        import itertools
        facts = [R, T, H, C, V]
        problems = []
        for comp in itertools.product(*[[x] if x is not None else [False, True] for x in facts]):
            r_, t_, h_, c_, v_ = comp
            if not r_:
                exp = ("IncomingStun", "untouched", True)
            elif not t_:
                exp = ("Drop", "absent", False)
            elif not h_:
                exp = ("StunResponse", "removed", True)
            elif not c_:
                exp = ("Drop", "kept", False)
            elif v_:
                exp = ("StunResponse", "removed", True)
            else:
                exp = ("Drop", "kept", False)
            got_req = ("untouched" if not mutated else "removed" if removed and [e[0] for e in mutated] == ["remove"] else
                       "kept" if reinserted_same else "absent" if (T is False and present_now is False and not [e for e in mutated if e[0] != "remove"]) else "other")
            if exp[1] == "absent" and got_req == "untouched" and T is False:
                got_req = "absent"
            if out != exp[0]:
                problems.append("returns %s where %s is required" % (out, exp[0]))
            if got_req != exp[1]:
                problems.append("outstanding request is %s where %s is required (events %r)" % (got_req, exp[1], [e[:3] for e in req_ev]))
            if exp[2] and not peer_valid:
                problems.append("the sender is not recorded as a validated peer")
            if not exp[2] and peer_touched:
                problems.append("the sender is recorded as a validated peer although nothing was accepted")
            if r_ and t_ and h_ and c_ and V is None:
                problems.append("a sealed request's response is handled without exactly one integrity validation")
        if V is not None:
            e = vals[0]
            cred_ok = e[1] == msg_id and re.match(r"^a1\*self\.%d\.v1\.0$" % s0.names.index("remote_credentials"), e[2] or "") is not None
            if not cred_ok:
                problems.append("validate_integrity is applied to (%s, %s), not (msg, self.remote_credentials)" % (e[1], e[2]))
        if len(vals) > 1:
            problems.append("more than one validation")
        if out in ("StunResponse", "IncomingStun"):
            m0 = st.cells.get("ghost:msg0")
            if payload is None or not same_value(st, payload, m0):
                problems.append("the message handed back (%r) is not the one received (%r)" % (payload, m0))
        if foreign or peer_foreign or other_ev:
            problems.append("touches other keys or containers: %r" % ([e[:3] for e in foreign + peer_foreign + other_ev],))
        changed = [f for f in s0.names if f not in ("outstanding_requests", "validated_peers") and not unchanged(st, s0[f], s1[f])]
        if changed:
            problems.append("changes agent fields %s" % changed)
        chk.ob(rule, row + "|" + str(out), not problems, body.loc(), detail="; ".join(sorted(set(problems))),
               how="E2 return state: facts decided on the path, net container effects, returned value")
    chk.floor(rule + "-rows", n, 6)
    chk.ob(rule, "all three outcomes are produced", outcomes >= {"Drop", "StunResponse", "IncomingStun"}, body.loc(), detail=repr(outcomes))


# ------------------------------------------------------------------------------------------------
# StunAgent::send  (DESIGN appendix A.2)

def model_has_class(c):
    cl = c.deref(c.args[1])
    nm = variant_of(c.it.prog, cl) if isinstance(cl, Enum) else None
    if nm is None:
        return [(c.st, c.top_ret())]
    v = Lin.var("has_class_%s" % nm)
    c.st.sys.add_range(v, 0, 1)
    c.st.cells["ghost:q:has_class_%s" % nm] = Num(v)
    return [(c.st, Num(v))]


def send(prog, chk, rule="send-table"):
    key = AGENT + "::send"
    body = prog.bodies[key]
    arg = {body.locals[i]["name"]: i for i in range(1, body.arg_count + 1)}
    results = []
    for tv in ("Udp", "Tcp"):
        def setup(run, st, tv=tv):
            pin_variant(prog, st, run.self_cell, AGENT, "transport", tv)
            st.cells["ghost:self0"] = st.cells[run.self_cell]
        r = Run(prog, key, setup=setup, local_models={MB + "build": model_build, MB + "has_attribute": model_has_attribute, MB + "has_class": model_has_class})
        if r.error or not r.results:
            chk.fail(rule, "analysis", detail=r.error or "no return state")
            return
        results += [(r, st, ret) for st, ret in r.results]
    isreq = Lin.var("has_class_Request")
    n = 0
    rows = set()
    for r, st, ret in results:
        n += 1
        s0 = Fields(prog, AGENT, r.self_before(st))
        s1 = Fields(prog, AGENT, r.self_now(st))
        tr = r.trace(st)
        sy = st.sys.copy()
        sy.add_range(isreq, 0, 1)
        Q = True if sy.entails_ge(isreq - 1) else False if sy.entails_ge(-isreq) else None
        asked_other = [c_ for c_ in st.cells if c_.startswith("ghost:q:has_class_") and c_ != "ghost:q:has_class_Request"]
        msg0 = None
        req_ev = [e for e in tr if agent_field_of(prog, e[1]) == "outstanding_requests"]
        other_ev = [e for e in tr if e not in req_ev]
        keys = {e[2] for e in req_ev}
        K = next((e[3] for e in req_ev if e[0] == "lookup"), None)
        inserts = [e for e in req_ev if e[0] == "insert"]
        mutated = [e for e in req_ev if e[0] not in ("lookup",)]
        res = variant_of(prog, ret)
        payload = ret.v[next(iter(ret.v))].get(0) if isinstance(ret, Enum) and len(ret.v) == 1 else None
        to = st.cells.get(r.it.cell_of(r.fr, arg["to"]))
        now = st.cells.get(r.it.cell_of(r.fr, arg["now"]))
        row = "Q=%s,K=%s" % tuple({True: 1, False: 0, None: "*"}[x] for x in (Q, K))
        rows.add((Q, K))
        problems = []

        def transmit_problems(tx):
            if not isinstance(tx, Struct):
                return ["the result carries no Transmit"]
            t = Fields(prog, A + "Transmit", tx)
            d = t["data"]
            if isinstance(d, Enum) and len(d.v) == 1:
                d = d.v[next(iter(d.v))].get(0)
            while isinstance(d, Struct) and len(d.f) == 1:
                d = d.get(0)
            out = []
            if not (isinstance(d, Seq) and d.content() == ("build(arg)", Lin.const(0))):
                out.append("Transmit.data %r is not msg.build()" % (d,))
            if not same_value(st, t["transport"], s1["transport"]) :
                out.append("Transmit.transport %r is not the agent's %r" % (t["transport"], s1["transport"]))
            if not same_value(st, t["from"], s0["local_addr"]):
                out.append("Transmit.from %r is not the agent's local address" % (t["from"],))
            if not same_value(st, t["to"], to):
                out.append("Transmit.to %r is not the destination argument" % (t["to"],))
            return out
        for q_ in ([Q] if Q is not None else [False, True]):
            for k_ in ([K] if K is not None else [False, True]):
                if not q_:
                    if res != "Ok":
                        problems.append("a non-request is refused")
                    else:
                        problems += transmit_problems(payload)
                    if mutated:
                        problems.append("a non-request changes the transaction map: %r" % ([e[:3] for e in mutated],))
                elif k_:
                    ev = payload if res == "Err" else None
                    if res != "Err" or variant_of(prog, ev) != "AlreadyInProgress":
                        problems.append("a request whose transaction id is outstanding is not refused with AlreadyInProgress (%s %r)" % (res, ev))
                    if mutated:
                        problems.append("the refused send changes the transaction map: %r" % ([e[:3] for e in mutated],))
                else:
                    if K is None:
                        problems.append("a request is sent without asking whether its transaction id is outstanding")
                    if res != "Ok":
                        problems.append("a fresh request is refused (%r)" % (payload,))
                    else:
                        problems += transmit_problems(payload)
                    if len(inserts) != 1 or len(mutated) != 1:
                        problems.append("a fresh request is not recorded exactly once: %r" % ([e[:3] for e in mutated],))
                    else:
                        s = Fields(prog, REQ, inserts[0][3])
                        if not (isinstance(s["bytes"], Seq) and s["bytes"].content() == ("build(arg)", Lin.const(0))):
                            problems.append("recorded bytes %r are not msg.build()" % (s["bytes"],))
                        if not same_value(st, s["transport"], s1["transport"]):
                            problems.append("recorded transport differs from the agent's")
                        if not same_value(st, s["from"], s0["local_addr"]) or not same_value(st, s["to"], to):
                            problems.append("recorded addresses (%r, %r) are not (local address, destination)" % (s["from"], s["to"]))
                        if variant_of(prog, s["last_send_time"]) != "Some" or not same_value(st, s["last_send_time"].v[1].get(0), now):
                            problems.append("recorded last_send_time %r is not Some(now) (instant provenance)" % (s["last_send_time"],))
                        ti = s["timeout_i"]
                        if not (isinstance(ti, Num) and st.sys.const_value(ti.e) == 0):
                            problems.append("recorded timeout_i %r is not 0" % (ti,))
                        if bool_of(st, s["recv_cancelled"]) is not False or bool_of(st, s["send_cancelled"]) is not False:
                            problems.append("recorded request starts cancelled")
                        tid = s["transaction_id"]
                        kr = "K[%r]" % (st.sys.reduce(tid.get(0).e),) if isinstance(tid, Struct) and isinstance(tid.get(0), Num) else None
                        if kr != inserts[0][2]:
                            problems.append("recorded under key %s but the state carries transaction id %s" % (inserts[0][2], kr))
        if len(keys) > 1:
            problems.append("more than one key of the transaction map is involved: %r" % (sorted(keys),))
        if other_ev:
            problems.append("touches other containers: %r" % ([e[:3] for e in other_ev],))
        if asked_other:
            problems.append("the decision depends on a class other than Request: %r" % (asked_other,))
        changed = [f for f in s0.names if f not in ("outstanding_requests",) and not unchanged(st, s0[f], s1[f])]
        if changed:
            problems.append("changes agent fields %s" % changed)
        chk.ob(rule, row + "|" + str(res), not problems, body.loc(), detail="; ".join(sorted(set(problems))),
               how="E2 return state (through StunRequestState::new and ::poll): decided facts, net map effect, returned Transmit")
    chk.floor(rule + "-rows", n, 6)
    chk.ob(rule, "the three cases are distinguished", {(False, None), (True, True), (True, False)} <= rows, body.loc(), detail=repr(sorted(rows, key=repr)))


# ------------------------------------------------------------------------------------------------
# StunAgent::poll  (DESIGN appendix A.3): what the agent does with each per-request outcome

def event_once(st, *e):
    t = st.cells.get("ghost:trace")
    if isinstance(t, Trace) and (not t.ev or t.ev[-1] != tuple(e)):
        st.cells["ghost:trace"] = t.add(tuple(e))


def instant_le(st, pc, a, b):
    """do the comparisons decided on a path show a <= b (a, b uninterpreted instants)"""
    if same_value(st, a, b):
        return True
    for e in pc:
        (op, x, y), truth = e[0][0], e[1]
        fwd = same_value(st, x, a) and same_value(st, y, b)
        bwd = same_value(st, x, b) and same_value(st, y, a)
        if fwd and ((op in ("le", "lt") and truth) or (op in ("gt",) and not truth)):
            return True           # a <= b, a < b, not (a > b)
        if fwd and op == "ge" and not truth:
            return True           # not (a >= b)  =>  a < b
        if bwd and ((op in ("ge", "gt") and truth) or (op in ("lt",) and not truth)):
            return True           # b >= a, b > a, not (b < a)
        if bwd and op == "le" and not truth:
            return True           # not (b <= a)  =>  a < b
    return False


def agent_poll(prog, chk, rule="agent-poll-table"):
    key = AGENT + "::poll"
    body = prog.bodies[key]
    arg = {body.locals[i]["name"]: i for i in range(1, body.arg_count + 1)}

    def pre(it, st, fr, args):
        st.cells["ghost:polled"] = args[0] if args else TOP
        st.cells["ghost:polled_now"] = args[1] if len(args) > 1 else TOP

    def post(it, st, fr, ret):
        who = st.cells.get("ghost:polled")
        out = variant_of(prog, ret)
        payload = ret.v[next(iter(ret.v))].get(0) if isinstance(ret, Enum) and len(ret.v) == 1 and ret.v[next(iter(ret.v))].f else None
        tid = None
        if isinstance(who, Ref):
            sv = it.load(st, who.cell, who.path)
            tid = Fields(prog, REQ, sv)["transaction_id"]
        event_once(st, "reqpoll", out, ref_id(who), payload, tid, st.cells.get("ghost:polled_now"))
    results = []
    modes = ("any number of requests (one summary request)", "two requests")     # three distinct requests do not finish in reasonable time
    for mode in modes:
        def setup(run, st, mode=mode):
            if mode in ("two requests", "three requests"):
                run.it.map_elems = 2 if mode == "two requests" else 3
                run.it.max_parts = 60000
        r = Run(prog, key, pre_hooks={REQ + "::poll": pre}, hooks={REQ + "::poll": post}, setup=setup)
        if r.error or not r.results:
            chk.fail(rule, "analysis|" + mode, detail=r.error or "no return state")
            continue          # the rows of the modes that did finish are still evaluated (a budget overrun must not hide a finding)
        results += [(r, mode, st, ret) for st, ret in r.results]
    n = skipped = n_min = 0
    outcomes = set()
    for r, mode, st, ret in results:
        tr = [e for e in r.trace(st) if e[0] != "next"]
        s0 = Fields(prog, AGENT, r.self_before(st))
        s1 = Fields(prog, AGENT, r.self_now(st))
        polls = [e for e in tr if e[0] == "reqpoll"]
        req_ev = [e for e in tr if e[0] != "reqpoll" and agent_field_of(prog, e[1]) == "outstanding_requests"]
        other_ev = [e for e in tr if e[0] != "reqpoll" and e not in req_ev]
        ids = {}
        for e in polls:
            t = e[4]
            if isinstance(t, Struct) and isinstance(t.get(0), Num):
                ids["K[%r]" % (st.sys.reduce(t.get(0).e),)] = t
        # invariant of the map (established by send, kept by handle_stun): a request is stored under its own transaction id,
        # so a request the iteration yielded is found under that id
        if any(e[0] == "lookup" and e[2] in ids and e[3] is False for e in req_ev):
            skipped += 1
            continue
        n += 1
        out = variant_of(prog, ret)
        outcomes.add(out)
        payload = ret.v[next(iter(ret.v))].get(0) if isinstance(ret, Enum) and len(ret.v) == 1 and ret.v[next(iter(ret.v))].f else None
        mutated = [e for e in req_ev if e[0] not in ("lookup", "iterate")]
        last = polls[-1] if polls else None
        problems = []
        decisive = [e for e in polls if e[1] != "WaitUntil"]
        if out in ("TransactionTimedOut", "TransactionCancelled"):
            want = "TimedOut" if out == "TransactionTimedOut" else "Cancelled"
            if not decisive or decisive[0][1] != want:
                problems.append("%s is reported although the first decisive per-request outcome is %s" % (out, decisive[0][1] if decisive else "none"))
            else:
                t = decisive[0][4]
                if not (isinstance(payload, Struct) and isinstance(t, Struct) and same_value(st, payload, t)):
                    problems.append("the id reported (%r) is not that request's (%r)" % (payload, t))
                kr = "K[%r]" % (st.sys.reduce(t.get(0).e),) if isinstance(t, Struct) and isinstance(t.get(0), Num) else None
                if [(e[0], e[2], e[3]) for e in mutated] != [("remove", kr, True)]:
                    problems.append("the map is not changed by exactly one removal of that request: %r" % ([e[:4] for e in mutated],))
        elif out == "SendData":
            if not decisive or decisive[0][1] != "SendData":
                problems.append("SendData is returned although the first decisive per-request outcome is %s" % (decisive[0][1] if decisive else "none"))
            else:
                tx = decisive[0][3]
                if not (isinstance(payload, Struct) and isinstance(tx, Struct) and same_value(st, payload, tx)):
                    problems.append("the Transmit returned (%r) is not the one the request produced (%r)" % (payload, tx))
            if mutated:
                problems.append("a transmission changes the transaction map: %r" % ([e[:4] for e in mutated],))
        elif out == "WaitUntil":
            if decisive:
                problems.append("WaitUntil is answered although a request reported %s" % decisive[0][1])
            waits = [e[3] for e in polls if e[1] == "WaitUntil"]
            if waits and not any(same_value(st, payload, w) for w in waits):
                problems.append("the instant %r is not a wake-up reported by a request (%r)" % (payload, waits))
            elif len(waits) >= 2:
                # the earliest: the decisions taken on this path must entail payload <= every reported wake-up
                n_min += 1
                for w in waits:
                    if not instant_le(st, r.pc(st), payload, w):
                        problems.append("the instant answered is not shown to be the earliest: nothing on this path orders it before %r" % (w,))
            if mutated:
                problems.append("waiting changes the transaction map: %r" % ([e[:4] for e in mutated],))
        else:
            problems.append("unknown outcome")
        now = st.cells.get(r.it.cell_of(r.fr, arg["now"])) if "now" in arg else None
        for e in polls:
            if len(e) > 5 and now is not None and not same_value(st, e[5], now):
                problems.append("a request is polled with the instant %r, not the `now` the caller gave (instant provenance)" % (e[5],))
        if len(decisive) > 1:
            problems.append("requests are polled after a decisive outcome: %r" % ([e[1] for e in polls],))
        if other_ev:
            problems.append("touches other containers: %r" % ([e[:3] for e in other_ev],))
        changed = [f for f in s0.names if f not in ("outstanding_requests",) and not unchanged(st, s0[f], s1[f])]
        if changed:
            problems.append("changes agent fields %s" % changed)
        chk.ob(rule, "%s|%s|after %s" % (out, mode.split(" (")[0], ",".join(e[1] for e in polls) or "no request"), not problems, body.loc(), detail="; ".join(sorted(set(problems))),
               how="E2 return state: per-request outcomes in order, net map effect, returned value")
    chk.floor(rule + "-rows", n, 30)
    chk.floor(rule + "-two-wake-up-rows", n_min, 2)
    chk.ob(rule, "all four outcomes are produced", outcomes >= {"TransactionTimedOut", "TransactionCancelled", "SendData", "WaitUntil"}, body.loc(), detail=repr(outcomes))
    chk.note("agent-poll: %d return states are unreachable under the map invariant key = state.transaction_id and were skipped" % skipped) if hasattr(chk, "note") else None


# ------------------------------------------------------------------------------------------------
# the request handles: cancel, cancel_retransmissions, configure_timeout, peer_address, lookups

RMUT = A + "StunRequestMut::<'a>::"
RREF = A + "StunRequest::<'a>::"


def slot_of(st):
    """(key, entry value, current value) of the map slot a path looked at (None when it looked at none)"""
    for c_, v in st.cells.items():
        if c_.startswith("ghost:slot0:"):
            rest = c_[len("ghost:slot0:"):]
            ref = st.cells.get("ghost:slotcell:" + rest)
            cur = st.cells.get(ref.cell) if isinstance(ref, Ref) else None
            return rest.rsplit(":", 1)[1], v, cur
    return None


def handle_fn(prog, chk, rule, key, writes, result=None):
    """one handle method: which key it looks up, what it changes in the request found, what it returns.
    writes: {field: required final value (True/False/'any'/callable(st, slot0, value) -> problem or None)}"""
    body = prog.bodies.get(key)
    short = key.rsplit("::", 1)[-1]
    if body is None:
        chk.fail(rule, short + "|missing", detail="no body " + key)
        return
    r = Run(prog, key)
    if r.error or not r.results:
        chk.fail(rule, short + "|analysis", detail=r.error or "no return state")
        return
    seen = set()
    for st, ret in r.results:
        tr = r.trace(st)
        me = Fields(prog, key.rsplit("::", 1)[0].replace("::<'a>", ""), r.self_before(st))
        tid = me["transaction_id"]
        want_key = "K[%r]" % (st.sys.reduce(tid.get(0).e),) if isinstance(tid, Struct) and isinstance(tid.get(0), Num) else None
        req_ev = [e for e in tr if str(e[1]).endswith(".%d" % field_index(prog, AGENT, "outstanding_requests"))]
        other = [e for e in tr if e not in req_ev]
        P = next((e[3] for e in req_ev if e[0] == "lookup"), None)
        seen.add(P)
        problems = []
        if [e for e in req_ev if e[0] not in ("lookup",)]:
            problems.append("changes the transaction map itself: %r" % ([e[:3] for e in req_ev],))
        if any(e[2] != want_key for e in req_ev):
            problems.append("looks at key %r, not the handle's transaction id %s" % ([e[2] for e in req_ev], want_key))
        if other:
            problems.append("touches other containers: %r" % ([e[:3] for e in other],))
        sl = slot_of(st)
        if P is True and sl is not None:
            s0, s1 = Fields(prog, REQ, sl[1]), Fields(prog, REQ, sl[2])
            for f in s0.names:
                if f in writes:
                    w = writes[f]
                    if w in (True, False):
                        if bool_of(st, s1[f]) is not w:
                            problems.append("%s is %r, not %s" % (f, s1[f], w))
                    elif callable(w):
                        pr = w(st, s0, s1[f])
                        if pr:
                            problems.append(pr)
                elif not unchanged(st, s0[f], s1[f]):
                    problems.append("%s is changed (%r -> %r)" % (f, s0[f], s1[f]))
            if result is not None:
                pr = result(st, s0, ret)
                if pr:
                    problems.append(pr)
        elif P is True and (writes or result):
            problems.append("the request found is not accessed")
        chk.ob(rule, "%s|%s" % (short, {True: "outstanding", False: "not outstanding", None: "no lookup"}[P]), not problems, body.loc(),
               detail="; ".join(problems), how="E2 return state: slot of the transaction map before/after")
    return seen


def handles(prog, chk, rule="request-handles", which=("cancel", "cancel_retransmissions", "configure_timeout", "peer_address")):
    if "cancel" in which:
        seen = handle_fn(prog, chk, rule, RMUT + "cancel", {"send_cancelled": True, "recv_cancelled": True})
        chk.ob(rule, "cancel|both cases analysed", seen == {True, False}, detail=repr(seen))
    if "cancel_retransmissions" in which:
        seen = handle_fn(prog, chk, rule, RMUT + "cancel_retransmissions", {"send_cancelled": True})
        chk.ob(rule, "cancel_retransmissions|both cases analysed", seen == {True, False}, detail=repr(seen))
    if "configure_timeout" in which:
        def tcp_empty(st, s0, v):
            tr = s0["transport"]
            if isinstance(tr, Enum) and len(tr.v) == 1 and prog.adts[tr.adt]["variants"][next(iter(tr.v))]["name"] == "Tcp":
                if not (isinstance(v, Seq) and st.sys.const_value(v.len) == 0):
                    return "a TCP request gets retransmission intervals (%r)" % (v,)
            return None
        seen = handle_fn(prog, chk, rule, RMUT + "configure_timeout", {"timeouts_ms": tcp_empty, "last_retransmit_timeout_ms": "any"})
        chk.ob(rule, "configure_timeout|both cases analysed", seen == {True, False}, detail=repr(seen))
    if "peer_address" in which:
        def is_to(st, s0, ret):
            return None if same_value(st, ret, s0["to"]) else "returns %r, not the request's destination %r" % (ret, s0["to"])
        for k_ in (RMUT + "peer_address", RREF + "peer_address"):
            handle_fn(prog, chk, rule, k_, {}, result=is_to)



def schedule_formula(prog, chk, rule="schedule-formula", n=10):
    """configure_timeout(initial_rto, retransmits, last): the interval after transmission i is initial_rto * 2^i (RFC 8489
    section 6.2.1 with a configured RTO).  The closure the function maps (UDP: one interval per retransmission) or folds (TCP:
    their sum) over the index range is evaluated in context for the constant indices 0..n with durations as uninterpreted
    terms: a result `initial_rto * k` (through `*`, saturating_mul, a helper, a shift or pow for the factor - whatever
    computes it) is compared with k = 2^i.  Only positive evidence is a violation; an interval the analysis cannot read as
    `initial_rto * constant` is listed as not decided."""
    key = RMUT + "configure_timeout"
    body = prog.bodies.get(key)
    if body is None:
        return
    arg = {body.locals[i]["name"]: i for i in range(1, body.arg_count + 1)}
    probe = {"n": n, "out": [], "terms": {}}
    cellname = {}

    def setup(run, st):
        run.it.range_probe = probe
        cellname["rto"] = run.it.cell_of(run.fr, arg.get("initial_rto", 2))
    r = Run(prog, key, setup=setup)
    decided, undecided = [], []
    for op, i, where, res in probe["out"]:
        label = "%s interval %d" % ("UDP" if op == "map" else "TCP sum,", i)
        if not res:
            undecided.append(label + " (closure not evaluated)")
            continue
        for st, v in res:
            if st.sys.bottom or not st.sys.feasible():
                continue
            rto = st.cells.get(cellname["rto"])
            t = None
            if op == "map" and isinstance(v, Num):
                e = st.sys.reduce(v.e)
                names = [x for x in e.t if x in probe["terms"]]
                if len(e.t) == 1 and names and e.t[names[0]] == 1 and e.c == 0:
                    t = probe["terms"][names[0]]
            elif op == "fold" and isinstance(v, Term) and v.op == "add" and len(v.a) == 2:
                accs = [x for x in v.a if isinstance(x, Term) and x.op == "in" and x.a == ("acc",)]
                rest = [x for x in v.a if x not in accs]
                if len(accs) == 1 and len(rest) == 1:
                    t = rest[0]
            k = None
            if isinstance(t, Term) and t.op == "mul" and len(t.a) == 2 and same_value(st, t.a[0], rto) and isinstance(t.a[1], Num):
                k = st.sys.const_value(t.a[1].e)
            if k is None:
                undecided.append("%s (%r)" % (label, t if t is not None else v))
                continue
            decided.append(label)
            chk.ob(rule, "configure_timeout|%s = initial_rto * 2^%d" % (label, i), int(k) == 2 ** i, body.loc(),
                   detail="the interval after transmission %d is initial_rto * %d, not initial_rto * %d" % (i, k, 2 ** i),
                   how="E2: the per-index closure evaluated in context for a constant index, durations as uninterpreted terms")
    chk.analysed["schedule_formula_decided"] = sorted(set(decided))
    chk.analysed["schedule_formula_undecided"] = sorted(set(undecided))[:12]
    chk.counts["schedule_formula_decided"] = len(set(decided))


def membership(prog, chk, rule, key, container, argname, some=None):
    """a query method: answers exactly whether `argname` is in `container`, changing nothing"""
    body = prog.bodies.get(key)
    short = key.rsplit("::", 1)[-1]
    if body is None:
        chk.fail(rule, short + "|missing", detail="no body " + key)
        return
    arg = {body.locals[i]["name"]: i for i in range(1, body.arg_count + 1)}
    r = Run(prog, key)
    if r.error or not r.results:
        chk.fail(rule, short + "|analysis", detail=r.error or "no return state")
        return
    seen = set()
    for st, ret in r.results:
        tr = r.trace(st)
        av = st.cells.get(r.it.cell_of(r.fr, arg[argname]))
        want_key = "K[%r]" % (st.sys.reduce(av.get(0).e),) if isinstance(av, Struct) and isinstance(av.get(0), Num) else "K[%r]" % (av,)
        ci = field_index(prog, AGENT, container)
        ev = [e for e in tr if str(e[1]).endswith(".%d" % ci)]
        P = next((e[3] for e in ev if e[0] == "lookup"), None)
        seen.add(P)
        problems = []
        if [e for e in tr if e[0] != "lookup"]:
            problems.append("changes a container: %r" % ([e[:3] for e in tr if e[0] != "lookup"],))
        if [e for e in tr if e not in ev] or any(e[2] != want_key for e in ev):
            problems.append("consults %r, not %s of %s" % ([e[1:3] for e in tr], want_key, container))
        ans = bool_of(st, ret)
        if ans is None and isinstance(ret, Enum):
            ans = {"Some": True, "None": False}.get(variant_of(prog, ret))
        if P is None or ans is not P:
            problems.append("answers %r where membership is %r" % (ret, P))
        if some is not None and P is True and ans is True:
            pr = some(st, r, ret, av)
            if pr:
                problems.append(pr)
        s0, s1 = r.self_before(st), r.self_now(st)
        if isinstance(s0, Struct) and not unchanged(st, s0, s1):
            problems.append("changes the agent")
        chk.ob(rule, "%s|%s" % (short, {True: "member", False: "not member", None: "no lookup"}[P]), not problems, body.loc(), detail="; ".join(problems),
               how="E2 return state: the one membership question asked and the answer returned")
    chk.ob(rule, "%s|both answers analysed" % short, seen == {True, False}, body.loc(), detail=repr(seen))


def handle_lookups(prog, chk, rule="request-lookup"):
    def handle_for(st, r, ret, av):
        h = ret.v[1].get(0) if isinstance(ret, Enum) and 1 in ret.v else None
        if not isinstance(h, Struct):
            return "no handle returned"
        ag, tid = h.get(0), h.get(1)
        if not (isinstance(ag, Ref) and ag.cell == r.self_cell and not ag.path):
            return "the handle's agent %r is not this agent" % (ag,)
        if not same_value(st, tid, av):
            return "the handle's transaction id %r is not the one asked for %r" % (tid, av)
        return None
    membership(prog, chk, rule, AGENT + "::request_transaction", "outstanding_requests", "transaction_id", some=handle_for)
    membership(prog, chk, rule, AGENT + "::mut_request_transaction", "outstanding_requests", "transaction_id", some=handle_for)


# ------------------------------------------------------------------------------------------------
# plain transmissions: StunAgent::send_data and Transmit::into_owned

def data_bytes(d):
    """the byte sequence inside a Data / DataSlice / DataOwned value"""
    n = 0
    while n < 6:
        if isinstance(d, Enum) and len(d.v) == 1:
            d = d.v[next(iter(d.v))]
        elif isinstance(d, Struct) and len(d.f) == 1:
            d = next(iter(d.f.values()))
        else:
            break
        n += 1
    return d


def plain_transmit(prog, chk, rule="provenance"):
    key = AGENT + "::send_data"
    body = prog.bodies[key]
    arg = {body.locals[i]["name"]: i for i in range(1, body.arg_count + 1)}
    n = 0
    for tv in ("Udp", "Tcp"):
        def setup(run, st, tv=tv):
            pin_variant(prog, st, run.self_cell, AGENT, "transport", tv)
            st.cells["ghost:self0"] = st.cells[run.self_cell]
            bc = run.it.cell_of(run.fr, arg["bytes"])
            bv = st.cells.get(bc)
            if isinstance(bv, Seq):
                st.cells[bc] = Seq(bv.len, bv.elem, bv.items, ("bytes", Lin.const(0)), None)
        r = Run(prog, key, setup=setup)
        if r.error or not r.results:
            chk.fail(rule, "StunAgent::send_data|analysis", detail=r.error or "no return state")
            return
        for st, ret in r.results:
            n += 1
            s0 = Fields(prog, AGENT, r.self_before(st))
            t = Fields(prog, A + "Transmit", ret)
            d = data_bytes(t["data"])
            bv = st.cells.get(r.it.cell_of(r.fr, arg["bytes"]))
            to = st.cells.get(r.it.cell_of(r.fr, arg["to"]))
            problems = []
            if not (isinstance(d, Seq) and isinstance(bv, Seq) and d.content() == ("bytes", Lin.const(0)) and st.sys.entails_eq(d.len - bv.len)):
                problems.append("data %r is not the bytes given %r" % (d, bv))
            if not same_value(st, t["transport"], s0["transport"]):
                problems.append("transport %r is not the agent's" % (t["transport"],))
            if not same_value(st, t["from"], s0["local_addr"]):
                problems.append("from %r is not the agent's local address" % (t["from"],))
            if not same_value(st, t["to"], to):
                problems.append("to %r is not the destination given" % (t["to"],))
            if r.trace(st):
                problems.append("touches a container: %r" % ([e[:3] for e in r.trace(st)],))
            chk.ob(rule, "StunAgent::send_data|%s" % tv, not problems, body.loc(), detail="; ".join(problems), how="E2 return state")
    chk.floor(rule + "-send_data-states", n, 2)
    # Transmit::into_owned keeps every field, for borrowed and owned data alike
    key = A + "Transmit::<'a>::into_owned"
    body = prog.bodies[key]
    n = 0
    for tv in ("Udp", "Tcp"):
        def setup2(run, st, tv=tv):
            c1 = run.it.cell_of(run.fr, 1)
            tx = st.cells.get(c1)
            i = field_index(prog, A + "Transmit", "transport")
            if isinstance(tx, Struct) and isinstance(tx.get(i), Enum):
                a = prog.adts[tx.get(i).adt]
                tx = tx.with_field(i, tx.get(i).only([v["name"] for v in a["variants"]].index(tv)))
            j = field_index(prog, A + "Transmit", "data")
            d = tx.get(j) if isinstance(tx, Struct) else None
            if isinstance(d, Enum):
                # both representations carry the same identified content
                vs = {}
                shared = None
                for k_, pl in d.v.items():
                    q = pl
                    path = []
                    while isinstance(q, Struct) and len(q.f) == 1:
                        path.append(next(iter(q.f)))
                        q = q.f[path[-1]]
                    if isinstance(q, Seq):
                        shared = shared or q.len          # one payload, whichever representation holds it
                        q = Seq(shared, q.elem, q.items, None, ("payload", Lin.const(0)))
                        for p_ in reversed(path):
                            q = Struct({p_: q})
                        vs[k_] = q
                    else:
                        vs[k_] = pl
                tx = tx.with_field(j, Enum(d.adt, vs))
            st.cells[c1] = tx
            st.cells["ghost:arg0"] = tx
        r = Run(prog, key, setup=setup2)
        if r.error or not r.results:
            chk.fail(rule, "Transmit::into_owned|analysis", detail=r.error or "no return state")
            return
        for st, ret in r.results:
            n += 1
            t0 = Fields(prog, A + "Transmit", st.cells.get("ghost:arg0"))
            t1 = Fields(prog, A + "Transmit", ret)
            d = data_bytes(t1["data"])
            problems = []
            if not (isinstance(d, Seq) and d.content() == ("payload", Lin.const(0))):
                problems.append("data %r is not the payload it was given" % (d,))
            else:
                d0 = t0["data"]
                lens = [data_bytes(Enum(d0.adt, {k_: pl})) for k_, pl in d0.v.items()] if isinstance(d0, Enum) else []
                if not any(isinstance(x, Seq) and st.sys.entails_eq(x.len - d.len) for x in lens):
                    problems.append("length of the data changes")
            if isinstance(t1["data"], Enum) and variant_of(prog, t1["data"]) != "Owned":
                problems.append("the result is not owned")
            for f in ("transport", "from", "to"):
                if not same_value(st, t0[f], t1[f]):
                    problems.append("%s changes (%r -> %r)" % (f, t0[f], t1[f]))
            chk.ob(rule, "Transmit::into_owned|%s" % tv, not problems, body.loc(), detail="; ".join(problems), how="E2 return state")
    chk.floor(rule + "-into_owned-states", n, 2)


# ------------------------------------------------------------------------------------------------
# who may touch a field: by function and by kind of access (read / write); what each writer does with it is decided
# by that function's table above, not by the shape of the access

READ_HOWS = {"ref", "copy", "discr", "len"}


def touchers(prog, chk, rule, adt_variant, field, readers, writers, floor):
    from e1 import field_accesses
    accs = field_accesses(prog, adt_variant, field)
    # private helpers: a non-exported function all of whose callers are allowed is allowed as its callers are (its
    # effects are part of their tables, which analyse through it)
    callers = {}
    for k_, edges in prog.call_graph().items():
        kk = re.sub(r"::\{closure#\d+\}", "", k_)
        for bi, t, tg, cb in edges:
            for x in tg:
                if x[0] == "local":
                    callers.setdefault(re.sub(r"::\{closure#\d+\}", "", x[1]), set()).add(kk)

    def allowed(fn, pats, depth=0):
        if any(re.search(p, fn) for p in pats):
            return True
        info = prog.fns.get(fn) or {}
        cs = callers.get(fn, set()) - {fn}
        if depth < 3 and cs and info.get("exported") is False and info.get("pub") is False:
            return all(allowed(c_, pats, depth + 1) for c_ in cs)
        return False
    seen = {}
    for a in accs:
        fn = re.sub(r"::\{closure#\d+\}", "", a["body"])
        kind = "read" if a["how"] in READ_HOWS else "write"
        seen.setdefault((fn, kind), a)
    for (fn, kind), a in sorted(seen.items()):
        if re.match(r"^<.* as std::fmt::Debug>::fmt$", fn) and kind == "read":
            ok = True
        elif kind == "read":
            ok = allowed(fn, list(readers) + list(writers))
        else:
            ok = allowed(fn, list(writers))
        chk.ob(rule, "%s.%s|%s|%s" % (adt_variant.split("::")[-2] if adt_variant.count("::") > 2 else adt_variant, field, fn.split("::", 2)[-1], kind), ok, a["where"],
               detail="%s of %s in %s: this function is not among the field's %s" % (kind, field, fn, "writers" if kind == "write" else "readers"),
               how="every place projecting through the field, by enclosing function")
    chk.floor(rule + "-%s-sites" % field, len(accs), floor)
    return accs
