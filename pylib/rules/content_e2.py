"""Which bytes reach which sink (E2, content-tracking mode): the key derivation, the MAC helpers, the verification and the
sealing of messages decided from the abstract interpreter's return states.  Byte sequences carry a description of their
content (windows of identified inputs, concatenations, patches); hash / MAC / CRC objects of the external crates are
accumulators of such streams; comparisons fork on the verdict and leave an event on the path.  Independent of how the
source arranges its statements, helpers and loops."""
import re
from absint.lin import Lin
from absint.values import *
from absint.models_content import content_segments, segments, show_segments
from rules.agent_e2 import Run, variant_of, bool_of

M_ = "stun_types::message::"
KEYFN = M_ + "MessageIntegrityCredentials::make_hmac_key"
MI = "stun_types::attribute::integrity::MessageIntegrity"
M2 = "stun_types::attribute::integrity::MessageIntegritySha256"


def whole(st, segs, cid, length=None):
    """the pieces are exactly the whole identified input `cid`"""
    return segs is not None and len(segs) == 1 and segs[0][0] == "win" and segs[0][1] == cid and st.sys.entails_eq(segs[0][2]) and \
        (length is None or st.sys.entails_eq(segs[0][3] - length))


def pieces_are(st, segs, want):
    """want: list of content ids, each taken whole from offset 0 (lengths free), or ('lit', hex)"""
    if segs is None or len(segs) != len(want):
        return False
    for s, w in zip(segs, want):
        if s[0] != "win" or s[1] != w or not st.sys.entails_eq(s[2]):
            return False
    return True


def arg_seq(run, st, body, name):
    for i in range(1, body.arg_count + 1):
        if body.locals[i]["name"] == name:
            v = st.cells.get(run.it.cell_of(run.fr, i))
            n = 0
            while isinstance(v, Ref) and n < 4:
                v = run.it.load(st, v.cell, v.path)
                n += 1
            return v
    return None


def pure_callees(prog, chk, rule, key, what):
    """no ambient state: every external callee reachable from `key` within the workspace is classified pure by E1"""
    import e1
    cg = prog.call_graph()
    seen, todo, bad = {key}, [key], []
    while todo:
        k = todo.pop()
        for bi, t, tg, cb in cg.get(k, []):
            for x in tg:
                if x[0] == "local":
                    if x[1] not in seen and x[1] in prog.bodies:
                        seen.add(x[1])
                        todo.append(x[1])
                else:
                    c_ = e1.classify_ext(x[1])
                    if c_[0] != "pure":
                        bad.append("%s (%s)" % (x[1][:80], c_[0]))
    statics = [k_ for k_ in seen for _, _, s in prog.bodies[k_].iter_stmts() if "'static_ref'" in repr(s) or '"static"' in repr(s)]
    chk.ob(rule, what, not bad and not statics, prog.bodies[key].loc(), detail="callees: %s; statics in %s" % (sorted(set(bad))[:3], statics[:2]),
           how="E1 effect classification over %d workspace functions reachable from it" % len(seen))


# ------------------------------------------------------------------------------------------------ key derivation

def key_material(prog, chk, rule="key-material"):
    body = prog.bodies.get(KEYFN)
    if body is None:
        chk.fail(rule, "make_hmac_key not found")
        return
    pure_callees(prog, chk, rule, KEYFN, "make_hmac_key touches no ambient state (pure callees only, no statics)")
    r = Run(prog, KEYFN, track_content=True)
    if r.error or not r.results:
        chk.fail(rule, "make_hmac_key|analysis", detail=r.error or "no return state")
        return
    seen = set()
    for st, ret in r.results:
        me = r.self_before(st)
        var = variant_of(prog, me) if isinstance(me, Enum) else None
        seen.add(var)
        segs = content_segments(st, ret)
        if var == "ShortTerm":
            ok = pieces_are(st, segs, ["in:self_ShortTerm_0_password"]) and isinstance(ret, Seq)
            if ok:
                pw = me.v[next(iter(me.v))].get(0)
                pw = pw.get(field_of(prog, pw, "password")) if isinstance(pw, Struct) else None
                ok = isinstance(pw, Seq) and st.sys.entails_eq(ret.len - pw.len)
            chk.ob(rule, "short-term key = the password bytes", ok, body.loc(), detail="key content: %s" % show_segments(segs), how="E2 return state, content of the value returned")
        elif var == "LongTerm":
            ok = False
            detail = "key content: %s" % show_segments(segs)
            if segs is not None and len(segs) == 1 and segs[0][0] == "win" and str(segs[0][1]).startswith("out:") and st.sys.entails_eq(segs[0][2]) and st.sys.entails_eq(segs[0][3] - 16):
                d = r.it.contents.get(segs[0][1])
                if d and d[0] == "digest" and d[1] == "md5":
                    stream = content_segments(st, d[3])
                    detail = "MD5 over %s" % show_segments(stream)
                    ok = pieces_are(st, stream, ["in:self_LongTerm_0_username", "lit:3a", "in:self_LongTerm_0_realm", "lit:3a", "in:self_LongTerm_0_password"])
                    if ok:
                        # every piece is the whole field
                        lt = me.v[next(iter(me.v))].get(0)
                        for s_, fname in ((stream[0], "username"), (stream[2], "realm"), (stream[4], "password")):
                            fv = lt.get(field_of(prog, lt, fname, "stun_types::message::LongTermCredentials")) if isinstance(lt, Struct) else None
                            ok = ok and isinstance(fv, Seq) and st.sys.entails_eq(s_[3] - fv.len)
                        ok = ok and st.sys.entails_eq(stream[1][3] - 1) and st.sys.entails_eq(stream[3][3] - 1)
            chk.ob(rule, "long-term key = MD5(username ':' realm ':' password)", ok, body.loc(), detail=detail, how="E2 return state: the digest's accumulated stream, piece by piece")
        else:
            chk.fail(rule, "make_hmac_key|undecided credential kind", body.loc(), detail=repr(me)[:200])
    chk.ob(rule, "both credential kinds analysed", seen >= {"ShortTerm", "LongTerm"}, body.loc(), detail=repr(seen))


def field_of(prog, struct_val, name, adt=None):
    """index of field `name` (by the ADT when given, else by position lookup in the known credential structs)"""
    for path in ([adt] if adt else ["stun_types::message::ShortTermCredentials", "stun_types::message::LongTermCredentials"]):
        a = prog.adts.get(path)
        if a:
            names = [f["name"] for f in a["variants"][0]["fields"]]
            if name in names and (adt or len(names) == len(struct_val.f)):
                return names.index(name)
    return 0


# ------------------------------------------------------------------------------------------------ MAC helpers

def mac_helpers(prog, chk, rule="tag-comparison"):
    for ty, algo, taglen in ((MI, "hmac-sha1", 20), (M2, "hmac-sha256", None)):
        short = ty.rsplit("::", 1)[1]
        # ---- verify(data, key, expected)
        key = ty + "::verify"
        body = prog.bodies.get(key)
        if body is None:
            chk.fail(rule, "%s::verify not found" % short)
            continue
        r = Run(prog, key, track_content=True)
        if r.error or not r.results:
            chk.fail(rule, "%s::verify|analysis" % short, detail=r.error or "no return state")
            continue
        n_ok = 0
        for st, ret in r.results:
            evs = [e for e in r.trace(st) if e[0] == "mac-verify"]
            res = variant_of(prog, ret)
            problems = []
            if res == "Ok":
                n_ok += 1
                if len(evs) != 1 or evs[0][6] is not True:
                    problems.append("Ok is returned without exactly one MAC comparison that succeeded (%d comparison(s))" % len(evs))
            if res == "Err" and evs and evs[-1][6] is True and len(evs) == 1:
                problems.append("the comparison succeeded but an error is returned")
            for e in evs:
                if e[1] != algo:
                    problems.append("the MAC is %s, not %s" % (e[1], algo))
                d, k, t = arg_seq(r, st, body, "data"), arg_seq(r, st, body, "key"), arg_seq(r, st, body, "expected")
                if not whole(st, content_segments(st, e[2]), "in:key", k.len if isinstance(k, Seq) else None):
                    problems.append("the MAC key is %s, not the key given" % show_segments(content_segments(st, e[2])))
                if not whole(st, content_segments(st, e[3]), "in:data", d.len if isinstance(d, Seq) else None):
                    problems.append("the MAC input is %s, not the data given" % show_segments(content_segments(st, e[3])))
                if not whole(st, content_segments(st, e[4]), "in:expected", t.len if isinstance(t, Seq) else None):
                    problems.append("the tag compared is %s, not the whole expected tag" % show_segments(content_segments(st, e[4])))
                if e[5] not in ("verify_slice", "verify") and not (e[5] == "verify_truncated_left" and algo == "hmac-sha256"):
                    problems.append("the comparison used is %s" % e[5])
            chk.ob(rule, "%s::verify|%s" % (short, res), not problems, body.loc(), detail="; ".join(problems), how="E2 return state: the MAC comparison event on the path")
        chk.floor(rule + "-%s-verify-ok-states" % short, n_ok, 1)
        # ---- compute(data, key)
        key = ty + "::compute"
        body = prog.bodies.get(key)
        if body is None:
            chk.fail(rule, "%s::compute not found" % short)
            continue
        r = Run(prog, key, track_content=True)
        if r.error or not r.results:
            chk.fail(rule, "%s::compute|analysis" % short, detail=r.error or "no return state")
            continue
        n_ok = 0
        for st, ret in r.results:
            res = variant_of(prog, ret)
            if res != "Ok":
                continue
            n_ok += 1
            out = ret.v[0].get(0)
            segs = content_segments(st, out)
            problems = []
            d = r.it.contents.get(segs[0][1]) if segs and len(segs) == 1 and segs[0][0] == "win" else None
            if not (d and d[0] == "digest" and st.sys.entails_eq(segs[0][2])):
                problems.append("the value returned (%s) is not the output of a MAC" % show_segments(segs))
            else:
                a_d, a_k = arg_seq(r, st, body, "data"), arg_seq(r, st, body, "key")
                if d[1] != algo:
                    problems.append("the MAC is %s, not %s" % (d[1], algo))
                if not whole(st, content_segments(st, d[2]), "in:key", a_k.len if isinstance(a_k, Seq) else None):
                    problems.append("the MAC key is %s" % show_segments(content_segments(st, d[2])))
                if not whole(st, content_segments(st, d[3]), "in:data", a_d.len if isinstance(a_d, Seq) else None):
                    problems.append("the MAC input is %s" % show_segments(content_segments(st, d[3])))
                if isinstance(out, Seq) and not st.sys.entails_eq(out.len - segs[0][3]):
                    problems.append("the output is truncated or padded")
            chk.ob(rule, "%s::compute|Ok" % short, not problems, body.loc(), detail="; ".join(problems), how="E2 return state: the digest output returned")
        chk.floor(rule + "-%s-compute-ok-states" % short, n_ok, 1)
