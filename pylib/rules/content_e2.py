"""Which bytes reach which sink (E2, content-tracking mode): the key derivation, the MAC helpers, the verification and the
sealing of messages decided from the abstract interpreter's return states.  Byte sequences carry a description of their
content (windows of identified inputs, concatenations, patches); hash / MAC / CRC objects of the external crates are
accumulators of such streams; comparisons fork on the verdict and leave an event on the path.  Independent of how the
source arranges its statements, helpers and loops."""
import re
from absint.lin import Lin
from absint.values import *
from absint.models_content import content_segments, segments, show_segments, use_registry
from rules.agent_e2 import Run, variant_of, bool_of

M_ = "stun_types::message::"
KEYFN = M_ + "MessageIntegrityCredentials::make_hmac_key"
MI = "stun_types::attribute::integrity::MessageIntegrity"
M2 = "stun_types::attribute::integrity::MessageIntegritySha256"


def whole(st, segs, cid, length=None):
    """the pieces are exactly the whole identified input `cid`"""
    return segs is not None and len(segs) == 1 and segs[0][0] == "win" and segs[0][1] == cid and st.sys.entails_eq(segs[0][2]) and \
        (length is None or st.sys.entails_eq(segs[0][3] - length))


def pieces_are(st, segs, want):
    """want: list of content ids, each taken whole from offset 0 (lengths free), or ('lit', hex)"""
    if segs is None or len(segs) != len(want):
        return False
    for s, w in zip(segs, want):
        if s[0] != "win" or s[1] != w or not st.sys.entails_eq(s[2]):
            return False
    return True


def arg_seq(run, st, body, name):
    for i in range(1, body.arg_count + 1):
        if body.locals[i]["name"] == name:
            v = st.cells.get(run.it.cell_of(run.fr, i))
            n = 0
            while isinstance(v, Ref) and n < 4:
                v = run.it.load(st, v.cell, v.path)
                n += 1
            return v
    return None


def pure_callees(prog, chk, rule, key, what):
    """no ambient state: every external callee reachable from `key` within the workspace is classified pure by E1"""
    import e1
    cg = prog.call_graph()
    seen, todo, bad = {key}, [key], []
    while todo:
        k = todo.pop()
        for bi, t, tg, cb in cg.get(k, []):
            for x in tg:
                if x[0] == "local":
                    if x[1] not in seen and x[1] in prog.bodies:
                        seen.add(x[1])
                        todo.append(x[1])
                else:
                    c_ = e1.classify_ext(x[1])
                    if c_[0] != "pure":
                        bad.append("%s (%s)" % (x[1][:80], c_[0]))
    statics = [k_ for k_ in seen for _, _, s in prog.bodies[k_].iter_stmts() if "'static_ref'" in repr(s) or '"static"' in repr(s)]
    chk.ob(rule, what, not bad and not statics, prog.bodies[key].loc(), detail="callees: %s; statics in %s" % (sorted(set(bad))[:3], statics[:2]),
           how="E1 effect classification over %d workspace functions reachable from it" % len(seen))


# ------------------------------------------------------------------------------------------------ key derivation

def key_material(prog, chk, rule="key-material"):
    body = prog.bodies.get(KEYFN)
    if body is None:
        chk.fail(rule, "make_hmac_key not found")
        return
    pure_callees(prog, chk, rule, KEYFN, "make_hmac_key touches no ambient state (pure callees only, no statics)")
    r = Run(prog, KEYFN, track_content=True)
    if r.error or not r.results:
        chk.fail(rule, "make_hmac_key|analysis", detail=r.error or "no return state")
        return
    seen = set()
    for st, ret in r.results:
        me = r.self_before(st)
        var = variant_of(prog, me) if isinstance(me, Enum) else None
        seen.add(var)
        segs = content_segments(st, ret)
        if var == "ShortTerm":
            ok = pieces_are(st, segs, ["in:self_ShortTerm_0_password"]) and isinstance(ret, Seq)
            if ok:
                pw = me.v[next(iter(me.v))].get(0)
                pw = pw.get(field_of(prog, pw, "password")) if isinstance(pw, Struct) else None
                ok = isinstance(pw, Seq) and st.sys.entails_eq(ret.len - pw.len)
            chk.ob(rule, "short-term key = the password bytes", ok, body.loc(), detail="key content: %s" % show_segments(segs), how="E2 return state, content of the value returned")
        elif var == "LongTerm":
            ok = False
            detail = "key content: %s" % show_segments(segs)
            if segs is not None and len(segs) == 1 and segs[0][0] == "win" and str(segs[0][1]).startswith("out:") and st.sys.entails_eq(segs[0][2]) and st.sys.entails_eq(segs[0][3] - 16):
                d = r.it.contents.get(segs[0][1])
                if d and d[0] == "digest" and d[1] == "md5":
                    stream = content_segments(st, d[3])
                    detail = "MD5 over %s" % show_segments(stream)
                    ok = pieces_are(st, stream, ["in:self_LongTerm_0_username", "lit:3a", "in:self_LongTerm_0_realm", "lit:3a", "in:self_LongTerm_0_password"])
                    if ok:
                        # every piece is the whole field
                        lt = me.v[next(iter(me.v))].get(0)
                        for s_, fname in ((stream[0], "username"), (stream[2], "realm"), (stream[4], "password")):
                            fv = lt.get(field_of(prog, lt, fname, "stun_types::message::LongTermCredentials")) if isinstance(lt, Struct) else None
                            ok = ok and isinstance(fv, Seq) and st.sys.entails_eq(s_[3] - fv.len)
                        ok = ok and st.sys.entails_eq(stream[1][3] - 1) and st.sys.entails_eq(stream[3][3] - 1)
            chk.ob(rule, "long-term key = MD5(username ':' realm ':' password)", ok, body.loc(), detail=detail, how="E2 return state: the digest's accumulated stream, piece by piece")
        else:
            chk.fail(rule, "make_hmac_key|undecided credential kind", body.loc(), detail=repr(me)[:200])
    chk.ob(rule, "both credential kinds analysed", seen >= {"ShortTerm", "LongTerm"}, body.loc(), detail=repr(seen))


def field_of(prog, struct_val, name, adt=None):
    """index of field `name` (by the ADT when given, else by position lookup in the known credential structs)"""
    for path in ([adt] if adt else ["stun_types::message::ShortTermCredentials", "stun_types::message::LongTermCredentials"]):
        a = prog.adts.get(path)
        if a:
            names = [f["name"] for f in a["variants"][0]["fields"]]
            if name in names and (adt or len(names) == len(struct_val.f)):
                return names.index(name)
    return 0


# ------------------------------------------------------------------------------------------------ MAC helpers

def mac_helpers(prog, chk, rule="tag-comparison"):
    for ty, algo, taglen in ((MI, "hmac-sha1", 20), (M2, "hmac-sha256", None)):
        short = ty.rsplit("::", 1)[1]
        # ---- verify(data, key, expected)
        key = ty + "::verify"
        body = prog.bodies.get(key)
        if body is None:
            chk.fail(rule, "%s::verify not found" % short)
            continue
        r = Run(prog, key, track_content=True)
        if r.error or not r.results:
            chk.fail(rule, "%s::verify|analysis" % short, detail=r.error or "no return state")
            continue
        n_ok = 0
        for st, ret in r.results:
            evs = [e for e in r.trace(st) if e[0] == "mac-verify"]
            res = variant_of(prog, ret)
            problems = []
            if res == "Ok":
                n_ok += 1
                if len(evs) != 1 or evs[0][6] is not True:
                    problems.append("Ok is returned without exactly one MAC comparison that succeeded (%d comparison(s))" % len(evs))
            if res == "Err" and evs and evs[-1][6] is True and len(evs) == 1:
                problems.append("the comparison succeeded but an error is returned")
            for e in evs:
                if e[1] != algo:
                    problems.append("the MAC is %s, not %s" % (e[1], algo))
                d, k, t = arg_seq(r, st, body, "data"), arg_seq(r, st, body, "key"), arg_seq(r, st, body, "expected")
                if not whole(st, content_segments(st, e[2]), "in:key", k.len if isinstance(k, Seq) else None):
                    problems.append("the MAC key is %s, not the key given" % show_segments(content_segments(st, e[2])))
                if not whole(st, content_segments(st, e[3]), "in:data", d.len if isinstance(d, Seq) else None):
                    problems.append("the MAC input is %s, not the data given" % show_segments(content_segments(st, e[3])))
                if not whole(st, content_segments(st, e[4]), "in:expected", t.len if isinstance(t, Seq) else None):
                    problems.append("the tag compared is %s, not the whole expected tag" % show_segments(content_segments(st, e[4])))
                if e[5] not in ("verify_slice", "verify") and not (e[5] == "verify_truncated_left" and algo == "hmac-sha256"):
                    problems.append("the comparison used is %s" % e[5])
            chk.ob(rule, "%s::verify|%s" % (short, res), not problems, body.loc(), detail="; ".join(problems), how="E2 return state: the MAC comparison event on the path")
        chk.floor(rule + "-%s-verify-ok-states" % short, n_ok, 1)
        # ---- compute(data, key)
        key = ty + "::compute"
        body = prog.bodies.get(key)
        if body is None:
            chk.fail(rule, "%s::compute not found" % short)
            continue
        r = Run(prog, key, track_content=True)
        if r.error or not r.results:
            chk.fail(rule, "%s::compute|analysis" % short, detail=r.error or "no return state")
            continue
        n_ok = 0
        for st, ret in r.results:
            res = variant_of(prog, ret)
            if res != "Ok":
                continue
            n_ok += 1
            out = ret.v[0].get(0)
            segs = content_segments(st, out)
            problems = []
            d = r.it.contents.get(segs[0][1]) if segs and len(segs) == 1 and segs[0][0] == "win" else None
            if not (d and d[0] == "digest" and st.sys.entails_eq(segs[0][2])):
                problems.append("the value returned (%s) is not the output of a MAC" % show_segments(segs))
            else:
                a_d, a_k = arg_seq(r, st, body, "data"), arg_seq(r, st, body, "key")
                if d[1] != algo:
                    problems.append("the MAC is %s, not %s" % (d[1], algo))
                if not whole(st, content_segments(st, d[2]), "in:key", a_k.len if isinstance(a_k, Seq) else None):
                    problems.append("the MAC key is %s" % show_segments(content_segments(st, d[2])))
                if not whole(st, content_segments(st, d[3]), "in:data", a_d.len if isinstance(a_d, Seq) else None):
                    problems.append("the MAC input is %s" % show_segments(content_segments(st, d[3])))
                if isinstance(out, Seq) and not st.sys.entails_eq(out.len - segs[0][3]):
                    problems.append("the output is truncated or padded")
            chk.ob(rule, "%s::compute|Ok" % short, not problems, body.loc(), detail="; ".join(problems), how="E2 return state: the digest output returned")
        chk.floor(rule + "-%s-compute-ok-states" % short, n_ok, 1)


# ------------------------------------------------------------------------------------------------ validation

VALIDATE = M_ + "Message::<'a>::validate_integrity"
MSGNS = M_ + "Message::<'a>::"
OPTION = "std::option::Option"


def model_raw_attribute(c):
    """summary of Message::raw_attribute(type): None, or the (first) attribute of that type - header consistent with the
    value, the value an identified content `attr:<type>` (that lookups are first-match over the walk is C02/C10)"""
    from absint.interp import event
    t = c.deref(c.args[1])
    while isinstance(t, Struct) and len(t.f) == 1:
        t = t.get(0)
    tv = c.st.sys.const_value(t.e) if isinstance(t, Num) else None
    if tv is None:
        return [(c.st, c.top_ret())]
    s_no, s_yes = c.st.copy(), c.st
    event(s_no, "lookup-attr", tv, False)
    event(s_yes, "lookup-attr", tv, True)
    ln = Lin.var("attrlen_%04x" % tv)
    s_yes.sys.add_range(ln, 0, 65535)
    s_yes.cells["ghost:q:attrlen_%04x" % tv] = Num(ln)
    val = Seq(ln, None, None, None, ("attr:%04x" % tv, Lin.const(0)))
    raw = Struct({0: Struct({0: Struct({0: Num(Lin.const(tv))}), 1: Num(ln)}), 1: Enum("stun_types::data::Data", {0: Struct({0: Struct({0: val})})})})
    return [(s_no, Enum(OPTION, {0: Struct()})), (s_yes, Enum(OPTION, {1: Struct({0: raw})}))]


def model_make_hmac_key(c):
    """summary of make_hmac_key (decided on its own by the key-material rule): the key derived from these credentials"""
    a = c.args[0]
    who = a.cell.rsplit(":", 1)[-1] if isinstance(a, Ref) else "?"
    n = c.it.fresh_num(c.st, 0, None, "keylen")
    return [(c.st, Seq(n.e, None, None, None, ("key(%s)" % who, Lin.const(0))))]


def read_var(run, st, base, off, nbytes):
    """the value of the latest big-endian read of `nbytes` at `off` of content `base` on this path (None if no read site's
    latest read was there)"""
    for c_, g in st.cells.items():
        if c_.startswith("ghost:rd:") and c_.endswith(":%s:%d" % (base, nbytes)) and isinstance(g, Struct) and isinstance(g.get(1), Num) \
                and isinstance(g.get(0), Num) and st.sys.entails_eq(g.get(1).e - off):
            return g.get(0).e
    return None


def validate_side(prog, chk, rule="validate-side"):
    body = prog.bodies.get(VALIDATE)
    if body is None:
        chk.fail(rule, "validate_integrity not found")
        return
    r = Run(prog, VALIDATE, track_content=True, max_parts=4000,
            local_models={MSGNS + "raw_attribute": model_raw_attribute, KEYFN: model_make_hmac_key})
    if r.error or not r.results:
        chk.fail(rule, "validate_integrity|analysis", detail=r.error or "no return state")
        return
    ALG = {"Sha1": ("hmac-sha1", 0x0008), "Sha256": ("hmac-sha256", 0x001C)}
    n_ok = {"Sha1": 0, "Sha256": 0}
    n_missing = 0
    for st, ret in r.results:
        tr = r.trace(st)
        macs = [e for e in tr if e[0] == "mac-verify"]
        looks = {e[1]: e[2] for e in tr if e[0] == "lookup-attr"}
        res = variant_of(prog, ret)
        problems = []
        if res == "Ok":
            algo = variant_of(prog, ret.v[0].get(0))
            if algo not in ALG:
                chk.fail(rule, "validate_integrity|Ok with an undecided algorithm", body.loc(), detail=repr(ret))
                continue
            n_ok[algo] += 1
            mac, ty = ALG[algo]
            if len(macs) != 1 or macs[0][6] is not True:
                problems.append("Ok(%s) without exactly one successful MAC comparison (%d comparison(s), verdicts %r)" % (algo, len(macs), [m[6] for m in macs]))
            # which attribute was chosen
            if algo == "Sha256" and looks.get(0x001C) is not True:
                problems.append("Ok(Sha256) although MESSAGE-INTEGRITY-SHA256 was not found")
            if algo == "Sha1" and not (looks.get(0x0008) is True and looks.get(0x001C) is False):
                problems.append("Ok(Sha1) without MESSAGE-INTEGRITY found and MESSAGE-INTEGRITY-SHA256 absent (lookups %r)" % (looks,))
            for e in macs:
                if e[1] != mac:
                    problems.append("the MAC is %s for %s" % (e[1], algo))
                ks = content_segments(st, e[2])
                if not (ks and len(ks) == 1 and ks[0][0] == "win" and re.match(r"^key\(a\d+\*credentials\)$", str(ks[0][1])) and st.sys.entails_eq(ks[0][2]) and isinstance(e[2], Seq) and st.sys.entails_eq(ks[0][3] - e[2].len)):
                    problems.append("the MAC key is %s, not make_hmac_key(credentials)" % show_segments(ks))
                ss = content_segments(st, e[3])
                okd = False
                if ss and len(ss) == 3 and ss[0][0] == "win" and ss[1][0] == "be" and ss[2][0] == "win" and ss[0][1] == ss[2][1] == "in:self_data" \
                        and st.sys.entails_eq(ss[0][2]) and st.sys.entails_eq(ss[0][3] - 2) and ss[1][1] == 2 and st.sys.entails_eq(ss[2][2] - 4):
                    off = ss[2][3] + 4
                    tyv = read_var(r, st, "in:self_data", off, 2)
                    lnv = read_var(r, st, "in:self_data", off + 2, 2)
                    if tyv is None or not st.sys.entails_eq(tyv - ty):
                        problems.append("the MAC input ends at offset %r, which is not shown to be the start of an attribute of type 0x%04x" % (st.sys.reduce(off), ty))
                    v = ss[1][2]
                    if v is None:
                        problems.append("the length field is rewritten to an unknown value")
                    elif lnv is not None and st.sys.entails_eq(v - off - lnv - 4 + 20):
                        okd = True
                    elif algo == "Sha1" and st.sys.entails_eq(v - off - 24 + 20):
                        okd = True          # MESSAGE-INTEGRITY is 20 bytes (its typed decoder refuses any other length)
                    else:
                        problems.append("the length field is rewritten to %r, not offset + 4 + attribute length - 20" % (st.sys.reduce(v),))
                else:
                    problems.append("the MAC input is %s, not self.data[..offset] with the length field rewritten" % show_segments(ss))
                ts = content_segments(st, e[4])
                if not (ts and len(ts) == 1 and ts[0][0] == "win" and ts[0][1] == "attr:%04x" % ty and st.sys.entails_eq(ts[0][2]) and isinstance(e[4], Seq)
                        and st.sys.entails_eq(ts[0][3] - e[4].len) and st.sys.entails_eq(Lin.var("attrlen_%04x" % ty) - e[4].len)):
                    problems.append("the tag compared is %s, not the whole value of the attribute looked up (attr:%04x)" % (show_segments(ts), ty))
            for e in macs:
                if isinstance(e[4], Seq):
                    tl = e[4].len
                    if algo == "Sha1" and not st.sys.entails_eq(tl - 20):
                        problems.append("the SHA-1 tag compared is not 20 bytes")
                    if algo == "Sha256":
                        red = st.sys.reduce(tl)
                        mult4 = all(k_ % 4 == 0 for k_ in red.t.values()) and red.c % 4 == 0
                        if not (st.sys.entails_ge(tl - 16) and st.sys.entails_ge(Lin.const(32) - tl) and mult4):
                            problems.append("the SHA-256 tag compared (%r bytes) is not limited to 16..=32 bytes in steps of 4" % (red,))
            chk.ob(rule, "validate_integrity|Ok(%s)" % algo, not problems, body.loc(), detail="; ".join(sorted(set(problems))),
                   how="E2 return state: lookups, MAC comparison event (key, input pieces, tag) and the reads that place the offset")
        else:
            err = variant_of(prog, ret.v[1].get(0)) if isinstance(ret, Enum) and 1 in ret.v else None
            if err == "MissingAttribute":
                n_missing += 1
                ok = looks.get(0x0008) is False and looks.get(0x001C) is False and not macs
                chk.ob(rule, "validate_integrity|MissingAttribute only when neither integrity attribute is present", ok, body.loc(), detail="lookups %r" % (looks,), how="E2 return state")
            if macs and macs[-1][6] is True and len(macs) == 1:
                chk.ob(rule, "validate_integrity|a successful comparison is not turned into an error", False, body.loc(), detail="returns %s after the MAC comparison succeeded" % err)
            if not looks.get(0x0008) and not looks.get(0x001C) and 0x0008 in looks and 0x001C in looks and err != "MissingAttribute":
                chk.ob(rule, "validate_integrity|a message without integrity attribute reports MissingAttribute", False, body.loc(), detail="returns %s" % err)
    for a_ in ("Sha1", "Sha256"):
        chk.floor(rule + "-ok-states-" + a_, n_ok[a_], 1)
    chk.floor(rule + "-missing-states", n_missing, 1)


# ------------------------------------------------------------------------------------------------ sealing (build side)

MBNS = M_ + "MessageBuilder::<'a>::"
MBADT = M_ + "MessageBuilder"


def model_build_self(c):
    """summary of MessageBuilder::build (decided by C03): the serialisation of the builder as it stands"""
    n = c.it.fresh_num(c.st, 20, 65555, "built_len")
    return [(c.st, Seq(n.e, None, None, None, ("build(self)", Lin.const(0))))]


def patched_build(st, run, segs, total, extra):
    """pieces == build(self) with the 16-bit length field (bytes 2..4) replaced by its value + extra; -> problem or None"""
    if not (segs and len(segs) == 3 and segs[0][0] == "win" and segs[1][0] == "be" and segs[2][0] == "win" and segs[0][1] == segs[2][1] == "build(self)"
            and st.sys.entails_eq(segs[0][2]) and st.sys.entails_eq(segs[0][3] - 2) and segs[1][1] == 2 and st.sys.entails_eq(segs[2][2] - 4)
            and st.sys.entails_eq(segs[2][3] + 4 - total)):
        return "the input is %s, not build() with the length field rewritten" % show_segments(segs)
    old = read_var(run, st, "build(self)", Lin.const(2), 2)
    v = segs[1][2]
    if old is None or v is None:
        return "the length field is rewritten to %r, not its value + %d" % (st.sys.reduce(v) if v is not None else None, extra)
    if not st.sys.entails_eq(v - old - extra):
        # without overflow checks (release profile) the 16-bit sum wraps: equal modulo 2^16
        d = st.sys.reduce(v - old - extra)
        if not (d.t and all(k_ % 65536 == 0 for k_ in d.t.values()) and d.c % 65536 == 0 and all(re.search(r"_wrap$", x) for x in d.t)):
            return "the length field is rewritten to %r, not its value + %d" % (st.sys.reduce(v), extra)
    return None


def build_len(st):
    for v in st.sys.vars():
        if re.match(r"^t\d+_built_len$", v):
            return Lin.var(v)
    return None


def build_side(prog, chk, rule="build-side"):
    key = MBNS + "add_message_integrity"
    body = prog.bodies.get(key)
    if body is None:
        chk.fail(rule, "add_message_integrity not found")
        return
    arg = {body.locals[i]["name"]: i for i in range(1, body.arg_count + 1)}
    results = []
    for av in ("Sha1", "Sha256"):
        def setup(run, st, av=av):
            c_ = run.it.cell_of(run.fr, arg["algorithm"])
            ev = st.cells.get(c_)
            if isinstance(ev, Enum):
                st.cells[c_] = ev.only([v["name"] for v in prog.adts[ev.adt]["variants"]].index(av))
        r = Run(prog, key, track_content=True, max_parts=4000, setup=setup, local_models={MBNS + "build": model_build_self, KEYFN: model_make_hmac_key})
        if r.error or not r.results:
            chk.fail(rule, "add_message_integrity|analysis", detail=r.error or "no return state")
            return
        results += [(r, st, ret) for st, ret in r.results]
    names = [f["name"] for f in prog.adts[MBADT]["variants"][0]["fields"]]
    i_attrs, i_types = names.index("attributes"), names.index("attribute_types")
    ALG = {"Sha1": ("hmac-sha1", 0x0008, 20), "Sha256": ("hmac-sha256", 0x001C, 32)}
    n_ok = {"Sha1": 0, "Sha256": 0}
    for r, st, ret in results:
        use_registry(r.it)
        tr = r.trace(st)
        digs = [e for e in tr if e[0] == "digest" and str(e[1]).startswith("hmac")]
        pushes = [e for e in tr if e[0] == "push"]
        res = variant_of(prog, ret)
        algv = st.cells.get(r.it.cell_of(r.fr, arg["algorithm"]))
        algo = variant_of(prog, algv)
        problems = []
        if res == "Ok":
            if algo not in ALG:
                chk.fail(rule, "add_message_integrity|Ok for an undecided algorithm", body.loc(), detail=repr(algv))
                continue
            n_ok[algo] += 1
            mac, ty, tl = ALG[algo]
            if len(digs) != 1:
                problems.append("%d MAC computations on the path" % len(digs))
            for e in digs:
                if e[1] != mac:
                    problems.append("the MAC is %s for %s" % (e[1], algo))
                ks = content_segments(st, e[2])
                if not (ks and len(ks) == 1 and ks[0][0] == "win" and re.match(r"^key\(a\d+\*credentials\)$", str(ks[0][1])) and st.sys.entails_eq(ks[0][2])
                        and isinstance(e[2], Seq) and st.sys.entails_eq(ks[0][3] - e[2].len)):
                    problems.append("the MAC key is %s, not make_hmac_key(credentials)" % show_segments(ks))
                pr = patched_build(st, r, content_segments(st, e[3]), e[3].len if isinstance(e[3], Seq) else None, 4 + tl)
                if pr:
                    problems.append("MAC input: " + pr)
            want_cells = ["a1*self.%d" % i_attrs, "a1*self.%d" % i_types]
            if [e[1] for e in pushes] != want_cells:
                problems.append("the builder is not extended by exactly one attribute and its type (pushes to %r)" % ([e[1] for e in pushes],))
            else:
                at, tyv = pushes[0][2], pushes[1][2]
                raw = at.v[next(iter(at.v))].get(0) if isinstance(at, Enum) and len(at.v) == 1 else None
                okp = False
                if isinstance(raw, Struct):
                    hdr, val = raw.get(0), raw.get(1)
                    t_ = hdr.get(0).get(0) if isinstance(hdr, Struct) and isinstance(hdr.get(0), Struct) else None
                    l_ = hdr.get(1) if isinstance(hdr, Struct) else None
                    from rules.agent_e2 import data_bytes
                    vb = data_bytes(val)
                    vs = content_segments(st, vb)
                    d = r.it.contents.get(vs[0][1]) if vs and len(vs) == 1 and vs[0][0] == "win" else None
                    okp = (isinstance(t_, Num) and st.sys.const_value(t_.e) == ty and isinstance(l_, Num) and st.sys.const_value(l_.e) == tl
                           and d is not None and d[0] == "digest" and d[1] == mac and st.sys.entails_eq(vs[0][2]) and st.sys.entails_eq(vs[0][3] - tl)
                           and digs and d[3] is digs[0][3])
                if not okp:
                    problems.append("the attribute added is not (type 0x%04x, length %d, value = the whole MAC just computed): %r" % (ty, tl, at))
                t2 = tyv.get(0) if isinstance(tyv, Struct) else None
                if not (isinstance(t2, Num) and st.sys.const_value(t2.e) == ty):
                    problems.append("the type recorded for it is %r" % (tyv,))
            chk.ob(rule, "add_message_integrity|Ok(%s)" % algo, not problems, body.loc(), detail="; ".join(sorted(set(problems))),
                   how="E2 return state: MAC computation event (key, input pieces) and the values pushed to the builder")
        else:
            if pushes:
                chk.ob(rule, "add_message_integrity|a refused call leaves the builder unchanged", False, body.loc(), detail="pushes %r" % ([e[1] for e in pushes],))
    for a_ in ("Sha1", "Sha256"):
        chk.floor(rule + "-ok-states-" + a_, n_ok[a_], 1)


# ------------------------------------------------------------------------------------------------ fingerprint (C09)

FP = "stun_types::attribute::fingerprint::Fingerprint"


def fingerprint_compute(prog, chk, rule="crc-algorithm"):
    """Fingerprint::compute(data) = big-endian bytes of the CRC of exactly `data`"""
    key = FP + "::compute"
    body = prog.bodies.get(key)
    if body is None:
        chk.fail(rule, "Fingerprint::compute not found")
        return
    r = Run(prog, key, track_content=True)
    if r.error or not r.results:
        chk.fail(rule, "Fingerprint::compute|analysis", detail=r.error or "no return state")
        return
    for st, ret in r.results:
        crcs = [e for e in r.trace(st) if e[0] == "crc"]
        d = arg_seq(r, st, body, "data")
        problems = []
        if len(crcs) != 1:
            problems.append("%d CRC computations" % len(crcs))
        else:
            if not whole(st, content_segments(st, crcs[0][1]), "in:data", d.len if isinstance(d, Seq) else None):
                problems.append("the CRC input is %s, not the data given" % show_segments(content_segments(st, crcs[0][1])))
            segs = content_segments(st, ret)
            if not (segs and len(segs) == 1 and segs[0][0] == "win" and segs[0][1] == "be32:%s" % crcs[0][2] and st.sys.entails_eq(segs[0][2]) and st.sys.entails_eq(segs[0][3] - 4)):
                problems.append("the value returned is %s, not the four big-endian bytes of that CRC" % show_segments(segs))
            cst = r.it.contents.get(crcs[0][2])
            cref = cst[1] if cst else None
            if not (isinstance(cref, Struct) or isinstance(cref, V)):
                problems.append("the CRC object is unknown")
        chk.ob(rule, "compute(data) = (CRC of data).to_be_bytes()", not problems, body.loc(), detail="; ".join(problems), how="E2 return state: CRC event and content of the value returned")


def fingerprint_build(prog, chk, rule="build-side"):
    key = MBNS + "add_fingerprint"
    body = prog.bodies.get(key)
    if body is None:
        chk.fail(rule, "add_fingerprint not found")
        return
    from absint.interp import event

    def pre_new(it, st, fr, args):
        event(st, "fingerprint-new", args[0] if args else TOP)
    r = Run(prog, key, track_content=True, max_parts=2000, local_models={MBNS + "build": model_build_self}, pre_hooks={FP + "::new": pre_new})
    if r.error or not r.results:
        chk.fail(rule, "add_fingerprint|analysis", detail=r.error or "no return state")
        return
    names = [f["name"] for f in prog.adts[MBADT]["variants"][0]["fields"]]
    i_attrs, i_types = names.index("attributes"), names.index("attribute_types")
    n_ok = 0
    for st, ret in r.results:
        tr = r.trace(st)
        crcs = [e for e in tr if e[0] == "crc"]
        news = [e for e in tr if e[0] == "fingerprint-new"]
        pushes = [e for e in tr if e[0] == "push"]
        res = variant_of(prog, ret)
        problems = []
        if res == "Ok":
            n_ok += 1
            if len(crcs) != 1:
                problems.append("%d CRC computations on the path" % len(crcs))
            else:
                pr = patched_build(st, r, content_segments(st, crcs[0][1]), crcs[0][1].len if isinstance(crcs[0][1], Seq) else None, 8)
                if pr:
                    problems.append("CRC input: " + pr)
                if len(news) != 1:
                    problems.append("%d Fingerprint values are built" % len(news))
                else:
                    segs = content_segments(st, news[0][1])
                    if not (segs and len(segs) == 1 and segs[0][0] == "win" and segs[0][1] == "be32:%s" % crcs[0][2] and st.sys.entails_eq(segs[0][2]) and st.sys.entails_eq(segs[0][3] - 4)):
                        problems.append("the Fingerprint is built from %s, not from the four big-endian bytes of the CRC just computed" % show_segments(segs))
            if [e[1] for e in pushes] != ["a1*self.%d" % i_attrs, "a1*self.%d" % i_types]:
                problems.append("the builder is not extended by exactly one attribute and its type (pushes to %r)" % ([e[1] for e in pushes],))
            else:
                at, tyv = pushes[0][2], pushes[1][2]
                raw = at.v[next(iter(at.v))].get(0) if isinstance(at, Enum) and len(at.v) == 1 else None
                hdr = raw.get(0) if isinstance(raw, Struct) else None
                t_ = hdr.get(0).get(0) if isinstance(hdr, Struct) and isinstance(hdr.get(0), Struct) else None
                l_ = hdr.get(1) if isinstance(hdr, Struct) else None
                if not (isinstance(t_, Num) and st.sys.const_value(t_.e) == 0x8028 and isinstance(l_, Num) and st.sys.const_value(l_.e) == 4):
                    problems.append("the attribute added is not FINGERPRINT with a 4 byte value: %r" % (at,))
                t2 = tyv.get(0) if isinstance(tyv, Struct) else None
                if not (isinstance(t2, Num) and st.sys.const_value(t2.e) == 0x8028):
                    problems.append("the type recorded for it is %r" % (tyv,))
            chk.ob(rule, "add_fingerprint: CRC over build() with the length field increased by exactly 8; the attribute added is that CRC", not problems, body.loc(),
                   detail="; ".join(sorted(set(problems))), how="E2 return state: CRC event (input pieces), the Fingerprint built, the values pushed")
        elif pushes:
            chk.ob(rule, "add_fingerprint|a refused call leaves the builder unchanged", False, body.loc(), detail="pushes %r" % ([e[1] for e in pushes],))
    chk.floor(rule + "-fingerprint-ok-states", n_ok, 1)


# ------------------------------------------------------------------------------------------------ the builder's adders (C11)

T_MI, T_M2, T_FP = 0x0008, 0x001C, 0x8028


def type_of_value(st, v):
    """an AttributeType value as (constant | name of its symbolic variable)"""
    n = 0
    while isinstance(v, Struct) and len(v.f) == 1 and n < 3:
        v = v.get(0)
        n += 1
    if isinstance(v, Num):
        cv = st.sys.const_value(v.e)
        if cv is not None:
            return int(cv)
        return "var:%r" % (st.sys.reduce(v.e),)
    return None


def model_has_any(c):
    """summary of MessageBuilder::has_any_attribute(list) (decided on its own: first element of attribute_types that is in
    the list): None, or Some(one of the listed types); the question and the answer stay on the path's trace"""
    from absint.interp import event
    q = c.deref(c.args[1])
    if not (isinstance(q, Seq) and is_listed(q.items)):
        event(c.st, "has-any", None, None)
        return [(c.st, c.top_ret())]
    elems = [q.items.f[i] for i in sorted(q.items.f)]
    qs = tuple(type_of_value(c.st, e) for e in elems)
    out = []
    s0 = c.st.copy()
    event(s0, "has-any", qs, None)
    out.append((s0, Enum(OPTION, {0: Struct()})))
    for i, e in enumerate(elems):
        s_i = c.st.copy()
        event(s_i, "has-any", qs, qs[i])
        out.append((s_i, Enum(OPTION, {1: Struct({0: e})})))
    return out


def model_has(c):
    from absint.interp import event
    t = type_of_value(c.st, c.args[1])
    s_no, s_yes = c.st, c.st.copy()
    event(s_no, "has-any", (t,), None)
    event(s_yes, "has-any", (t,), t)
    return [(s_no, Cond("const", False)), (s_yes, Cond("const", True))]


def adders(prog, chk, ks=(0, 1, 2)):
    """The four adders and the two queries, with the builder's list of present types a short list of symbolic types
    (sizes 0..2) and everything analysed for real: the verdict of each return state is compared with the specification
    evaluated on the comparisons the path decided (first present type, in list order, that conflicts)."""
    names = [f["name"] for f in prog.adts[MBADT]["variants"][0]["fields"]]
    i_attrs, i_types = names.index("attributes"), names.index("attribute_types")
    want_cells = ["a1*self.%d" % i_attrs, "a1*self.%d" % i_types]
    summaries = {MBNS + "build": model_build_self, KEYFN: model_make_hmac_key}

    def dyn_get_type(c):
        # an attribute of unknown kind: its type is some 16-bit value, the same every time it is asked
        v = Lin.var("type_of_attr")
        c.st.sys.add_range(v, 0, 65535)
        c.st.cells["ghost:q:type_of_attr"] = Num(v)
        return [(c.st, Struct({0: Num(v)}))]

    def run_adder(fn, k, extra_setup=None):
        key = MBNS + fn
        body = prog.bodies.get(key)
        if body is None:
            chk.fail(fn + "-table", "not found")
            return None, [], []
        pv = [Lin.var("p%d" % i) for i in range(k)]

        def setup(run, st):
            for v in pv:
                st.sys.add_range(v, 0, 65535)
                st.cells["ghost:q:" + next(iter(v.t))] = Num(v)
            sv = st.cells.get(run.self_cell)
            if isinstance(sv, Struct):
                lst = Seq(Lin.const(k), None, Struct({i: Struct({0: Num(v)}) for i, v in enumerate(pv)}, tag="elems") if pv else EMPTY)
                st.cells[run.self_cell] = sv.with_field(i_types, lst)
                st.cells["ghost:self0"] = st.cells[run.self_cell]
            if extra_setup:
                extra_setup(run, st)
        r = Run(prog, key, track_content=True, max_parts=8000, local_models=summaries, setup=setup,
                def_models={"stun_types::attribute::Attribute::get_type": dyn_get_type})
        if r.error or not r.results:
            chk.fail(fn + "-table", "analysis|%d present" % k, detail=r.error or "no return state")
            return body, [], pv
        return body, [(r, st, ret) for st, ret in r.results], pv

    def outcome(st, ret):
        res = variant_of(prog, ret)
        if res != "Err":
            return res, None, None
        e = ret.v[1].get(0)
        en = variant_of(prog, e)
        pay = e.v[next(iter(e.v))].get(0) if isinstance(e, Enum) and len(e.v) == 1 and e.v[next(iter(e.v))].f else None
        return res, en, pay

    from absint.models_content import known_eq

    def first_conflict(st, pv, query):
        """-> (index of the first present type known to be in `query`, the query element it equals) | None | 'undecided'
        query: list of (label, Lin)"""
        for i, p_ in enumerate(pv):
            hits = [(lab, known_eq(st, Num(p_), Num(q))) for lab, q in query]
            if any(h is True for _, h in hits):
                return i, next(lab for lab, h in hits if h is True)
            if any(h is None for _, h in hits):
                return "undecided"
        return None
    const = lambda v: Lin.const(v)
    # ---- add_attribute / add_raw_attribute
    for fn in ("add_attribute", "add_raw_attribute"):
        rule = fn + "-table"
        n = 0
        seen = set()
        body = None
        for k in ks:
            body, results, pv = run_adder(fn, k)
            for r, st, ret in results:
                use_registry(r.it)
                n += 1
                pushes = [e for e in r.trace(st) if e[0] == "push"]
                res, en, pay = outcome(st, ret)
                problems = []
                if fn == "add_attribute":
                    ty = Lin.var("type_of_attr")
                else:
                    a1 = r.self_before(st)
                    av = st.cells.get(r.it.cell_of(r.fr, 2))
                    tv = av.get(0).get(0).get(0) if isinstance(av, Struct) and isinstance(av.get(0), Struct) and isinstance(av.get(0).get(0), Struct) else None
                    ty = tv.e if isinstance(tv, Num) else None
                if ty is None:
                    chk.fail(rule, "the type of the attribute being added is not known", body.loc())
                    continue
                fc = first_conflict(st, pv, [("ty", ty), (T_MI, const(T_MI)), (T_M2, const(T_M2)), (T_FP, const(T_FP))])
                if fc == "undecided":
                    problems.append("the call answers %s %s without deciding whether a present type conflicts" % (res, en))
                elif fc is None:
                    seen.add("none")
                    if res != "Ok":
                        problems.append("nothing conflicting is present but the attribute is refused (%s)" % en)
                    elif [e[1] for e in pushes] != want_cells:
                        problems.append("accepting does not push exactly one attribute and one type: %r" % ([e[1] for e in pushes],))
                    else:
                        vn = variant_of(prog, pushes[0][2])
                        if vn != ("Attr" if fn == "add_attribute" else "Raw"):
                            problems.append("the attribute stored is of kind %s" % vn)
                        if known_eq(st, pushes[1][2], Struct({0: Num(ty)})) is not True:
                            problems.append("the type recorded (%r) is not the attribute's type" % (pushes[1][2],))
                else:
                    lab = fc[1]
                    seen.add(lab)
                    want = {T_MI: "MessageIntegrityExists", T_M2: "MessageIntegrityExists", T_FP: "FingerprintExists"}.get(lab, "AttributeExists")
                    if res != "Err" or en != want:
                        problems.append("with a conflicting type (%s) present the call returns %s %s, not Err(%s)" % (lab, res, en, want))
                    if want == "AttributeExists" and res == "Err" and known_eq(st, pay, Struct({0: Num(ty)})) is not True:
                        problems.append("AttributeExists names %r, not the attribute's type" % (pay,))
                    if pushes:
                        problems.append("a refused attribute changes the builder: %r" % ([e[1] for e in pushes],))
                if res == "Ok":
                    for tv_ in (T_MI, T_M2, T_FP):
                        s2 = st.sys.copy()
                        s2.add_eq(ty - tv_)
                        if not s2.bottom and s2.feasible():
                            problems.append("an attribute of type 0x%04x can be added through %s" % (tv_, fn))
                chk.ob(rule, "%d present|%s|%s" % (k, "no conflict" if fc is None else fc if fc == "undecided" else "first conflict %s" % (fc[1],), res if res == "Ok" else "Err(%s)" % en),
                       not problems, body.loc(), detail="; ".join(sorted(set(problems))), how="E2 return state over a short symbolic list of present types; specification evaluated on the comparisons the path decided")
        chk.floor(rule + "-rows", n, 8)
        chk.ob(rule, "every kind of conflict is analysed", seen >= {"none", "ty", T_MI, T_M2, T_FP}, body.loc() if body else None, detail=repr(seen))

    # ---- add_message_integrity
    rule = "add_message_integrity-table"
    body0 = prog.bodies.get(MBNS + "add_message_integrity")
    arg = {body0.locals[i]["name"]: i for i in range(1, body0.arg_count + 1)} if body0 else {}
    for av, qwant in (("Sha1", [T_MI, T_M2, T_FP]), ("Sha256", [T_M2, T_FP])):
        def pin(run, st, av=av):
            c_ = run.it.cell_of(run.fr, arg["algorithm"])
            ev = st.cells.get(c_)
            if isinstance(ev, Enum):
                st.cells[c_] = ev.only([v["name"] for v in prog.adts[ev.adt]["variants"]].index(av))
        seen = set()
        for k in ks:
            body, results, pv = run_adder("add_message_integrity", k, pin)
            for r, st, ret in results:
                use_registry(r.it)
                pushes = [e for e in r.trace(st) if e[0] == "push"]
                res, en, pay = outcome(st, ret)
                problems = []
                fc = first_conflict(st, pv, [(q, const(q)) for q in qwant])
                if fc == "undecided":
                    problems.append("the call answers %s %s without deciding whether a present type conflicts" % (res, en))
                elif fc is None:
                    seen.add(None)
                    if res != "Ok" or [e[1] for e in pushes] != want_cells:
                        problems.append("nothing conflicting is present but the result is %s %s with pushes %r" % (res, en, [e[1] for e in pushes]))
                    # no other present type may be held against the call (e.g. MESSAGE-INTEGRITY before MESSAGE-INTEGRITY-SHA256 is allowed)
                else:
                    lab = fc[1]
                    seen.add(lab)
                    want = "FingerprintExists" if lab == T_FP else "AttributeExists"
                    if res != "Err" or en != want:
                        problems.append("with 0x%04x present the call returns %s %s, not Err(%s)" % (lab, res, en, want))
                    elif want == "AttributeExists" and known_eq(st, pay, Struct({0: Num(const(lab))})) is not True:
                        problems.append("AttributeExists names %r, not 0x%04x" % (pay, lab))
                    if pushes:
                        problems.append("a refused call changes the builder")
                chk.ob(rule, "%s|%d present|%s|%s" % (av, k, "no conflict" if fc is None else fc if fc == "undecided" else "first conflict 0x%04x" % fc[1], res if res == "Ok" else "Err(%s)" % en),
                       not problems, body.loc(), detail="; ".join(sorted(set(problems))), how="E2 return state")
        chk.ob(rule, "%s|every kind of conflict is analysed" % av, seen >= set(qwant) | {None}, body0.loc() if body0 else None, detail=repr(seen))

    # ---- add_fingerprint
    rule = "add_fingerprint-table"
    seen = set()
    body = None
    for k in ks:
        body, results, pv = run_adder("add_fingerprint", k)
        for r, st, ret in results:
            use_registry(r.it)
            pushes = [e for e in r.trace(st) if e[0] == "push"]
            res, en, pay = outcome(st, ret)
            problems = []
            fc = first_conflict(st, pv, [(T_FP, const(T_FP))])
            if fc == "undecided":
                problems.append("the call answers %s %s without deciding whether a fingerprint is present" % (res, en))
            elif fc is None:
                seen.add(None)
                if res != "Ok" or [e[1] for e in pushes] != want_cells:
                    problems.append("no fingerprint present but the result is %s %s with pushes %r" % (res, en, [e[1] for e in pushes]))
            else:
                seen.add(T_FP)
                if res != "Err" or en not in ("AttributeExists", "FingerprintExists") or pushes:
                    problems.append("a fingerprint is present but the result is %s %s with pushes %r" % (res, en, [e[1] for e in pushes]))
            chk.ob(rule, "%d present|%s|%s" % (k, "no conflict" if fc is None else fc if fc == "undecided" else "fingerprint present", res if res == "Ok" else "Err(%s)" % en), not problems, body.loc(),
                   detail="; ".join(problems), how="E2 return state")
    chk.ob(rule, "both answers are analysed", seen >= {None, T_FP}, body.loc() if body else None, detail=repr(seen))

    # ---- the two queries themselves
    rule = "queries"
    for k in ks:
        for m in (1, 2):
            qv = [Lin.var("q%d" % i) for i in range(m)]

            def qsetup(run, st, qv=qv):
                for v in qv:
                    st.sys.add_range(v, 0, 65535)
                    st.cells["ghost:q:" + next(iter(v.t))] = Num(v)
                st.cells[run.it.cell_of(run.fr, 2)] = Seq(Lin.const(len(qv)), None, Struct({i: Struct({0: Num(v)}) for i, v in enumerate(qv)}, tag="elems"))
            body, results, pv = run_adder("has_any_attribute", k, qsetup)
            for r, st, ret in results:
                use_registry(r.it)
                fc = first_conflict(st, pv, [(i, q) for i, q in enumerate(qv)])
                problems = []
                got = variant_of(prog, ret)
                if fc == "undecided":
                    problems.append("answers %s without deciding" % got)
                elif fc is None:
                    if got != "None":
                        problems.append("answers %s although no present type is asked about" % got)
                else:
                    pay = ret.v[1].get(0) if isinstance(ret, Enum) and 1 in ret.v else None
                    if got != "Some" or known_eq(st, pay, Struct({0: Num(pv[fc[0]])})) is not True:
                        problems.append("answers %r, not the first present type that is asked about" % (ret,))
                chk.ob(rule, "has_any_attribute|%d present, %d asked|%s" % (k, m, got), not problems, body.loc(), detail="; ".join(problems), how="E2 return state")
    for k in ks:
        def hsetup(run, st):
            v = Lin.var("q0")
            st.sys.add_range(v, 0, 65535)
            st.cells["ghost:q:q0"] = Num(v)
            st.cells[run.it.cell_of(run.fr, 2)] = Struct({0: Num(v)})
        body, results, pv = run_adder("has_attribute", k, hsetup)
        for r, st, ret in results:
            use_registry(r.it)
            fc = first_conflict(st, pv, [(0, Lin.var("q0"))])
            ans = bool_of(st, ret)
            problems = []
            if fc == "undecided" or ans is None:
                problems.append("answers %r without deciding" % (ret,))
            elif ans != (fc is not None):
                problems.append("answers %r where presence is %s" % (ret, fc is not None))
            chk.ob(rule, "has_attribute|%d present|%s" % (k, ans), not problems, body.loc(), detail="; ".join(problems), how="E2 return state")


# ------------------------------------------------------------------------------------------------ the header MessageBuilder::write_into produces

def header_layout(prog):
    """Runs MessageBuilder::write_into on an output buffer whose content is tracked and returns, per Ok return state, the
    pieces of the first 20 bytes: -> list of (state, run, pieces, byte_len value) (pieces None when unknown)"""
    from absint.models_content import cell_view_id
    key = MBNS + "write_into"
    body = prog.bodies[key]
    arg = {body.locals[i]["name"]: i for i in range(1, body.arg_count + 1)}

    def setup(run, st):
        dc = run.it.cell_of(run.fr, arg["dest"])
        dv = st.cells.get(dc)
        ln = dv.len if isinstance(dv, Seq) else run.it.fresh_num(st, 0, None, "destlen").e
        st.cells["outbuf:dest"] = Seq(ln, None, None, None, ("orig:dest", Lin.const(0)))
        st.cells[dc] = Seq(ln, None, None, (cell_view_id(run.it, "outbuf:dest", ()), Lin.const(0)), None)

    def model_attr_write(c):
        # per-attribute writer (decided by C12): Err, or Ok(n) having written n >= 4 bytes at the start of its window
        dest = c.deref(c.args[1])
        if "ghost:hdr" not in c.st.cells:
            c.st.cells["ghost:hdr"] = c.st.cells.get("outbuf:dest")      # the buffer as it is before the first attribute is written
        s_err = c.st.copy()
        n = c.it.fresh_num(c.st, 4, None, "wrote")
        if isinstance(dest, Seq):
            c.st.sys.add_ge(dest.len - n.e)
            c.it.record_write(c.st, dest, Lin.const(0), n.e, "data")
        return [(s_err, Enum("std::result::Result", {1: Struct({0: TOP})})), (c.st, Enum("std::result::Result", {0: Struct({0: n})}))]

    def post_len(it, st, fr, ret):
        if isinstance(ret, Num):
            st.cells["ghost:bytelen"] = ret
    r = Run(prog, key, track_content=True, bool_vars=False, path_sensitive=False, setup=setup, max_parts=400,
            local_models={"stun_types::message::AttrOrRaw::<'a>::write_into": model_attr_write}, hooks={MBNS + "byte_len": post_len})
    out = []
    if r.error:
        return r, out
    use_registry(r.it)
    for st, ret in r.results:
        if variant_of(prog, ret) != "Ok":
            continue
        buf = st.cells.get("ghost:hdr") or st.cells.get("outbuf:dest")
        segs = content_segments(st, buf) if isinstance(buf, Seq) else None
        head, pos = [], 0
        for s_ in segs or []:
            if pos >= 20:
                break
            ln = s_[1] if s_[0] == "be" else st.sys.const_value(s_[3]) if s_[0] == "win" else None
            if ln is None:
                if s_[0] == "win":
                    head.append(s_)      # the rest of the buffer
                break
            head.append(s_)
            pos += int(ln)
        bl = st.cells.get("ghost:bytelen")
        out.append((st, r, head, bl.e if isinstance(bl, Num) else None))
    return r, out


def header_clauses(prog, chk, want):
    """want: subset of {'length-field', 'cookie-tid', 'coverage'}; rule names are the callers' (C03 / C19 / C12)"""
    r, rows = header_layout(prog)
    body = prog.bodies[MBNS + "write_into"]
    if r.error or not rows:
        for w in want:
            chk.fail(w, "MessageBuilder::write_into|analysis", body.loc(), r.error or "no Ok return state")
        return
    for st, run, head, bl in rows:
        sizes = [(s_[1] if s_[0] == "be" else st.sys.const_value(s_[3])) for s_ in head]
        if "coverage" in want:
            ok = bool(head) and all(s_[0] == "be" or (s_[0] == "win" and str(s_[1]).startswith("be")) for s_ in head[:4]) and sum(int(x) for x in sizes[:4] if x is not None) >= 20 or \
                (sum(int(x) for x in sizes if x is not None) >= 20 and all(not (s_[0] == "win" and s_[1] == "orig:dest") for s_ in head))
            chk.ob("builder-header", "the header writes cover exactly bytes [0, 20): nothing of the original buffer content remains there", ok, body.loc(),
                   detail=show_segments(head), how="E2 content of the output buffer after write_into")
        if "length-field" in want:
            v = head[1][2] if len(head) >= 2 and head[1][0] == "be" else None
            if v is not None and len(v.t) == 1 and v.c == 0:
                v = run.it.contents.get("casts", {}).get(next(iter(v.t)), v)       # `(len - 20) as u16`: the value before truncation
            ok = len(head) >= 2 and head[0][0] == "be" and head[0][1] == 2 and head[1][0] == "be" and head[1][1] == 2 and v is not None and bl is not None \
                and st.sys.entails_eq(v - bl + 20)
            chk.ob("length-field", "write_into stores byte_len() - 20 at [2..4]", ok, body.loc(), detail=show_segments(head), how="E2 content of the output buffer after write_into")
        if "cookie-tid" in want:
            # either one 16-byte big-endian word at [4..20) (its bit composition is checked on the expression), or the
            # cookie as 4 bytes followed by the low 96 bits of the transaction id
            okw = len(head) >= 3 and head[2][0] == "be" and head[2][1] == 16
            okp = False
            if len(head) >= 4 and head[2][0] == "be" and head[2][1] == 4 and head[2][2] is not None and st.sys.const_value(head[2][2]) == 0x2112A442 and head[3][0] == "win":
                d = run.it.contents.get(head[3][1])
                me = run.self_before(st)
                names = [f["name"] for f in prog.adts[MBADT]["variants"][0]["fields"]]
                tid = me.get(names.index("transaction_id")) if isinstance(me, Struct) else None
                tv = tid.get(0) if isinstance(tid, Struct) else None
                okp = bool(d) and d[0] == "int" and d[1] == 16 and st.sys.entails_eq(head[3][2] - 4) and st.sys.entails_eq(head[3][3] - 12) \
                    and isinstance(tv, Num) and st.sys.entails_eq(d[2] - tv.e)
            chk.ob("transaction-id", "MessageBuilder::write_into: bytes [4..20) are the cookie followed by the low 96 bits of the transaction id (one 128-bit word, or 4 + 12 bytes)",
                   okw or okp, body.loc(), detail=show_segments(head), how="E2 content of the output buffer after write_into")
            yield_word = okw and not okp
            if yield_word:
                chk.sample({"header": show_segments(head)}) if hasattr(chk, "sample") else None


# ------------------------------------------------------------------------------------------------ owning a builder's attribute

def attr_into_owned(prog, chk, rule="into_owned"):
    """AttrOrRaw::into_owned: a typed attribute becomes exactly its to_raw() form (type, length and value bytes, copied);
    a raw attribute keeps type, length and value - so owning a builder does not change what it serialises"""
    key = M_ + "AttrOrRaw::<'a>::into_owned"
    body = prog.bodies.get(key)
    if body is None:
        chk.fail(rule, "AttrOrRaw::into_owned not found")
        return
    adt = prog.adts[M_ + "AttrOrRaw"]
    vnames = [v["name"] for v in adt["variants"]]

    def dyn_to_raw(c):
        ln = Lin.var("raw_len")
        ty = Lin.var("raw_type")
        c.st.sys.add_range(ln, 0, 65535)
        c.st.sys.add_range(ty, 0, 65535)
        for v in (ln, ty):
            c.st.cells["ghost:q:" + next(iter(v.t))] = Num(v)
        val = Seq(ln, None, None, None, ("to_raw(attr)", Lin.const(0)))
        return [(c.st, Struct({0: Struct({0: Struct({0: Num(ty)}), 1: Num(ln)}), 1: Enum("stun_types::data::Data", {1: Struct({0: Struct({0: val})})})}))]
    from rules.agent_e2 import data_bytes
    for vn in vnames:
        def setup(run, st, vn=vn):
            c1 = run.it.cell_of(run.fr, 1)
            v = st.cells.get(c1)
            if isinstance(v, Enum):
                st.cells[c1] = v.only(vnames.index(vn))
            st.cells["ghost:arg0"] = st.cells[c1]
        r = Run(prog, key, track_content=True, setup=setup, def_models={"stun_types::attribute::AttributeWrite::to_raw": dyn_to_raw})
        if r.error or not r.results:
            chk.fail(rule, "AttrOrRaw::into_owned|%s|analysis" % vn, body.loc(), r.error or "no return state")
            continue
        use_registry(r.it)
        for st, ret in r.results:
            problems = []
            raw = ret.v[next(iter(ret.v))].get(0) if isinstance(ret, Enum) and len(ret.v) == 1 else None
            if variant_of(prog, ret) != "Raw" or not isinstance(raw, Struct):
                problems.append("the owned form is %s" % variant_of(prog, ret))
            else:
                hdr = raw.get(0)
                t_ = hdr.get(0).get(0) if isinstance(hdr, Struct) and isinstance(hdr.get(0), Struct) else None
                l_ = hdr.get(1) if isinstance(hdr, Struct) else None
                vb = data_bytes(raw.get(1))
                segs = content_segments(st, vb)
                if vn == "Attr":
                    ok = isinstance(t_, Num) and st.sys.entails_eq(t_.e - Lin.var("raw_type")) and isinstance(l_, Num) and st.sys.entails_eq(l_.e - Lin.var("raw_len")) \
                        and whole(st, segs, "to_raw(attr)", Lin.var("raw_len")) and isinstance(vb, Seq) and st.sys.entails_eq(vb.len - Lin.var("raw_len"))
                    if not ok:
                        problems.append("the owned attribute is (type %r, length %r, value %s), not the attribute's to_raw() form" % (t_, l_, show_segments(segs)))
                else:
                    a0 = st.cells.get("ghost:arg0")
                    r0 = a0.v[next(iter(a0.v))].get(0) if isinstance(a0, Enum) and len(a0.v) == 1 else None
                    h0 = r0.get(0) if isinstance(r0, Struct) else None
                    same_hdr = isinstance(h0, Struct) and isinstance(hdr, Struct) and isinstance(t_, Num) and isinstance(h0.get(0).get(0), Num) and \
                        st.sys.entails_eq(t_.e - h0.get(0).get(0).e) and isinstance(l_, Num) and isinstance(h0.get(1), Num) and st.sys.entails_eq(l_.e - h0.get(1).e)
                    if not same_hdr:
                        problems.append("type / length of a raw attribute change")
                    if segs is None or not (len(segs) == 1 and segs[0][0] == "win" and str(segs[0][1]).startswith("in:") and st.sys.entails_eq(segs[0][2])):
                        problems.append("the value of a raw attribute is %s, not its own bytes" % show_segments(segs))
            chk.ob(rule, "AttrOrRaw::into_owned|%s" % vn, not problems, body.loc(), detail="; ".join(problems), how="E2 return state with content identities")
