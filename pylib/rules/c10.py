"""C10 - only authenticated attributes are exposed after an integrity attribute."""
from rules import parser as P

LEVEL = "proof"


def run(prog, chk, tier):
    chk.explanation = "iterator transducer over accepted tails"
    P.iterator_transducer(prog, chk)
