"""C10 - only authenticated attributes are exposed after an integrity attribute.

MessageAttributesIter::next is executed abstractly with the decoder of one attribute replaced by a summary that hands out
an attribute of a chosen class (MESSAGE-INTEGRITY, MESSAGE-INTEGRITY-SHA256, FINGERPRINT, any other type) with symbolic
length and bytes.  Starting from the memory iter_attributes() builds, every class sequence a single call can consume (up
to a bound; attributes that are hidden are consumed inside the call) is its own path; the memory the iterator is left
with (its concrete fields, whatever they are called) is explored until no new memory appears.  Each return state is
compared with the specification transducer: the attribute handed out is the first one the specification exposes -
everything up to and including the first integrity attribute, a MESSAGE-INTEGRITY-SHA256 directly after a
MESSAGE-INTEGRITY, the FINGERPRINT - it is the attribute decoded last (type and length), None is returned only when the
specification exposes nothing of what was consumed, and every memory reached stands for exactly one specification
situation.  Lookups (raw_attribute / attribute / has_attribute) are first-match searches over iter_attributes() and
nothing else (C02), so they expose the same set.  NOT decided: values of attributes, and sequences in which more hidden
attributes than the bound precede an exposed one are covered by the closure of the memory, not by enumeration."""
from rules import walk_e2 as W

THOROUGH_CONFIGS = ("release", "arbitrary")
LEVEL = "proof"


def run(prog, chk, tier):
    chk.explanation = __doc__.split("\n\n", 1)[1]
    chk.trusted += ["external-callee model table", "summary of RawAttribute::from_bytes (its own checks are C01 / C02 tiling)", "rustc MIR construction"]
    W.exposure_transducer(prog, chk, depth=3 if tier == "quick" else 4)
    # lookups expose exactly what iteration exposes: they are first-match searches over iter_attributes() and nothing else
    from rules.c02 import lookups
    lookups(prog, chk)
