"""C10 - only authenticated attributes are exposed after an integrity attribute."""
from rules import parser as P

LEVEL = "proof"


def run(prog, chk, tier):
    chk.explanation = "iterator transducer over accepted tails"
    P.iterator_transducer(prog, chk)
    # lookups expose exactly what iteration exposes: they are first-match searches over iter_attributes() and nothing else
    from rules.c02 import lookups
    lookups(prog, chk)
