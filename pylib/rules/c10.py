"""C10 - only authenticated attributes are exposed after an integrity attribute.

MessageAttributesIter::next is executed abstractly with the decoder of one attribute replaced by a summary that hands out
an attribute of a chosen class (MESSAGE-INTEGRITY, MESSAGE-INTEGRITY-SHA256, FINGERPRINT, any other type) with symbolic
length and bytes.  Starting from the memory iter_attributes() builds, every class sequence a single call can consume (up
to a bound; attributes that are hidden are consumed inside the call) is its own path; the memory the iterator is left
with (its concrete fields, whatever they are called) is explored until no new memory appears.  Each return state is
compared with the specification transducer: the attribute handed out is the first one the specification exposes -
everything up to and including the first integrity attribute, a MESSAGE-INTEGRITY-SHA256 directly after a
MESSAGE-INTEGRITY, the FINGERPRINT - it is the attribute decoded last (type and length), None is returned only when the
specification exposes nothing of what was consumed, and every memory reached stands for exactly one specification
situation.  Lookups (raw_attribute / attribute / has_attribute) are first-match searches over iter_attributes() and
nothing else (C02), so they expose the same set.  NOT decided: values of attributes, and sequences in which more hidden
attributes than the bound precede an exposed one are covered by the closure of the memory, not by enumeration."""
from rules import walk_e2 as W

THOROUGH_CONFIGS = ("release", "arbitrary")
LEVEL = "proof"


def run(prog, chk, tier):
    chk.explanation = __doc__.split("\n\n", 1)[1]
    chk.trusted += ["external-callee model table", "summary of RawAttribute::from_bytes (its own checks are C01 / C02 tiling)", "rustc MIR construction"]
    W.exposure_transducer(prog, chk, depth=3 if tier == "quick" else 4)
    # lookups expose exactly what iteration exposes: they are first-match searches over iter_attributes() and nothing else
    from rules.c02 import lookups
    lookups(prog, chk)
    only_next(prog, chk)


HARMLESS_ITERATOR_ITEMS = {"next", "size_hint"}      # size_hint hands out no attribute


def only_next(prog, chk):
    """every way of getting an attribute out of the iterator goes through `next`: the Iterator impl overrides no other method
    (std's provided nth / fold / skip / find ... are all written on top of next), and no other workspace impl or inherent method of
    the iterator type hands out attributes.  An overridden method would be a second exposure path the transducer never saw."""
    n = 0
    for i in prog.impls:
        if "MessageAttributesIter" not in i["self_s"] or i["crate"] != "stun_types":
            continue
        if i["trait"] == "std::iter::Iterator":
            n += 1
            extra = sorted(set(i["items"]) - HARMLESS_ITERATOR_ITEMS)
            chk.ob("exposure-paths", "MessageAttributesIter: Iterator overrides nothing besides next (every adaptor runs on next)", not extra,
                   where=prog.bodies[i["items"]["next"]].loc() if i["items"].get("next") in prog.bodies else None,
                   detail="overridden: %s - not decided by the exposure rule" % ", ".join(extra), how="impl table")
        elif i["trait"] in ("std::iter::DoubleEndedIterator", "std::iter::ExactSizeIterator", "std::iter::FusedIterator") or i["trait"].startswith("std::iter::"):
            ok = i["trait"] == "std::iter::FusedIterator"
            chk.ob("exposure-paths", "MessageAttributesIter implements %s" % i["trait"], ok, detail="a second way of stepping through the attributes", how="impl table")
    chk.floor("iterator-impls", n, 1)
    # inherent methods of the iterator returning attributes
    inh = [k for k in prog.bodies if k.startswith("stun_types::message::MessageAttributesIter::") and not prog.bodies[k].mono]
    bad = []
    for k in inh:
        b = prog.bodies[k]
        rt = b.locals[0]["ty"]
        fm = prog.fns.get(b.defp) or prog.fns.get(k) or {}
        # a private helper of `next` (callable only inside the module, whose own lookups are decided by the lookup rule) is
        # not a way for a user to get at an attribute; anything visible outside the crate is
        visible = fm.get("pub", True) or fm.get("exported", True) or fm.get("reachable", True)
        if "RawAttribute" in str(b.ty(rt).get("s", "")) and visible:
            bad.append(k.rsplit("::", 1)[-1])
    chk.ob("exposure-paths", "MessageAttributesIter has no inherent method visible to users that hands out attributes", not bad, detail=", ".join(bad), how="body table")
