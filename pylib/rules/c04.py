"""C04 - integrity: wiring of keys, MAC input and verdict, decided from content flow (cryptography itself is trusted).

The abstract interpreter runs in content-tracking mode: byte sequences carry a description of where their bytes come
from (windows of identified inputs, concatenations, patches of a 16-bit field), copies keep it, hash / MAC objects of
the external crates accumulate the streams fed to them and comparisons fork on the verdict.  Each clause is decided
from the return states of the function concerned, whatever the arrangement of its statements, helpers and loops:
 * key material (make_hmac_key): short-term key = exactly the password bytes; long-term key = MD5 over exactly
   username ":" realm ":" password, each field whole and in that order; no ambient state (effect classification);
 * MAC helpers (MessageIntegrity / MessageIntegritySha256 ::verify, ::compute): one MAC of the right algorithm keyed
   with the whole key over the whole data; verify returns Ok exactly on the path where hmac's comparison of the whole
   expected tag succeeded (verify_slice; verify_truncated_left for SHA-256), compute returns the whole MAC output;
 * validate side (validate_integrity, with raw_attribute / make_hmac_key summarised): Ok(algo) only after exactly one
   successful comparison with the MAC of that algorithm, keyed with make_hmac_key(credentials), over
   self.data[..off] with bytes 2..4 replaced by the big-endian value off + 4 + attribute length - 20, where the bytes at
   off were read as an attribute header of the type that was looked up; the tag is the whole value of the attribute
   looked up, 20 bytes (SHA-1) / 16..=32 bytes in steps of 4 (SHA-256); SHA-256 is used when present, else SHA-1;
   MissingAttribute exactly when neither is present;
 * build side (add_message_integrity): one MAC of the algorithm asked for, keyed with make_hmac_key(credentials), over
   build() with bytes 2..4 replaced by their value + 24 / 36 = 4 + tag length; the attribute pushed is (type, tag
   length, the whole MAC just computed) and the type recorded for it agrees; a refused call pushes nothing.
NOT decided: HMAC / MD5 values, tamper evidence itself, any for-all-keys statement (cryptographic), that the attribute
found by the scan and the one returned by the lookup are the same occurrence when a type occurs twice (first-match of
both is C02 / C10)."""
from rules import content_e2 as CE

THOROUGH_CONFIGS = ("release", "arbitrary")
LEVEL = "other"


def run(prog, chk, tier):
    chk.explanation = __doc__.split("\n\n", 1)[1]
    chk.trusted += ["hmac / sha1 / sha2 / md5 crates compute what their names say; verify_slice / verify_truncated_left compare every byte of the tag",
                    "external-callee model table (copies preserve content; digest objects accumulate what update() is given)",
                    "rustc MIR construction"]
    CE.key_material(prog, chk)
    CE.validate_side(prog, chk)
    CE.mac_helpers(prog, chk)
    CE.build_side(prog, chk)
