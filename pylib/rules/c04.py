"""C04 - integrity: wiring of keys, HMAC input and verdict (origins + constants; cryptography itself is trusted).

Decided (each a necessary condition of the property, for all inputs):
 * key material: short-term key = the password bytes; long-term key = MD5 over exactly
   username ":" realm ":" password (ordered operands of the string concatenation), one update, finalize; the key
   derivation touches no ambient state (callee allow-list);
 * validate side: per algorithm the HMAC input is self.data[..offset of the integrity attribute] with the length
   field rewritten to offset + 24 - 20 (SHA-1) / offset + attr.length + 4 - 20 (SHA-256); the key is
   make_hmac_key(credentials); the tag compared is the hmac of the attribute decoded through the typed decoder of the
   matching type (so the 16..=32 / multiple-of-4 limits of C08 apply); the verdict of verify reaches the result on
   every path (`?`), Ok(algo) only after it; the tag comparison is delegated to hmac's verify_slice (SHA-1, all 20
   bytes) / verify_truncated_left (SHA-256);
 * build side: the HMAC input is build() with the length field increased by 24 / 36 = 4 + tag length; the tag comes
   from compute(bytes, make_hmac_key(credentials)); the attribute pushed has the matching type.
NOT decided: HMAC / MD5 values, tamper evidence itself, any for-all-keys statement (cryptographic).  A hand-written
tag comparison is outside what these rules can decide and is reported as undecided (fail closed)."""
import re
from mir import Origins, strip, const_int, Origin
from rules.c17 import shape
from rules.c09 import lin_of, _only_def_is
from dtable import instrumented_body, resolve_upvars
import e1

THOROUGH_CONFIGS = ("release", "arbitrary")
LEVEL = "other"
M_ = "stun_types::message::"
KEYFN = M_ + "MessageIntegrityCredentials::make_hmac_key"
VALIDATE = M_ + "Message::<'a>::validate_integrity"
MB = M_ + "MessageBuilder::<'a>::"
MI = "stun_types::attribute::integrity::MessageIntegrity"
M2 = "stun_types::attribute::integrity::MessageIntegritySha256"

KEY_ALLOWED = re.compile(r"^<std::string::String as std::(clone::Clone|ops::Add<&str>|ops::Deref|convert::Into<std::vec::Vec<u8>>)>::|"
                         r"^<.*md5::Md5Core.* as (sha2|md5|digest)::Digest>::(new|update(::<.*>)?|finalize)$|^<.*GenericArray<.*> as std::ops::Deref>::deref$|"
                         r"^std::slice::<impl \[u8\]>::to_vec$|^std::string::String::(into_bytes|as_bytes)$|^<(sha2::digest::)?generic_array::|^drop_glue<")


def flatten_concat(sh, out):
    """ordered operands of a String + &str + ... chain"""
    if isinstance(sh, tuple) and sh[0] == "call" and sh[1].endswith("<std::string::String as std::ops::Add<&str>>::add"):
        flatten_concat(sh[2][0], out)
        flatten_concat(sh[2][1], out)
        return
    # peel clones / derefs
    while isinstance(sh, tuple) and sh[0] == "call" and re.search(r"(Clone>::clone|Deref>::deref|as_str)$", sh[1]):
        sh = sh[2][0]
    out.append(sh)


def leaf_name(sh):
    if isinstance(sh, tuple) and sh[0] == "field" and isinstance(sh[2], str):
        return sh[2]
    if isinstance(sh, tuple) and sh[0] == "const":
        return "const:%s" % (sh[1],)
    return repr(sh)[:60]


def run(prog, chk, tier):
    chk.explanation = __doc__.split("\n\n", 1)[1]
    chk.trusted += ["hmac / sha1 / sha2 / md5 crates compute what their names say; verify_slice / verify_truncated_left compare every byte of the tag",
                    "rustc MIR construction"]
    key_material(prog, chk)
    validate_side(prog, chk)
    verify_fns(prog, chk)
    build_side(prog, chk)


def key_material(prog, chk):
    b = prog.bodies.get(KEYFN)
    if b is None:
        chk.fail("key-material", "make_hmac_key not found")
        return
    og = Origins(prog, b)
    names = [og.callee_name(t) for _, t in b.calls()]
    bad = [n for n in names if not KEY_ALLOWED.search(n)]
    chk.ob("key-material", "make_hmac_key calls only string/vector copies, concatenation and MD5 (no ambient state)", not bad,
           where=b.loc(), detail="other callees: %s" % bad[:3], how="callee allow-list over %d call sites" % len(names))
    statics = [s for _, _, s in b.iter_stmts() if "static" in repr(s)]
    chk.ob("key-material", "make_hmac_key references no static", not statics, how="operand scan")
    upd = [(bi, t) for bi, t in b.calls() if re.search(r"Md5Core.* as (sha2|md5|digest)::Digest>::update", og.callee_name(t))]
    ok = len(upd) == 1
    ops = []
    if ok:
        flatten_concat(shape(og.operand(upd[0][1]["args"][1])), ops)
        got = [leaf_name(x) for x in ops]
        ok = len(got) == 5 and got[0] == "username" and got[2] == "realm" and got[4] == "password" and got[1].startswith("const:") and got[1] == got[3] and re.search(r"3a|':'|:", got[1]) is not None
        chk.ob("key-material", "long-term key = MD5(username ':' realm ':' password)", ok, detail="operands: %s" % got, how="ordered operands of the concatenation")
        # the separator constant is the single byte ':'
        seps = [x for x in ops if isinstance(x, tuple) and x[0] == "const"]
        okc = all(str(s[1]) in (":", "0x3a") or "':'" in str(s[1]) or str(s[1]).endswith(":") for s in seps)
        chk.ob("key-material", "the separators are the one-byte string \":\"", okc and len(seps) == 2, detail=repr(seps), how="constant")
    else:
        chk.fail("key-material", "exactly one Md5 update", detail="%d update call(s)" % len(upd))
    # short-term arm: password bytes
    intos = [(bi, t) for bi, t in b.calls() if og.callee_name(t).endswith("Into<std::vec::Vec<u8>>>::into")]
    ok = len(intos) == 1
    if ok:
        sh = shape(og.operand(intos[0][1]["args"][0]))
        while isinstance(sh, tuple) and sh[0] == "call" and sh[1].endswith("Clone>::clone"):
            sh = sh[2][0]
        ok = leaf_name(sh) == "password" and "ShortTerm" in repr(sh)
    chk.ob("key-material", "short-term key = the password bytes", ok, how="origin")


def validate_side(prog, chk):
    b, ups = instrumented_body(prog, VALIDATE)
    og = Origins(prog, b)
    rw = lambda o: shape(resolve_upvars(o, ups) if ups else o)
    calls = [(bi, t, og.callee_name(t)) for bi, t in b.calls()]
    for algo, vfn, tyname, extra in (("Sha1", MI + "::verify", MI, ({"off": 1}, 4)), ("Sha256", M2 + "::verify", M2, ({"off": 1, "attrlen": 1}, -16))):
        vs = [(bi, t) for bi, t, n in calls if n == vfn]
        if not chk.ob("validate-side", "%s: exactly one call of %s::verify" % (algo, tyname.rsplit("::", 1)[1]), len(vs) == 1, detail="%d call(s)" % len(vs)):
            continue
        vb, vt = vs[0]
        data, key, tag = [rw(og.operand(a)) for a in vt["args"]]
        # key
        ks = repr(key)
        okk = "make_hmac_key" in ks and ("('param', 2)" in ks or "credentials" in ks or "upvar" in ks)
        chk.ob("validate-side", "%s: key = make_hmac_key(credentials)" % algo, okk, detail=ks[:200], how="origin")
        # data region: to_vec(&self.data[..data_offset]) of the local handed to verify
        ds = repr(data)
        okd = re.search(r"to_vec", ds) is not None and re.search(r"RangeTo<usize>> for \[u8\]>::index", ds) is not None and "'data'" in ds
        chk.ob("validate-side", "%s: HMAC input = self.data[..offset of the attribute] (copied)" % algo, okd, detail=ds[:240], how="origin")
        # the length rewrite that dominates this verify call
        wr = [(bi, t) for bi, t, n in calls if n.endswith("ByteOrder>::write_u16") and b.dominates(bi, vb)]
        wr = [w for w in wr if not any(b.dominates(w[0], o[0]) and o is not w for o in wr)] or wr
        okw = False
        lf = None
        if wr:
            val = rw(og.operand(wr[-1][1]["args"][1]))
            lf = lin_of(val, [lambda s: "off" if isinstance(s, tuple) and s[0] in ("multi", "partial") and b.local_ty(s[1])["s"] == "usize" else None,
                              lambda s: "attrlen" if isinstance(s, tuple) and s[0] == "call" and re.search(r"Attribute>::length$", s[1]) else None])
            okw = lf == extra
        chk.ob("validate-side", "%s: length field rewritten to %s" % (algo, "offset + 24 - 20" if algo == "Sha1" else "offset + attr.length + 4 - 20"), okw,
               detail="value %r" % (lf,), how="origin (linear form)")
        # the tag: element 1 of the (algorithm, hmac) pair chosen below (attribute-choice rule checks the pairs)
        ts = repr(tag)
        okt = re.search(r"\('field', \('multi', \d+, 2\), '1'\)", ts) is not None
        chk.ob("validate-side", "%s: the tag compared is the hmac selected together with the algorithm" % algo, okt, detail=ts[:300], how="origin")
        # verdict discipline: result goes through `?`; Ok(algo) only on the Continue arm
        from rules.c01 import _ok_arm_dominates
        oks = [bi for bi, si, s in b.iter_stmts() if s["k"] == "assign" and s["rv"]["k"] == "aggregate" and s["rv"].get("adt") == "std::result::Result"
               and s["rv"].get("vname") == "Ok" and "IntegrityAlgorithm" in b.ty(s["pl"]["ty"])["s"] and b.dominates(vb, bi)]
        okv = bool(oks) and all(_ok_arm_dominates(prog, b, og, vb, bi) for bi in oks)
        chk.ob("validate-side", "%s: Ok(algo) is returned only after verify returned Ok" % algo, okv, how="dominance through Try::branch")
    # no Ok(algo) return that is not dominated by some verify call
    vblocks = [bi for bi, t, n in calls if n in (MI + "::verify", M2 + "::verify")]
    oks = [bi for bi, si, s in b.iter_stmts() if s["k"] == "assign" and s["rv"]["k"] == "aggregate" and s["rv"].get("adt") == "std::result::Result"
           and s["rv"].get("vname") == "Ok" and "IntegrityAlgorithm" in b.ty(s["pl"]["ty"])["s"]]
    chk.ob("validate-side", "every Ok(algorithm) return is dominated by a verify call", bool(oks) and all(any(b.dominates(v, o) for v in vblocks) for o in oks),
           how="dominance")
    # choice of attribute: (Sha256, hmac of the typed decode of the SHA-256 lookup), (Sha1, ... of the SHA-1 lookup)
    look = {}
    for bi, t, n in calls:
        if n.endswith("::raw_attribute"):
            c = const_int(_peel(og.operand(t["args"][1])))
            look[c] = t["dest"]["l"]
    chk.ob("attribute-choice", "lookups are raw_attribute(MESSAGE-INTEGRITY) and raw_attribute(MESSAGE-INTEGRITY-SHA256)", set(look) == {0x0008, 0x001C},
           detail=repr(sorted(look)), how="constants")
    pairs = []
    for bi, si, s_ in b.iter_stmts():
        if s_["k"] == "assign" and s_["rv"]["k"] == "aggregate" and s_["rv"].get("agg") == "tuple" and len(s_["rv"]["ops"]) == 2 \
                and "IntegrityAlgorithm" in b.ty(s_["pl"]["ty"])["s"]:
            a0 = shape(og.operand(s_["rv"]["ops"][0]))
            a1 = repr(rw(og.operand(s_["rv"]["ops"][1])))
            variant = a0[1].rsplit("::", 1)[1] if isinstance(a0, tuple) and a0[0] == "agg" else repr(a0)
            dec = "M2" if "MessageIntegritySha256 as std::convert::TryFrom" in a1.replace("<'a>", "") else ("MI" if "MessageIntegrity as std::convert::TryFrom" in a1.replace("<'a>", "") else "?")
            viahmac = "::hmac'" in a1
            pairs.append((variant, dec, viahmac))
    want = {("Sha256", "M2", True), ("Sha1", "MI", True)}
    chk.ob("attribute-choice", "SHA-256 is checked against the typed decode of MESSAGE-INTEGRITY-SHA256, SHA-1 against MESSAGE-INTEGRITY", set(pairs) == want,
           detail=repr(pairs), how="aggregate sites + origin")
    errs = [s_ for bi, si, s_ in b.iter_stmts() if s_["k"] == "assign" and s_["rv"]["k"] == "aggregate" and s_["rv"].get("vname") == "MissingAttribute"]
    chk.ob("attribute-choice", "a message without integrity attribute reports MissingAttribute", len(errs) >= 1, how="aggregate site")
    # the scan guards each verify by the algorithm selected (L3 premise of C01: same type constants)
    from rules.c01 import Lemmas
    lem = Lemmas(prog, chk, None)
    try:
        ok3, d3 = lem._scan_types()
    except Exception as e:
        ok3, d3 = False, "%s" % e
    chk.ob("attribute-choice", "the scan for the attribute position compares the types that were looked up", ok3, detail=d3, how="constants")


def _peel(o):
    from rules.c01 import strip_field
    return strip_field(o)


def verify_fns(prog, chk):
    for tyname, cmpfn in ((MI, "verify_slice"), (M2, "verify_truncated_left")):
        b, ups = instrumented_body(prog, tyname + "::verify")
        og = Origins(prog, b)
        names = [og.callee_name(t) for _, t in b.calls()]
        cmpc = [(bi, t) for bi, t in b.calls() if re.search(r"as hmac::Mac>::%s$" % cmpfn, og.callee_name(t))]
        ok = len(cmpc) == 1
        if ok:
            tag = repr(shape(resolve_upvars(og.operand(cmpc[0][1]["args"][1]), ups) if ups else og.operand(cmpc[0][1]["args"][1])))
            ok = "('param', 3)" in tag or "expected" in tag
        chk.ob("tag-comparison", "%s::verify compares the whole expected tag with hmac::Mac::%s" % (tyname.rsplit("::", 1)[1], cmpfn), ok,
               where=b.loc(), detail="calls: %s" % [n for n in names if "hmac" in n or "Mac" in n][:4], how="callee identity + origin")
        # outcome: Err(IntegrityCheckFailed) on mismatch, the result of the comparison is what is returned
        okr = False
        ret = ""
        for d in b.defs().get(0, []):
            if d[0] == "call":
                nm = og.callee_name(d[3])
                if nm.startswith("std::result::Result::") and "::map_err::<" in nm:
                    ret = repr(shape(og.operand(d[3]["args"][0])))
                    if cmpfn in ret:
                        okr = True
        chk.ob("tag-comparison", "%s::verify returns the comparison's verdict" % tyname.rsplit("::", 1)[1], okr, detail=ret[:160], how="origin")
        ups_ = [n for n in names if re.search(r"as hmac::Mac>::update$", n)]
        news = [n for n in names if re.search(r"new_from_slice$", n)]
        chk.ob("tag-comparison", "%s::verify keys the MAC once and feeds the data once" % tyname.rsplit("::", 1)[1], len(ups_) == 1 and len(news) == 1, how="call sites")


def build_side(prog, chk):
    b, ups = instrumented_body(prog, MB + "integrity_bytes_from_message")
    og = Origins(prog, b)
    wr = [(bi, t) for bi, t in b.calls() if og.callee_name(t).endswith("ByteOrder>::write_u16")]
    ok = len(wr) == 1
    lf = None
    if ok:
        is_len_field = lambda s: isinstance(s, tuple) and s[0] == "call" and re.search(r"Index(Mut)?<std::ops::Range<usize>>", s[1]) and s[2][1][0] == "agg" and s[2][1][2] == (("const", 2), ("const", 4))
        val = shape(og.operand(wr[0][1]["args"][1]))
        lf = lin_of(val, [lambda s: "old" if isinstance(s, tuple) and s[0] == "call" and s[1].endswith("ByteOrder>::read_u16") and is_len_field(s[2][0]) else None,
                          lambda s: "extra" if s == ("param", 2) else None])
        ret = repr(shape(og.local(0)))
        ok = lf == ({"old": 1, "extra": 1}, 0) and re.search(r"MessageBuilder:+build'", ret) is not None and is_len_field(shape(og.operand(wr[0][1]["args"][0])))
    chk.ob("build-side", "integrity_bytes_from_message(extra) = build() with the length field increased by extra", ok, detail="value %r" % (lf,), how="origin (linear form)")
    b, ups = instrumented_body(prog, MB + "add_message_integrity_unchecked")
    og = Origins(prog, b)
    calls = [(bi, t, og.callee_name(t)) for bi, t in b.calls()]
    for algo, tyname, extra, tlen in (("Sha1", MI, 24, 20), ("Sha256", M2, 36, 32)):
        comp = [(bi, t) for bi, t, n in calls if n == tyname + "::compute"]
        if not chk.ob("build-side", "%s: exactly one compute call" % algo, len(comp) == 1):
            continue
        data, key = [shape(og.operand(a)) for a in comp[0][1]["args"]]
        ds, ks = repr(data), repr(key)
        m = re.search(r"integrity_bytes_from_message', \(\('param', 1\), \('const', (\d+)\)", ds)
        chk.ob("build-side", "%s: HMAC input = integrity_bytes_from_message(%d) and %d = 4 + tag length %d" % (algo, extra, extra, tlen),
               m is not None and int(m.group(1)) == extra == 4 + tlen, detail=ds[:200], how="origin + constant")
        chk.ob("build-side", "%s: key = make_hmac_key(credentials)" % algo, "make_hmac_key" in ks and "('param', 2)" in ks, detail=ks[:160], how="origin")
    # the tag length constants agree with the decoders (C08 fixed-length / range)
    lb = prog.bodies.get("<%s as stun_types::attribute::Attribute>::length" % MI)
    chk.ob("build-side", "MESSAGE-INTEGRITY length() == 20", lb is not None and const_int(Origins(prog, lb).local(0)) == 20, how="constant")
    # pushes: the type recorded next to each tag
    from rules.c01 import sub_check
    ok, bad = sub_check(prog, "c11", rules={"sealing-push-pairing"})
    chk.ob("build-side", "the sealing attribute pushed and the type recorded for it agree (C11 pairing rule)", ok, detail=repr(bad), how="C11 rule instances re-evaluated")
