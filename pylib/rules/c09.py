"""C09 - FINGERPRINT is the RFC CRC; the parser binds it to the bytes before it (constants + wiring + C02 premises).

Decided: XOR constant 53 54 55 4E and its three users; the CRC algorithm handed to `Crc::new` is CRC-32/ISO-HDLC
(width 32, poly 04C11DB7, init/xorout FFFFFFFF, reflected in/out, check value CBF43926) and the pre-computed table
inside the constant is that algorithm's table (compared with an independently generated one); the value is emitted
big-endian; build side: the CRC input is build() with the length field increased by exactly 8 (= 4 + length of the
attribute appended); parse side: the CRC input is orig_data[..offset of the attribute] with the length field set to
offset + padded_len - 20, compared with the stored value, mismatch => FingerprintMismatch; length-field binding:
with C02 length agreement and 'nothing after FINGERPRINT' (evaluated here as premises) the rewritten length equals the
declared one, so corrupting the length field changes the accepted set.  NOT decided: the CRC's error-detection power."""
import re
from mir import Origins, strip, const_int, Origin
from rules.c17 import shape
from rules.c01 import sub_check

THOROUGH_CONFIGS = ("release", "arbitrary")
LEVEL = "other"
FP = "stun_types::attribute::fingerprint::Fingerprint"
XOR_CONST = FP + "::XOR_CONSTANT"
CRC_CONST = FP + "::compute::CRC_ALGO"
MB = "stun_types::message::MessageBuilder::<'a>::"
FROM_BYTES = "stun_types::message::Message::<'a>::from_bytes"


def crc32_table():
    t = []
    for i in range(256):
        c = i
        for _ in range(8):
            c = (c >> 1) ^ 0xEDB88320 if c & 1 else c >> 1
        t.append(c)
    return t


def lin_of(sh, leaves):
    """shape -> {leaf name: coeff}, const ; leaves: list of (predicate(shape) -> name)"""
    for pred in leaves:
        n = pred(sh)
        if n:
            return {n: 1}, 0
    if not isinstance(sh, tuple):
        return None
    if sh[0] == "const" and isinstance(sh[1], int):
        return {}, sh[1]
    if sh[0] == "cast":
        return lin_of(sh[1], leaves)
    if sh[0] == "field" and sh[2] in ("0", 0) and isinstance(sh[1], tuple) and sh[1][0] == "bin":
        return lin_of(sh[1], leaves)
    if sh[0] == "bin" and sh[1] in ("Add", "AddWithOverflow", "Sub", "SubWithOverflow"):
        a, b = lin_of(sh[2], leaves), lin_of(sh[3], leaves)
        if a is None or b is None:
            return None
        sgn = 1 if sh[1].startswith("Add") else -1
        t = dict(a[0])
        for k, v in b[0].items():
            t[k] = t.get(k, 0) + sgn * v
        return {k: v for k, v in t.items() if v}, a[1] + sgn * b[1]
    return None


def const_items(body):
    """named constants referenced by a body (operand 'item' fields)"""
    out = []

    def visit(op):
        if isinstance(op, dict):
            if op.get("k") == "const" and "item" in op:
                out.append(op["item"])
            for v in op.values():
                visit(v)
        elif isinstance(op, list):
            for v in op:
                visit(v)
    visit(body.blocks)
    return out


def run(prog, chk, tier):
    chk.explanation = __doc__.split("\n\n", 1)[1]
    chk.trusted += ["the crc crate computes the algorithm its table/parameters describe", "rustc constant evaluation"]
    # ---- (a) XOR constant
    xc = prog.consts.get(XOR_CONST, {}).get("v", {})
    chk.ob("xor-constant", "Fingerprint::XOR_CONSTANT = 53 54 55 4E", xc.get("bytes") == "5354554e", detail=repr(xc), how="constant evaluation")
    users = {"to_raw": "<%s as stun_types::attribute::AttributeWrite>::to_raw" % FP,
             "write_into_unchecked": "<%s as stun_types::attribute::AttributeWrite>::write_into_unchecked" % FP,
             "try_from": "<%s as std::convert::TryFrom<&stun_types::attribute::RawAttribute<'a>>>::try_from" % FP}
    for nm, key in users.items():
        b = prog.bodies.get(key)
        if b is None:
            chk.fail("xor-constant", "Fingerprint::%s not found" % nm)
            continue
        # the function together with the crate-local helpers it calls (the masking may live in a helper)
        bodies = [b]
        cg = prog.call_graph()
        frontier = [key]
        for _ in range(2):
            nxt = []
            for k_ in frontier:
                for bi, t, tg, cb in cg.get(k_, []):
                    for x in tg:
                        if x[0] == "local" and x[1].startswith(("stun_types::attribute::fingerprint::", "<" + FP)) and prog.bodies.get(x[1]) not in bodies and x[1] in prog.bodies:
                            bodies.append(prog.bodies[x[1]])
                            nxt.append(x[1])
            frontier = nxt
        # closures created in those bodies (iterator-style loops) belong to them
        for bb_ in list(bodies):
            for k_, cb_ in prog.bodies.items():
                if k_.startswith(bb_.key + "::{closure") and cb_ not in bodies:
                    bodies.append(cb_)
        refs, xors, opaque_sites = [], [], 0
        for bb_ in bodies:
            refs += [i for i in const_items(bb_) if i.endswith("Fingerprint::XOR_CONSTANT")]
            og = Origins(prog, bb_)
            for _, _, s in bb_.iter_stmts():
                if s["k"] == "assign" and s["rv"]["k"] == "binop" and s["rv"]["op"] == "BitXor":
                    xors.append((repr(og.operand(s["rv"]["a"])), repr(og.operand(s["rv"]["b"]))))
            for _, t_ in bb_.calls():
                if re.search(r"std::ops::BitXor(<.*>)?>::bitxor$", og.callee_name(t_)):
                    sa, sb = repr(og.operand(t_["args"][0])), repr(og.operand(t_["args"][1]))
                    if "5354554e" in (sa + sb).lower():
                        xors.append((sa, sb))
                    else:
                        opaque_sites += 1      # operands are the items of zipped iterators: their sources are not visible here
        # every xor site masks with the constant on exactly one side; one site per byte lane or one for the whole word.
        # When the lanes are zipped iterators, the site's operands are opaque: then the constant must be referenced by the
        # function and there must be exactly one such site.
        ok = (bool(xors) and all(("5354554e" in sa.lower()) != ("5354554e" in sb.lower()) for sa, sb in xors) and len({x for x in xors}) == 1 and not opaque_sites) or \
            (not xors and opaque_sites == 1)
        chk.ob("xor-constant", "Fingerprint::%s xors the value with XOR_CONSTANT" % nm, bool(refs) and ok,
               detail="%d reference(s), xor operands %r" % (len(refs), xors[:2]), how="constant identity + dependence, through crate-local helpers")
    # ---- (b) CRC algorithm: every crc::Crc<u32> constant of the crate (wherever it is declared)
    crcs = {k_: c_ for k_, c_ in prog.consts.items() if c_.get("ty_s") == "crc::Crc<u32>" and k_.startswith("stun_types::")}
    chk.ob("crc-algorithm", "the crate declares a Crc<u32> constant", len(crcs) >= 1, how="constant table")
    tbl = crc32_table()
    for k_, cc in sorted(crcs.items()):
        v = cc.get("v", {})
        raw = bytes.fromhex(v.get("bytes", "")) if v.get("bytes") else b""
        rel = v.get("relocs", [])
        algo = bytes.fromhex(rel[0]["to"].get("mem", "")) if rel and "mem" in rel[0]["to"] else b""
        words = {int.from_bytes(algo[i:i + 4], "little") for i in range(0, len(algo) - len(algo) % 4, 4)} if algo else set()
        ok = {0x04C11DB7, 0xFFFFFFFF, 0xCBF43926, 0xDEBB20E3} <= words and len(algo) >= 23 and algo[20] == 32 and algo[21] == 1 and algo[22] == 1
        chk.ob("crc-algorithm", "Crc::new(&algo): width 32, poly 04C11DB7, init/xorout FFFFFFFF, refin, refout, check CBF43926", ok,
               detail="%s: algorithm bytes %s" % (k_, algo.hex()), how="constant evaluation (pointee of the Crc constant)")
        got = [int.from_bytes(raw[8 + 4 * i:12 + 4 * i], "little") for i in range(256)] if len(raw) >= 8 + 1024 else []
        chk.ob("crc-algorithm", "the lookup table inside the constant is the CRC-32/ISO-HDLC table", got == tbl, how="256 table entries vs an independently generated table")
    from rules import content_e2 as CE
    CE.fingerprint_compute(prog, chk)
    # ---- (c) build side: decided from content flow (E2): what the CRC is computed over and what is appended
    CE.fingerprint_build(prog, chk)
    # ---- (d) parse side: decided inside the scripted parser walk (C02 rule `ending-automaton`): on every accepted sequence that
    # carries a FINGERPRINT the CRC was computed over bytes[0..2] ++ be16(len - 20) ++ bytes[4 .. start of the FINGERPRINT] (content
    # of the stream handed to the checksum, whatever helper assembles it) and the comparison with the stored value succeeded
    okp, badp = sub_check(prog, "c02", rules={"ending-automaton"})
    chk.ob("parse-side", "from_bytes: an accepted FINGERPRINT was compared with the CRC over the bytes before it, length field rewritten to cover it", okp,
           detail="failing: %s" % badp, how="E2 content of the checksum stream in the scripted walk (C02 ending-automaton instances)")
    # the CRC the builder appends is computed over build(); what write_into() emits into caller-provided storage are the same bytes
    # only if every writer covers its bytes and zeroes its padding (C12 rule instances)
    okw, badw = sub_check(prog, "c12", rules={"zero-padding", "writer-coverage", "builder-header"})
    chk.ob("build-side", "every serialisation path emits the bytes the CRC was computed over (writers cover their bytes, padding zeroed, header fully written)", okw,
           detail="failing: %s" % badw, how="C12 rule instances re-evaluated on this tree")
    # comparison and refusal are rows of the C02 automaton (crc-mismatch); length-field binding needs C02-1 and C02-3
    ok2, bad = sub_check(prog, "c02", rules={"ending-automaton", "length-agreement", "tiling"})
    chk.ob("length-field-binding", "C02 premises hold: length agreement, nothing accepted after FINGERPRINT, CRC mismatch refused, tiling", ok2,
           detail="failing: %s" % bad, how="C02 rule instances re-evaluated on this tree")


def _only_def_is(b, og, l, pat):
    ds = b.defs().get(l, [])
    return bool(ds) and all(d[0] == "call" and pat in og.callee_name(d[3]) for d in ds)
