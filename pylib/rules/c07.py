"""C07 - responses to authenticated requests are accepted only with valid integrity."""
import re
from mir import Origins, strip, short_span
from dtable import Walker, Unrecognised, pm, events_only, show
from rules import agent as A
from e1 import construct_sites, field_accesses

LEVEL = "proof"


def had_credentials_definition(prog, chk, rule="request_had_credentials"):
    """written only in the StunRequestState::new aggregate, as has_attribute(0x0008) || has_attribute(0x001C)
    evaluated on the request handed to `send`"""
    accs = [a for a in field_accesses(prog, A.REQ_V, "request_had_credentials") if a["how"] in ("write", "refmut")]
    chk.ob(rule, "no write to request_had_credentials after construction", not accs,
           accs[0]["where"] if accs else None, detail=repr([(a["body"], a["how"]) for a in accs]))
    cs = construct_sites(prog, A.REQ)
    chk.ob(rule, "StunRequestState constructed only in StunRequestState::new",
           [c["body"] for c in cs] == [A.REQ + "::new"], detail=repr([c["body"] for c in cs]))
    if not cs:
        return
    b = prog.bodies[A.REQ + "::new"]
    rv = cs[0]["stmt"]["rv"]
    idx = rv["fields"].index("request_had_credentials")
    op = rv["ops"][idx]
    og = Origins(prog, b)
    req = ("param", "request")
    has_mi = ("call", r"MessageBuilder::<'a>::has_attribute$", [req, ("const", 0x0008)])
    has_m2 = ("call", r"MessageBuilder::<'a>::has_attribute$", [req, ("const", 0x001C)])
    o = strip(og.operand(op))
    multi = {i for i in range(len(b.locals)) if len(b.defs().get(i, [])) > 1 and not b.is_arg(i)}

    def final_value(val):
        def oracle(o_, t, body):
            s = strip(o_)
            if pm(s, has_mi, b):
                return val["MI"]
            if pm(s, has_m2, b):
                return val["M2"]
            if pm(s, ("call", r"TransportType as std::cmp::PartialEq>::eq$", None), b):
                return 0
            return None
        w = Walker(prog, b, oracle, lambda *a: None, track_locals=multi, mut_arg_event=False)
        beh = w.run()
        v = o
        if v.k == "multi":
            last = None
            for e in beh:
                if e[0] == "set" and e[1] == v.a[0]:
                    last = e[2]
            v = strip(last) if last is not None else v
        return v, beh
    for mi in (0, 1):
        for m2 in (0, 1):
            try:
                v, beh = final_value({"MI": mi, "M2": m2})
            except Unrecognised as e:
                chk.fail(rule, "MI=%d,M2=%d|unrecognised-guard" % (mi, m2), short_span(b.term(e.bb)["span"]), str(e)[:400])
                continue
            want = bool(mi or m2)
            # the value is either a constant bool or the result of the has_attribute call the oracle answered
            if v.k == "const" and isinstance(v.a[0], bool):
                got = v.a[0]
            elif pm(v, has_mi, b):
                got = bool(mi)
            elif pm(v, has_m2, b):
                got = bool(m2)
            elif v.k == "bin" and v.a[0] in ("BitOr",) and pm(v.a[1], has_mi, b) and pm(v.a[2], has_m2, b):
                got = bool(mi or m2)
            else:
                got = None
            chk.ob(rule, "new|MI=%d,M2=%d -> %s" % (mi, m2, want), got == want, b.loc(),
                   detail="request_had_credentials evaluates to %r" % (v,), how=repr(v)[:200])


def run(prog, chk, tier):
    chk.explanation = (
        "handle_stun's decision table (all 32 valuations of: is_response, request found, request_had_credentials, "
        "remote_credentials set, validate_integrity result) extracted from MIR and compared with the spec: a response to "
        "a sealed request is delivered only on the path where remote_credentials is Some(c) and "
        "msg.validate_integrity(c) took its Ok arm (argument provenance = the remote_credentials field); every other "
        "such path re-inserts the unmodified taken state exactly once, returns Drop and does not validate the peer. "
        "request_had_credentials is written once, as has_attribute(0x0008) || has_attribute(0x001C). Correctness of "
        "validate_integrity itself is C04.")
    chk.trusted += ["rustc MIR", "HashMap semantics", "spec table in pylib/rules/agent.py"]
    A.handle_stun_table(prog, chk)
    A.taken_state_untouched(prog, chk)
    A.take_outstanding_table(prog, chk)
    # "validates under them": the wiring of validate_integrity (which attribute, which bytes, which key, whose verdict)
    # is decided by C04 and evaluated here as a premise
    from rules.c01 import sub_check
    ok, bad = sub_check(prog, "c04", rules={"validate-side", "attribute-choice", "tag-comparison", "key-material"})
    chk.ob("premise", "validate_integrity is wired as C04 requires (attribute choice, HMAC input, key, verdict, tag comparison)", ok,
           detail="failing: %s" % bad, how="C04 rule instances re-evaluated on this tree")
    had_credentials_definition(prog, chk)
    # remote_credentials: who may write
    accs = field_accesses(prog, A.AGENT_V, "remote_credentials")
    for a in accs:
        fn = re.sub(r"::\{closure#\d+\}", "", a["body"])
        ok = (a["how"] in ("ref", "copy", "discr") or
              (a["how"] in ("write", "drop") and fn.endswith("StunAgent::set_remote_credentials")))
        chk.ob("who-may-access", "remote_credentials|%s|%s" % (fn.split("::", 2)[-1], a["how"]), ok, a["where"])
    chk.floor("remote_credentials-sites", len(accs), 3)
