"""C07 - responses to authenticated requests are accepted only with valid integrity."""
import re
from mir import Origins, strip, short_span
from dtable import Walker, Unrecognised, pm, events_only, show
from rules import agent as A
from rules import agent_e2 as AE
from e1 import construct_sites, field_accesses

THOROUGH_CONFIGS = ("release", "arbitrary")
LEVEL = "proof"


def had_credentials_definition(prog, chk, rule="request_had_credentials"):
    """written only in the StunRequestState::new aggregate, as has_attribute(0x0008) || has_attribute(0x001C)
    evaluated on the request handed to `send`"""
    accs = [a for a in field_accesses(prog, A.REQ_V, "request_had_credentials") if a["how"] in ("write", "refmut")]
    chk.ob(rule, "no write to request_had_credentials after construction", not accs,
           accs[0]["where"] if accs else None, detail=repr([(a["body"], a["how"]) for a in accs]))
    cs = construct_sites(prog, A.REQ)
    chk.ob(rule, "StunRequestState constructed only in StunRequestState::new",
           [c["body"] for c in cs] == [A.REQ + "::new"], detail=repr([c["body"] for c in cs]))
    AE.req_new(prog, chk, rule, {"credentials"})


def run(prog, chk, tier):
    chk.explanation = (
        "handle_stun decided from the abstract interpreter's return states, one row per state over the facts {is_response, "
        "request outstanding under the message's transaction id, request_had_credentials of the request taken, "
        "remote_credentials set, verdict of validate_integrity}: a response to a sealed request is delivered only in the "
        "states where validate_integrity(msg, the remote_credentials field) was asked exactly once and answered Ok; in "
        "every other such state the request taken is put back unmodified under the same key, Drop is returned and the "
        "sender is not recorded as validated. request_had_credentials is has(MESSAGE-INTEGRITY) or "
        "has(MESSAGE-INTEGRITY-SHA256) of the request handed to send and is never written again. Correctness of "
        "validate_integrity itself is C04 (evaluated here as a premise).")
    chk.trusted += ["rustc MIR", "HashMap semantics (model table)", "specification rows in pylib/rules/agent_e2.py"]
    AE.handle_stun(prog, chk)
    # "validates under them": the wiring of validate_integrity (which attribute, which bytes, which key, whose verdict)
    # is decided by C04 and evaluated here as a premise
    from rules.c01 import sub_check
    ok, bad = sub_check(prog, "c04", rules={"validate-side", "attribute-choice", "tag-comparison", "key-material"})
    chk.ob("premise", "validate_integrity is wired as C04 requires (attribute choice, HMAC input, key, verdict, tag comparison)", ok,
           detail="failing: %s" % bad, how="C04 rule instances re-evaluated on this tree")
    had_credentials_definition(prog, chk)
    # remote_credentials: who may write
    AE.touchers(prog, chk, "who-may-access", A.AGENT_V, "remote_credentials", [r"StunAgent::"], [r"StunAgent::set_remote_credentials$"], 3)
