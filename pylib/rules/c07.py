"""C07 - responses to authenticated requests are accepted only with valid integrity."""
import re
from mir import Origins, strip, short_span
from dtable import Walker, Unrecognised, pm, events_only, show
from rules import agent as A
from rules import agent_e2 as AE
from e1 import construct_sites, field_accesses

LEVEL = "proof"


def had_credentials_definition(prog, chk, rule="request_had_credentials"):
    """written only in the StunRequestState::new aggregate, as has_attribute(0x0008) || has_attribute(0x001C)
    evaluated on the request handed to `send`"""
    accs = [a for a in field_accesses(prog, A.REQ_V, "request_had_credentials") if a["how"] in ("write", "refmut")]
    chk.ob(rule, "no write to request_had_credentials after construction", not accs,
           accs[0]["where"] if accs else None, detail=repr([(a["body"], a["how"]) for a in accs]))
    cs = construct_sites(prog, A.REQ)
    chk.ob(rule, "StunRequestState constructed only in StunRequestState::new",
           [c["body"] for c in cs] == [A.REQ + "::new"], detail=repr([c["body"] for c in cs]))
    AE.req_new(prog, chk, rule, {"credentials"})


def run(prog, chk, tier):
    chk.explanation = (
        "handle_stun's decision table (all 32 valuations of: is_response, request found, request_had_credentials, "
        "remote_credentials set, validate_integrity result) extracted from MIR and compared with the spec: a response to "
        "a sealed request is delivered only on the path where remote_credentials is Some(c) and "
        "msg.validate_integrity(c) took its Ok arm (argument provenance = the remote_credentials field); every other "
        "such path re-inserts the unmodified taken state exactly once, returns Drop and does not validate the peer. "
        "request_had_credentials is written once, as has_attribute(0x0008) || has_attribute(0x001C). Correctness of "
        "validate_integrity itself is C04.")
    chk.trusted += ["rustc MIR", "HashMap semantics", "spec table in pylib/rules/agent.py"]
    A.handle_stun_table(prog, chk)
    A.taken_state_untouched(prog, chk)
    A.take_outstanding_table(prog, chk)
    # "validates under them": the wiring of validate_integrity (which attribute, which bytes, which key, whose verdict)
    # is decided by C04 and evaluated here as a premise
    from rules.c01 import sub_check
    ok, bad = sub_check(prog, "c04", rules={"validate-side", "attribute-choice", "tag-comparison", "key-material"})
    chk.ob("premise", "validate_integrity is wired as C04 requires (attribute choice, HMAC input, key, verdict, tag comparison)", ok,
           detail="failing: %s" % bad, how="C04 rule instances re-evaluated on this tree")
    had_credentials_definition(prog, chk)
    # remote_credentials: who may write
    accs = field_accesses(prog, A.AGENT_V, "remote_credentials")
    for a in accs:
        fn = re.sub(r"::\{closure#\d+\}", "", a["body"])
        ok = (a["how"] in ("ref", "copy", "discr") or
              (a["how"] in ("write", "drop") and fn.endswith("StunAgent::set_remote_credentials")))
        chk.ob("who-may-access", "remote_credentials|%s|%s" % (fn.split("::", 2)[-1], a["how"]), ok, a["where"])
    chk.floor("remote_credentials-sites", len(accs), 3)
