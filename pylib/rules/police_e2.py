"""C16 - attribute policing decided from E2 return states with short symbolic lists: the message exposes k attributes of
symbolic types t_i, the caller supports m symbolic types s_j and requires n symbolic types r_l (all sizes 0..2); iterator
chains over such lists are evaluated element by element with the closures called in context, undecided comparisons fork
the path.  Every return state is compared with the specification evaluated on the comparisons the path decided:
unknown comprehension-required attributes (t_i < 0x8000 and different from every s_j) => the 420 reply listing exactly
them, in order; otherwise a required type missing from the message => the 400 reply; otherwise None."""
import re
from absint.lin import Lin
from absint.values import *
from absint.interp import event
from absint.models_content import known_eq
from absint.models_std2 import mk_listed
from rules.agent_e2 import Run, variant_of

MSG = "stun_types::message::Message::<'a>::"
CHECK = MSG + "check_attribute_types"
RESULT = "std::result::Result"


def raw_attr(tv, i):
    ln = Lin.var("plen%d" % i)
    return Struct({0: Struct({0: Struct({0: Num(tv)}), 1: Num(ln)}), 1: Enum("stun_types::data::Data", {0: Struct({0: Struct({0: Seq(ln)})})})})


def policing(prog, chk, rule="policing-table", sizes=(0, 1, 2)):
    body = prog.bodies.get(CHECK)
    if body is None:
        chk.fail(rule, "check_attribute_types not found")
        return
    arg = {body.locals[i]["name"]: i for i in range(1, body.arg_count + 1)}
    n_states = 0
    outcomes = set()
    for k in sizes:
        for m in sizes:
            for n in sizes:
                tvars = [Lin.var("t%d" % i) for i in range(k)]
                svars = [Lin.var("s%d" % i) for i in range(m)]
                rvars = [Lin.var("r%d" % i) for i in range(n)]

                def model_iter(c, tvars=tvars):
                    for i, tv in enumerate(tvars):
                        c.st.sys.add_range(Lin.var("plen%d" % i), 0, 65535)
                    return [(c.st, mk_listed([raw_attr(tv, i) for i, tv in enumerate(tvars)], "attrs"))]

                def model_unknown(c):
                    lst = c.deref(c.args[1])
                    vals = None
                    if isinstance(lst, Seq) and (is_listed(lst.items) or isinstance(lst.items, Empty)):
                        vals = tuple(lst.items.f[i] for i in sorted(lst.items.f)) if is_listed(lst.items) else ()
                    event(c.st, "unknown-attributes", vals, c.args[0])
                    return [(c.st, c.top_ret())]

                def model_bad(c):
                    event(c.st, "bad-request", c.args[0])
                    return [(c.st, c.top_ret())]

                def setup(run, st, svars=svars, rvars=rvars, tvars=tvars):
                    for v in svars + rvars + tvars:
                        st.sys.add_range(v, 0, 65535)
                        st.cells["ghost:q:" + next(iter(v.t))] = Num(v)
                    mk = lambda vs: Seq(Lin.const(len(vs)), None, Struct({i: Struct({0: Num(v)}) for i, v in enumerate(vs)}, tag="elems") if vs else EMPTY)
                    st.cells[run.it.cell_of(run.fr, arg["supported"])] = mk(svars)
                    st.cells[run.it.cell_of(run.fr, arg["required_in_msg"])] = mk(rvars)
                r = Run(prog, CHECK, track_content=True, bool_vars=False, max_parts=20000, setup=setup,
                        local_models={MSG + "iter_attributes": model_iter, MSG + "unknown_attributes": model_unknown, MSG + "bad_request": model_bad})
                if r.error or not r.results:
                    chk.fail(rule, "analysis|k=%d,m=%d,n=%d" % (k, m, n), detail=r.error or "no return state")
                    continue
                msgv = None
                for st, ret in r.results:
                    n_states += 1
                    tr = r.trace(st)
                    ua = [e for e in tr if e[0] == "unknown-attributes"]
                    br = [e for e in tr if e[0] == "bad-request"]
                    res = variant_of(prog, ret)
                    problems = []
                    # ---- the specification on the comparisons this path decided
                    undecided = []

                    def compr(tv):
                        if st.sys.entails_ge(Lin.const(0x7FFF) - tv):
                            return True
                        if st.sys.entails_ge(tv - 0x8000):
                            return False
                        undecided.append("comprehension of %r" % (tv,))
                        return None

                    def eq(a, b):
                        e_ = known_eq(st, Num(a), Num(b))
                        if e_ is None:
                            undecided.append("%r == %r" % (a, b))
                        return e_
                    unknown = []
                    for tv in tvars:
                        cr = compr(tv)
                        if cr is False:
                            continue
                        sup = [eq(tv, sv) for sv in svars]
                        if any(x is True for x in sup):
                            continue
                        if cr is True and all(x is False for x in sup):
                            unknown.append(tv)
                        else:
                            unknown.append(None)           # undecided: could be unknown
                    if any(u is None for u in unknown):
                        want = "undecided"
                    elif unknown:
                        want = "420"
                    else:
                        missing = []
                        for rv in rvars:
                            pres = [eq(rv, tv) for tv in tvars]
                            if any(x is True for x in pres):
                                continue
                            missing.append(True if all(x is False for x in pres) else None)
                        # one required type known to be missing settles it, whatever the others are
                        want = "400" if any(x is True for x in missing) else "undecided" if any(x is None for x in missing) else "none"
                        if want != "undecided":
                            undecided[:] = []
                    got = "420" if ua else "400" if br else "none"
                    outcomes.add(got)
                    if want == "undecided":
                        problems.append("the answer %s is given without deciding %s" % (got, sorted(set(undecided))[:3]))
                    elif got != want:
                        problems.append("answers %s where the specification gives %s (unknown %r)" % (got, want, unknown))
                    if got == "420" and want == "420":
                        vals = ua[0][1]
                        ok = vals is not None and len(vals) == len(unknown) and all(known_eq(st, x, Struct({0: Num(u)})) is True or known_eq(st, x, Num(u)) is True for x, u in zip(vals, unknown))
                        if not ok:
                            problems.append("the reply lists %r, not exactly the unknown comprehension-required types %r in message order" % (vals, unknown))
                    if (got == "none") != (res == "None"):
                        problems.append("the value returned is %s" % res)
                    if len(ua) + len(br) > 1:
                        problems.append("more than one reply is built")
                    chk.ob(rule, "k=%d,m=%d,n=%d|%s" % (k, m, n, got), not problems, body.loc(), detail="; ".join(sorted(set(problems))),
                           how="E2 return state over symbolic lists; specification evaluated on the comparisons the path decided")
    chk.floor(rule + "-rows", n_states, 60)
    chk.ob(rule, "all three outcomes are produced", outcomes >= {"420", "400", "none"}, body.loc(), detail=repr(outcomes))


# ------------------------------------------------------------------------------------------------ lookups over the exposed attributes

def lookups(prog, chk, rule="faithful-exposure"):
    """Message::raw_attribute / has_attribute (and attribute::<T> through its generic body, when an instance exists) answer
    from iter_attributes() and nothing else: with the iterator summarised as a short list of k attributes of symbolic
    types, the answer is the first listed attribute whose type is the one asked for (None / false when there is none)."""
    for fn in ("raw_attribute", "has_attribute"):
        key = MSG + fn
        body = prog.bodies.get(key)
        if body is None:
            chk.fail(rule, "Message::%s not found" % fn)
            continue
        arg = {body.locals[i]["name"]: i for i in range(1, body.arg_count + 1)}
        n = 0
        for k in (0, 1, 2):
            tvars = [Lin.var("t%d" % i) for i in range(k)]
            calls = []

            def model_iter(c, tvars=tvars, calls=calls):
                calls.append(1)
                for i in range(len(tvars)):
                    c.st.sys.add_range(Lin.var("plen%d" % i), 0, 65535)
                return [(c.st, mk_listed([raw_attr(tv, i) for i, tv in enumerate(tvars)], "attrs"))]

            def setup(run, st, tvars=tvars):
                q = Lin.var("asked")
                for v in tvars + [q]:
                    st.sys.add_range(v, 0, 65535)
                    st.cells["ghost:q:" + next(iter(v.t))] = Num(v)
                st.cells[run.it.cell_of(run.fr, arg["atype"])] = Struct({0: Num(q)})
            r = Run(prog, key, track_content=True, bool_vars=False, max_parts=4000, setup=setup, local_models={MSG + "iter_attributes": model_iter})
            if r.error or not r.results:
                chk.fail(rule, "Message::%s|analysis|%d attributes" % (fn, k), body.loc(), r.error or "no return state")
                continue
            q = Lin.var("asked")
            for st, ret in r.results:
                n += 1
                first = None
                undecided = False
                for i, tv in enumerate(tvars):
                    e_ = known_eq(st, Num(tv), Num(q))
                    if e_ is True:
                        first = i
                        break
                    if e_ is None:
                        undecided = True
                        break
                problems = []
                if undecided:
                    problems.append("answers without deciding whether attribute %d has the type asked for" % i)
                elif fn == "has_attribute":
                    from rules.agent_e2 import bool_of
                    ans = bool_of(st, ret)
                    if ans is not (first is not None):
                        problems.append("answers %r where the first match is %r" % (ret, first))
                else:
                    got = variant_of(prog, ret)
                    if first is None:
                        if got != "None":
                            problems.append("answers %s although no exposed attribute has that type" % got)
                    else:
                        raw = ret.v[1].get(0) if isinstance(ret, Enum) and 1 in ret.v else None
                        t_ = raw.get(0).get(0).get(0) if isinstance(raw, Struct) and isinstance(raw.get(0), Struct) and isinstance(raw.get(0).get(0), Struct) else None
                        l_ = raw.get(0).get(1) if isinstance(raw, Struct) and isinstance(raw.get(0), Struct) else None
                        if got != "Some" or not (isinstance(t_, Num) and st.sys.entails_eq(t_.e - tvars[first])) or not (isinstance(l_, Num) and st.sys.entails_eq(l_.e - Lin.var("plen%d" % first))):
                            problems.append("does not answer with the first exposed attribute of that type (attribute %d)" % first)
                if len(calls) < 1:
                    problems.append("does not consult iter_attributes()")
                chk.ob(rule, "Message::%s|%d exposed|%s" % (fn, k, "first match %s" % first if first is not None else "no match"), not problems, body.loc(),
                       detail="; ".join(problems), how="E2 return state over a short symbolic list of exposed attributes")
        chk.floor(rule + "-%s-rows" % fn, n, 4)
