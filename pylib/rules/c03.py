"""C03 - whatever the builder serialises, the parser reads back (wiring; DESIGN section 3 C03).

Decided for all builders:
 * len(build()) == byte_len(): both evaluate to 20 + S where S is the same (uninterpreted, deterministic) sum of
   padded_len() over the attribute list - an equality of abstract expressions under abstract interpretation, not
   a shape match; every padded_len() is 4 + a multiple of 4 (E2 on padded_attr_len), so the size is a multiple of 4;
 * write_into stores (byte_len() - 20) at [2..4] (linear form of the stored value); type/cookie/id placement is C19;
 * attributes are written in list order, contiguously, each at the offset accumulated from the previous return values:
   with the per-attribute writer summarised by what C12 proves for every type (appends exactly the bytes it
   reports), the builder's Ok(n) entails that exactly [0, n) was written append-only;
 * sealing: the integrity / fingerprint wiring of C04 and C09 (length bumps 24 / 36 / 8 = header + value of the
   attribute appended), evaluated here as premises;
 * the parse side is C02 / C10, the per-attribute limits agree between constructors and decoders (C08), the writers
   zero their padding (C12): evaluated here as premises.
NOT decided: equality of parsed and built values (run-time values); per-attribute codec round trips (C08)."""
import re
from absint.lin import Lin
from absint.values import *
from absint.interp import Interp, FailClosed, Frame, State, ISIZE_MAX
from absint.models import M, RESULT
from rules.c01 import INVARIANTS, sub_check
from rules.c09 import lin_of
from rules.c17 import shape
from rules import parse_e2 as PE
from mir import Origins, strip

LEVEL = "other"
MB = "stun_types::message::MessageBuilder::<'a>::"
PAL = "stun_types::attribute::padded_attr_len"


def model_attr_write_into(c):
    """assume-guarantee summary of the guarded per-attribute writer (C12 guarded-writer / writer-coverage, all 21
    types): Err(TooSmall) with nothing written, or Ok(n) having appended exactly n >= 4 bytes at the start of dest"""
    dest = c.deref(c.args[1])
    out = []
    s_err = c.st.copy()
    out.append((s_err, Enum(RESULT, {1: Struct({0: TOP})})))
    n = c.it.fresh_num(c.st, 4, None, "wrote")
    if isinstance(dest, Seq):
        c.st.sys.add_ge(dest.len - n.e)
        c.it.record_write(c.st, dest, Lin.const(0), n.e, "data")
    out.append((c.st, Enum(RESULT, {0: Struct({0: n})})))
    return out


def run(prog, chk, tier):
    chk.explanation = __doc__.split("\n\n", 1)[1]
    chk.trusted += ["external-callee model table", "a sum of multiples of four is a multiple of four (prose step)"]
    # ---- (a) build() and byte_len() agree
    it = Interp(prog, M, INVARIANTS)
    bl = prog.bodies[MB + "byte_len"]
    fr = Frame("E[b]", prog.bodies[MB + "into_owned"], 0, frozenset())
    st = State()
    st.cells[it.cell_of(fr, 1)] = it.top_of(st, bl, bl.locals[1]["ty"], hint="a1", region_prefix=fr.id + ":a1")
    selfv = st.cells[it.cell_of(fr, 1)]
    n = 0
    try:
        for s1, r1 in it.call_local(st, fr, 9000, MB + "byte_len", [selfv], {"span": bl.span}):
            for s2, r2 in it.call_local(s1, fr, 9001, MB + "build", [selfv], {"span": bl.span}):
                n += 1
                ok = isinstance(r1, Num) and isinstance(r2, Seq) and s2.sys.entails_eq(r2.len - r1.e)
                chk.ob("size-agreement", "len(build()) == byte_len()", ok,
                       detail="byte_len %r, build %r" % (r1, r2), how="E2: both are 20 + the same symbolic sum")
                ok = isinstance(r1, Num) and s2.sys.entails_ge(r1.e - 20)
                chk.ob("size-agreement", "byte_len() >= 20", ok, how="E2")
    except FailClosed as e:
        chk.fail("size-agreement", "analysis failed closed", detail=str(e))
    chk.floor("size-agreement-states", n, 1)
    chk.analysed["sum_model_used"] = "sum-of-padded-len" in it.assumed
    # padded_attr_len returns a multiple of 4 that is >= its argument and < argument + 4
    it2 = Interp(prog, M, INVARIANTS)

    def snap(it_, st_, fr_):
        st_.cells["ghost:x"] = st_.cells[it_.cell_of(fr_, 1)]
    res = it2.analyse_entry(PAL, setup=snap)
    okm = bool(res)
    for s_, r_ in res:
        if not s_.sys.feasible():
            continue
        x = s_.cells["ghost:x"].e
        bad = []
        for k in (1, 2, 3):
            t_ = s_.sys.copy()
            t_.add_eq(r_.e - Lin.var("zz_q").scale(4) - k)
            if t_.feasible():
                bad.append(k)
        okm = okm and not bad and s_.sys.entails_ge(r_.e - x) and s_.sys.entails_ge(x + 3 - r_.e)
    chk.ob("multiple-of-four", "padded_attr_len(x) is the multiple of 4 in [x, x + 3]", okm, how="E2 return states (integer congruence)")
    pb = [k for k in prog.bodies if k.startswith("<A as stun_types::attribute::AttributeExt>::padded_len") and not prog.bodies[k].mono]
    okp = False
    if pb:
        sh = shape(Origins(prog, prog.bodies[pb[0]]).local(0))
        lf = lin_of(sh, [lambda s: "pal" if isinstance(s, tuple) and s[0] == "call" and s[1] == PAL else None])
        okp = lf == ({"pal": 1}, 4)
    chk.ob("multiple-of-four", "padded_len() = 4 + padded_attr_len(length())", okp, how="origin (linear form)")
    # ---- (b) the length field: read off the content of the output buffer after write_into (E2, content tracking)
    from rules import content_e2 as CE
    from dtable import instrumented_body
    b, ups = instrumented_body(prog, MB + "write_into")
    og = Origins(prog, b)
    CE.header_clauses(prog, chk, {"length-field"})
    # ---- (c) contiguous, in order, at accumulated offsets
    it3 = Interp(prog, M, INVARIANTS)
    it3.local_models["stun_types::message::AttrOrRaw::<'a>::write_into"] = model_attr_write_into
    wk = MB + "write_into"
    wb = prog.bodies[wk]
    fr3 = Frame("E[wi]", wb, 0, frozenset())
    st3 = State()
    st3.cells[it3.cell_of(fr3, 1)] = it3.top_of(st3, wb, wb.locals[1]["ty"], hint="a1", region_prefix=fr3.id + ":a1")
    D = it3.fresh_num(st3, 0, ISIZE_MAX, "destlen").e
    st3.cells[it3.cell_of(fr3, 2)] = Seq(D, None, None, ("dest", Lin.const(0)))
    st3.cells["wlog:dest"] = Struct({0: Num(Lin.const(0)), 1: Num(Lin.const(0)), 2: Num(Lin.const(0)), 3: Num(Lin.const(-1)), 4: Num(Lin.const(-1))})
    n_ok = 0
    try:
        for s_, r_ in it3.run_body(fr3, st3):
            if not s_.sys.feasible():
                continue
            c = PE.classify(prog, r_)
            g = s_.cells.get("wlog:dest")
            if c[0] == "Ok":
                n_ok += 1
                hw, broken, pend = g.get(0).e, g.get(2).e, g.get(3).e
                ok = isinstance(c[1], Num) and s_.sys.entails_eq(c[1].e - hw) and s_.sys.entails_eq(broken) and s_.sys.entails_eq(pend + 1) and s_.sys.entails_ge(hw - 20)
                chk.ob("contiguous-write", "MessageBuilder::write_into: Ok(n) => exactly [0, n) was written append-only, header first", ok,
                       detail="returned %r, high-water mark %r" % (c[1], s_.sys.reduce(hw)), how="E2 write log with the per-attribute writer summarised (C12)")
    except FailClosed as e:
        chk.fail("contiguous-write", "analysis failed closed", detail=str(e))
    chk.floor("builder-ok-states", n_ok, 1)
    # the loop visits the attributes in list order: a plain slice iterator, no reordering adaptor
    # (callee identity over the function and its closures: the list is walked by a slice iterator created from
    #  self.attributes and consumed front to back - next / fold / try_fold / for_each - with no reordering adaptor)
    names = [og.callee_name(t) for _, t in b.calls()]
    for k_, cb_ in prog.bodies.items():
        if k_.startswith(wk + "::{closure"):
            names += [Origins(prog, cb_).callee_name(t) for _, t in cb_.calls()]
    its = [n_ for n_ in names if " as std::iter::Iterator>::" in n_ or "IntoIterator>::into_iter" in n_ or re.search(r"<impl \[.*\]>::iter$", n_)]
    made = any(("std::vec::Vec<stun_types::message::AttrOrRaw" in n_ and n_.endswith("into_iter")) or re.search(r"<impl \[stun_types::message::AttrOrRaw<.*>\]>::iter$", n_) for n_ in its)
    in_order = all(re.search(r"^<std::slice::Iter<.*> as std::iter::Iterator>::(next|fold|try_fold|for_each|try_for_each)(::<.*>)?$|into_iter$|<impl \[.*\]>::iter$", n_) for n_ in its)
    chk.ob("contiguous-write", "attributes are visited with a plain slice iterator (list order)", made and in_order, detail=repr(its), how="callee identity")
    # ---- (d, e) premises proved by the other rule sets on this tree
    for mod, rules, what in (("c04", {"build-side"}, "integrity sealing wiring (C04 build side)"),
                             ("c09", {"build-side"}, "fingerprint sealing wiring (C09 build side)"),
                             ("c02", None, "parser accepts well-formed messages (C02 structural clauses)"),
                             ("c10", None, "attribute exposure (C10)"),
                             ("c12", {"zero-padding", "writer-coverage"}, "writers cover their bytes and zero their padding (C12)"),
                             ("c08", {"constructor-limit", "length-range", "accepts-allowed"}, "constructor and decoder limits agree (C08)"),
                             ("c08", {"roundtrip", "address-fidelity"}, "typed values decode back to what was encoded: decode(to_raw(v)) = v per attribute type (C08)"),
                             ("c11", None, "refused builder operations leave no trace, queries agree with what is serialised (C11)")):
        ok, bad = sub_check(prog, mod, rules)
        chk.ob("premise", what, ok, detail="failing: %s" % bad, how="rule instances of %s re-evaluated on this tree" % mod.upper())
