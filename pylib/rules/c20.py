"""C20 - the agent is a pure function of its inputs (effect / provenance rules over the call graph)."""
import re
from mir import Origins, Origin, strip, short_span
from e1 import (classify_ext, field_accesses, uses_of_local, consumers_of, all_place_uses, call_sites)

LEVEL = "proof"

HASH_ITER = re.compile(
    r"^std::collections::(HashMap|HashSet)::<.*>::(iter|iter_mut|values|values_mut|keys|drain|retain|into_keys|into_values|extract_if)$"
    r"|^<(&mut |&)?std::collections::(HashMap|HashSet)<.*> as std::iter::IntoIterator>::into_iter$")
ORDER_PRESERVING_ADAPTORS = re.compile(
    r"std::iter::Iterator>?::(copied|cloned|map|filter|filter_map|enumerate|by_ref|inspect)(::<.*>)?$"
    r"|^<.* as std::iter::IntoIterator>::into_iter$")
COLLECT = re.compile(r"std::iter::Iterator>?::collect::<std::vec::Vec<")
SORTS = re.compile(r"^(std|core|alloc)::slice::<impl \[.*\]>::(sort|sort_unstable|sort_by|sort_by_key|sort_unstable_by|sort_unstable_by_key|sort_by_cached_key)(::<.*>)?$")
CMP_CALL = re.compile(r"std::cmp::(PartialOrd|Ord)(<.*>)?>::(lt|le|gt|ge|min|max|cmp|partial_cmp)$")


def agent_roots(prog, crate="stun_proto"):
    return sorted(k for k, b in prog.bodies.items() if b.crate == crate)


def effects(prog, chk, roots, allowed_statics, what="agent API"):
    """(a) forbidden effects unreachable, every external callee classified; (b) statics."""
    seen = prog.reach(roots)
    chk.analysed["reachable_bodies"] = len(seen)
    ext = prog.ext_callees(seen)
    chk.analysed["external_callees"] = len(ext)
    n_pure = 0
    for name in sorted(ext):
        cls = classify_ext(name)
        k, bi = ext[name][0]
        path = " -> ".join(prog.path_to(seen, k))
        where = short_span(prog.bodies[k].term(bi)["span"])
        if cls[0] == "forbidden":
            chk.fail("forbidden-effect", "%s|%s" % (k, re.sub(r"::<.*$", "", name)), where,
                     "%s reachable from the %s: %s; call path: %s" % (name, what, cls[1], path))
        elif cls[0] == "unclassified":
            chk.fail("unclassified-external", name, where,
                     "external callee %s is not in the effect table (fail closed); call path: %s" % (name, path))
        else:
            n_pure += 1
    chk.ob("effects-classified", "all external callees reachable from the %s are effect-free or tracing" % what,
           True, how="%d external callees classified over %d reachable bodies" % (n_pure, len(seen)))
    # local bodies that must not be reachable
    for k in seen:
        if k.endswith("TransactionId::generate"):
            chk.fail("forbidden-effect", "reach|TransactionId::generate", prog.bodies[k].loc(),
                     "TransactionId::generate (thread_rng) reachable: " + " -> ".join(prog.path_to(seen, k)))
    # statics referenced from reachable bodies
    n_st = 0
    for k in sorted(seen):
        b = prog.bodies[k]
        for st, where in static_refs(b):
            n_st += 1
            info = prog.statics.get(st)
            ty = info["ty_s"] if info else "?"
            if info is None and not st.split("::")[0] in ("stun_types", "stun_proto"):
                # foreign static (e.g. tracing globals): classify by path
                if re.match(r"^(tracing|tracing_core)::", st):
                    continue
                chk.fail("static", "%s|%s" % (k, st), where, "foreign static %s referenced" % st)
                continue
            if re.match(r"^(tracing|tracing_core)::", ty) or re.match(r"^&?\[?&?'?(static )?(tracing|tracing_core)::", ty):
                continue
            if st in allowed_statics:
                continue
            if info and info.get("mut"):
                chk.fail("static", "%s|%s" % (k, st), where, "mutable static %s referenced" % st)
                continue
            # immutable data statics without interior mutability are harmless constants
            if info and re.match(r"^(\[u8; \d+\]|&'static str|&str|u\d+|usize|bool)$", ty):
                continue
            chk.fail("static", "%s|%s" % (k, st), where, "static %s: %s referenced from %s is not in the allow table" % (st, ty, k))
    chk.ob("statics", "statics reachable from the %s are tracing call-sites, plain data, or the allow-listed counter" % what,
           True, how="%d static references inspected" % n_st)
    return seen


def static_refs(body):
    def ops():
        for bi, b in enumerate(body.blocks):
            for s in b["stmts"]:
                if s["k"] == "assign":
                    for o in _ops_of_rv(s["rv"]):
                        yield o, s.get("span")
            t = b["term"]
            for o in t.get("args", []):
                yield o, t.get("span")
            if t["k"] == "switch":
                yield t["op"], t.get("span")
    for o, sp in ops():
        if o and o.get("k") == "const" and "static" in o.get("v", {}):
            yield o["v"]["static"], short_span(sp)
    for bi, si, s in body.iter_stmts():
        if s["k"] == "assign" and s["rv"]["k"] == "thread_local_ref":
            yield "thread_local:" + s["rv"]["static"], short_span(s["span"])


def _ops_of_rv(rv):
    from e1 import rvalue_ops_fixed
    return rvalue_ops_fixed(rv)


def counter_flow(prog, chk, counter, builder_key, adt_variant, field):
    """(b) the global counter only feeds StunAgent.id, and id only feeds tracing / Debug output."""
    # every reference to the counter
    sites = []
    for k, b in prog.bodies.items():
        for st, where in static_refs(b):
            if st == counter:
                sites.append((k, where))
    chk.ob("counter-sites", "references to %s only in %s" % (counter, builder_key),
           all(k == builder_key for k, _ in sites) and len(sites) >= 1,
           where=sites[0][1] if sites else None, detail="referenced from %s" % sorted({k for k, _ in sites}))
    b = prog.bodies.get(builder_key)
    if b is None:
        chk.fail("counter-sites", "builder body missing", None, builder_key)
        return
    og = Origins(prog, b)
    # the aggregate StunAgent{id: X}: X must be the fetch_add result; the result must have no other consumer
    ok_agg = False
    for bi, si, s in b.iter_stmts():
        if s["k"] == "assign" and s["rv"]["k"] == "aggregate" and s["rv"].get("agg") == "adt" and \
                "%s::%s" % (s["rv"]["adt"], s["rv"]["vname"]) == adt_variant:
            idx = s["rv"]["fields"].index(field)
            o = og.operand(s["rv"]["ops"][idx])
            ok_agg = (o.k == "call" and re.search(r"Atomic(Usize|::<usize>)::fetch_add$", o.a[0]) and
                      any(x.k == "static" and x.a[0] == counter for x in o.walk()))
            # no other field takes a value derived from the counter
            for j, op in enumerate(s["rv"]["ops"]):
                if j != idx and any(x.k == "static" and x.a[0] == counter for x in og.operand(op).walk()):
                    ok_agg = False
    chk.ob("counter-flow", "%s value flows only into field `%s`" % (counter, field), ok_agg, where=b.loc())
    for bi, t in b.calls():
        if re.search(r"Atomic(Usize|::<usize>)::fetch_add$", og.callee_name(t)):
            cons = consumers_of(prog, b, t["dest"]["l"]) if not t["dest"]["p"] else [("other", "projected dest")]
            bad = [c for c in cons if c[0] not in ("dead",) and not (c[0] == "call" and re.match(r"^(tracing|core::fmt)", c[1]))]
            # the aggregate use shows up as the aggregate's destination local flowing to the return place
            bad = [c for c in bad if c != ("return",)]
            chk.ob("counter-flow", "fetch_add result has no consumer besides the StunAgent aggregate", not bad,
                   where=short_span(t["span"]), detail=repr(bad))
    # reads of the field: only into tracing / fmt
    accs = field_accesses(prog, adt_variant, field)
    for a in accs:
        if a["how"] == "write":
            chk.fail("id-flow", "write|%s" % a["body"], a["where"], "field `%s` written outside the constructor" % field)
            continue
        cons = a["consumers"]
        ok = bool(cons) and all(c[0] == "call" and re.match(r"^(tracing::|tracing_core::|core::fmt::|std::fmt::)", c[1]) for c in cons)
        chk.ob("id-flow", "read of `%s` in %s feeds only tracing/fmt" % (field, a["body"]), ok, a["where"],
               detail="consumers: %r" % (cons,))
    chk.floor("id-read-sites", len(accs), 1)


def hash_order(prog, chk, keys):
    """(d) no order-sensitive iteration over a RandomState HashMap/HashSet."""
    sites = 0
    for k in sorted(keys):
        b = prog.bodies[k]
        og = Origins(prog, b)
        for bi, t in b.calls():
            name = og.callee_name(t)
            if not HASH_ITER.match(name):
                continue
            if re.search(r"BuildHasherDefault|FxBuildHasher|FixedState", name):
                continue
            sites += 1
            fn = re.sub(r"::\{closure#\d+\}", "", k)
            meth = re.sub(r"^.*::", "", re.sub(r"::<[^:]*>$", "", name))
            inst = "%s|%s" % (fn, meth)
            verdict, detail = _iteration_verdict(prog, b, og, bi, t)
            chk.ob("hash-order", inst, verdict, short_span(t["span"]), detail,
                   how="iteration over std HashMap/HashSet (RandomState): " + detail)
    chk.counts["hash_iteration_sites"] = sites
    return sites


def _iteration_verdict(prog, b, og, bi, t):
    """Follow the iterator value: through order-preserving adaptors into either a `for` loop
    (next() in a natural loop) or a collect-then-sort snapshot."""
    if t["dest"]["p"]:
        return False, "iterator stored into a projected place (not analysed)"
    cur = t["dest"]["l"]
    hops = 0
    while hops < 12:
        hops += 1
        uses = [u for u in uses_of_local(b, cur) if u.kind in ("call_arg", "stmt") and u.how in ("move", "copy", "ref", "refmut")]
        if not uses:
            return True, "iterator unused"
        # follow plain moves / reborrows
        nxt = None
        verdicts = []
        for u in uses:
            if u.kind == "stmt":
                d = u.node["pl"]
                if d["p"]:
                    return False, "iterator stored into a field"
                nxt = d["l"]
                continue
            name = og.callee_name(u.node)
            if re.search(r"std::iter::Iterator>?::next$", name):
                verdicts.append(_loop_verdict(prog, b, og, u.bb, u.node))
            elif COLLECT.search(name):
                verdicts.append(_snapshot_verdict(prog, b, og, u.node))
            elif ORDER_PRESERVING_ADAPTORS.search(name):
                if u.node["dest"]["p"]:
                    return False, "adaptor result stored into a projected place"
                nxt = u.node["dest"]["l"]
            elif re.search(r"std::iter::Iterator>?::(min|max|min_by|min_by_key|max_by|max_by_key|count|all|any|sum)(::<.*>)?$", name):
                verdicts.append((True, "commutative reduction " + name.split("::")[-1]))
            elif re.match(r"^drop_glue|core::ptr::drop_in_place", name):
                continue
            else:
                return False, "iterator passed to %s, whose order sensitivity is unknown" % name
        if verdicts:
            bad = [v for v in verdicts if not v[0]]
            return (not bad), "; ".join(v[1] for v in (bad or verdicts))
        if nxt is None:
            return True, "iterator only dropped"
        cur = nxt
    return False, "iterator flow too long to follow"


def _loop_verdict(prog, b, og, bb, term):
    heads = [h for (_, h) in b.back_edges() if bb in b.natural_loop(h)]
    if not heads:
        return False, "Iterator::next outside any loop: only the first element in hash order is used"
    loop = set()
    for h in heads:
        loop |= b.natural_loop(h)
    d = term["dest"]["l"]
    early = []
    for x in sorted(loop):
        for s in b.succs(x):
            if s in loop:
                continue
            tb = b.blocks[s]
            if tb["term"]["k"] == "unreachable":
                continue
            tx = b.term(x)
            if tx["k"] == "switch":
                o = og.operand(tx["op"])
                if o.k == "discr" and strip(o.a[0]).k == "call" and strip(o.a[0]).a[1] == bb:
                    # the exit taken when next() returned None (variant 0)
                    vals = [v for v, tgt in tx["targets"] if tgt == s]
                    if vals == [0]:
                        continue
            early.append((x, s))
    if early:
        return False, "loop body leaves the loop early (%d exit edge(s) besides the iterator's None arm): which element is served first depends on hash order" % len(early)
    # no early exit: writes to state declared outside the loop must be order-insensitive selections
    outer_writes = []
    for x in sorted(loop):
        for si, s in enumerate(b.blocks[x]["stmts"]):
            if s["k"] != "assign":
                continue
            l = s["pl"]["l"]
            if _defined_only_inside(b, l, loop):
                continue
            if not _guarded_by_comparison_with(b, og, x, l, loop):
                outer_writes.append((l, short_span(s["span"])))
    if outer_writes:
        return False, "loop writes outer state without an order-insensitive selection: " + ", ".join("_%d at %s" % w for w in outer_writes)
    return True, "full traversal, outer state updated only by order-insensitive selection"


def _describe_exit(prog, b, og, x, s):
    # walk forward from s a few blocks to see whether it returns or merely breaks
    seen, q = set(), [s]
    while q and len(seen) < 12:
        n = q.pop()
        if n in seen:
            continue
        seen.add(n)
        if b.term(n)["k"] == "return":
            return "return"
        q.extend(b.succs(n))
    return "break"


def _defined_only_inside(b, l, loop):
    if b.is_arg(l) or l == 0:
        return False
    ds = b.defs().get(l, []) + b.defs().get(("partial", l), [])
    return bool(ds) and all(d[1] in loop for d in ds)


def _guarded_by_comparison_with(b, og, x, l, loop):
    """is block x (inside loop) control-dependent on a comparison that has local l as an operand?"""
    # walk up dominators within the loop
    idom = b.dominators()
    n = x
    while n in loop and n != idom.get(n):
        n = idom[n]
        if n not in loop:
            break
        t = b.term(n)
        if t["k"] == "switch":
            o = og.operand(t["op"])
            for sub in o.walk():
                if sub.k == "bin" and sub.a[0] in ("Lt", "Le", "Gt", "Ge"):
                    if _mentions_local(b, og, sub, l):
                        return True
                if sub.k == "call" and CMP_CALL.search(sub.a[0]):
                    if _mentions_local(b, og, sub, l):
                        return True
    return False


def _mentions_local(b, og, term, l):
    target = og.local(l)
    for sub in term.walk():
        if sub == target or (sub.k == "multi" and sub.a[0] == l) or (sub.k == "partial" and sub.a[0] == l):
            return True
    return False


def _snapshot_verdict(prog, b, og, collect_term):
    if collect_term["dest"]["p"]:
        return False, "collected snapshot stored into a projected place"
    v = collect_term["dest"]["l"]
    # every path from the collect to any other use of v must pass a sort of v: we require a sort call
    # taking a reference derived from v that dominates all non-sort uses
    uses = [u for u in uses_of_local(b, v) if u.kind in ("call_arg", "stmt", "switch") and u.how != "write"]
    sort_bbs = []
    others = []
    for u in uses:
        if u.kind == "stmt" and u.how in ("ref", "refmut"):
            cons = consumers_of(prog, b, u.node["pl"]["l"])
            if any(c[0] == "call" and (SORTS.match(c[1]) or re.search(r"Vec<.*> as std::ops::DerefMut>::deref_mut$", c[1])) for c in cons):
                # deref_mut -> sort: find the sort call
                sort_bbs.append(u.bb)
                continue
        others.append(u)
    real_sorts = [bi for bi, t in b.calls() if SORTS.match(og.callee_name(t)) and
                  any(x.k == "call" and x.a[1] == collect_term_bb(b, collect_term) for a in t["args"] for x in og.operand(a).walk())]
    if not real_sorts:
        return False, "snapshot of hash-ordered keys is used without being sorted"
    sbb = real_sorts[0]
    for u in others:
        if u.bb in sort_bbs:
            continue
        if not b.dominates(sbb, u.bb) or u.bb == sbb:
            if u.kind == "stmt" and u.how in ("ref", "refmut"):
                continue
            return False, "snapshot used at bb%d before it is sorted" % u.bb
    return True, "hash-ordered keys collected into a Vec and sorted by a total key before use"


def collect_term_bb(b, term):
    for bi, blk in enumerate(b.blocks):
        if blk["term"] is term:
            return bi
    return -1


def instants(prog, chk, req_variant):
    """(c) time: last_send_time is written only from the `now` parameter of the same poll; Durations
    come from constants / configuration."""
    accs = [a for a in field_accesses(prog, req_variant, "last_send_time") if a["how"] == "write"]
    for a in accs:
        b = prog.bodies[a["body"]]
        og = Origins(prog, b)
        s = a["use"].node
        o = og.rvalue(s["rv"])
        ok = False
        if o.k == "agg" and o.a[0] == "std::option::Option::Some":
            src = strip(o.a[1][0])
            # `now`: a parameter of this body, or (instrumented fn) an upvar of the body closure
            ok = src.k == "param" or (src.k == "field" and strip(src.a[0]).k == "param" and str(src.a[1]).startswith("upvar"))
        elif o.k == "agg" and o.a[0] == "std::option::Option::None":
            ok = True
        chk.ob("instant-provenance", "last_send_time written in %s from the caller-supplied instant" % re.sub(r"::\{closure#\d+\}", "", a["body"]),
               ok, a["where"], detail="value origin: %r" % (o,))
    chk.floor("last_send_time-writes", len(accs), 1)
    # construction sites: None
    from e1 import construct_sites
    for c in construct_sites(prog, req_variant.rsplit("::", 1)[0]):
        b = prog.bodies[c["body"]]
        og = Origins(prog, b)
        rv = c["stmt"]["rv"]
        idx = rv["fields"].index("last_send_time")
        o = og.operand(rv["ops"][idx])
        chk.ob("instant-provenance", "last_send_time initialised to None in %s" % c["body"],
               o.k == "agg" and o.a[0].endswith("Option::None"), c["where"], detail=repr(o))


def run(prog, chk, tier):
    chk.explanation = (
        "Effect and provenance analysis over the resolved cross-crate call graph rooted at every body of "
        "stun_proto: (a) every reachable external callee is classified against an allow table (fail closed on "
        "unknown) and none reads clock/env/fs/net/thread/random state; (b) the only data static is STUN_AGENT_COUNT "
        "and its value flows only into StunAgent.id, which is read only by tracing/Debug; (c) last_send_time is "
        "written only from the caller-supplied `now`; (d) no order-sensitive iteration over a RandomState hash "
        "collection. Decides purity/determinism structurally; Instant shift-equivariance follows because "
        "Instant values are only added to Durations and compared.")
    chk.trusted += ["rustc front end + MIR construction", "effect table in pylib/e1.py (PURE_PREFIXES/FORBIDDEN)",
                    "std HashMap/HashSet/Instant/Duration semantics", "tracing output is not an input of the agent"]
    chk.assumptions += ["attribute types implemented outside the two crates and handed to the builder as &dyn AttributeWrite are caller code"]
    roots = agent_roots(prog)
    chk.floor("agent-root-bodies", len(roots), 60)
    seen = effects(prog, chk, roots, {"stun_proto::agent::STUN_AGENT_COUNT"})
    counter_flow(prog, chk, "stun_proto::agent::STUN_AGENT_COUNT", "stun_proto::agent::StunAgentBuilder::build",
                 "stun_proto::agent::StunAgent::StunAgent", "id")
    instants(prog, chk, "stun_proto::agent::StunRequestState::StunRequestState")
    hash_order(prog, chk, seen)
    clock_argument(prog, chk)
    positive_control(chk)


def clock_argument(prog, chk, rule="clock-argument"):
    """(c, inter-procedural) the instant a request's schedule is computed from is the caller's: in every row of the send table
    the recorded last_send_time is Some(now) with `now` the argument of send, and in every row of the agent's poll table each
    request is polled with the `now` given to StunAgent::poll - not an instant remembered from an earlier call or derived from
    one (an epoch, a rounded tick).  Rows from the E2 decision tables of C05 / C06, only their instant clauses are read here."""
    from report import Check
    from rules import agent_e2 as AE
    sub = Check("C20", "quick", "other", 0)
    try:
        AE.send(prog, sub)
        AE.agent_poll(prog, sub)
    except Exception as e:
        chk.fail(rule, "analysis", detail="%s: %s" % (type(e).__name__, e))
        return
    rows = [o for o in sub.obs if o["rule"] in ("send-table", "agent-poll-table")]
    bad = [o for o in rows if not o["ok"] and "(instant provenance)" in (o.get("detail") or "")]
    failed = [o for o in rows if not o["ok"] and str(o["instance"]).startswith("analysis")]
    chk.ob(rule, "send records last_send_time = Some(now); poll hands its `now` to every request it polls", not bad and not failed,
           where=(bad[0].get("where") if bad else None), detail="; ".join("%s: %s" % (o["instance"], o.get("detail")) for o in (bad + failed)[:2])[:600],
           how="%d rows of the send / agent-poll decision tables (E2 return states)" % len(rows))
    chk.floor(rule + "-rows", len(rows), 30)


def positive_control(chk):
    """the zero-expectation rules above must fire on the deliberate violations of fixtures/positive
    (and stay silent on its look-alikes), otherwise they are dead"""
    import os
    from report import Check
    import facts, mir
    fdir = os.path.join(os.path.dirname(os.path.dirname(os.path.dirname(os.path.abspath(__file__)))), "fixtures", "positive")
    f, meta = facts.extract(repo=fdir, crates=("stunlint_fixture",), packages=("stunlint-fixture",))
    fp = mir.Program(f)
    c = Check("FIXTURE")
    roots = sorted(fp.bodies)
    seen = effects(fp, c, roots, set(), what="fixture")
    hash_order(fp, c, seen)
    bad = {"%s|%s" % (o["rule"], o["instance"]) for o in c.obs if not o["ok"]}
    must = {
        "forbidden-effect: Instant::now": lambda k: k.startswith("forbidden-effect|") and "Instant::now" in k,
        "forbidden-effect: std::env": lambda k: k.startswith("forbidden-effect|") and "std::env::var" in k,
        "forbidden-effect: std::thread": lambda k: k.startswith("forbidden-effect|") and "std::thread::current" in k,
        "static: Mutex table": lambda k: k.startswith("static|") and "TABLE" in k,
        "hash-order: early exit": lambda k: k == "hash-order|stunlint_fixture::order::hash_first|values",
        "hash-order: last wins": lambda k: k == "hash-order|stunlint_fixture::order::hash_last_wins|iter",
        "hash-order: unsorted snapshot": lambda k: k == "hash-order|stunlint_fixture::order::hash_snapshot_unsorted|keys",
    }
    for name, pred in must.items():
        chk.ob("positive-control", name, any(pred(k) for k in bad), "fixtures/positive/src/lib.rs",
               detail="rule did not fire on the fixture violation (rule dead?)", how="fired on fixture")
    must_not = ["hash_min_ok", "hash_sorted_ok", "btree_first_ok", "instant_math_ok"]
    for name in must_not:
        hit = [k for k in bad if name in k]
        chk.ob("negative-control", name, not hit, "fixtures/positive/src/lib.rs", detail="false alarm on look-alike: %r" % hit,
               how="silent on look-alike")
