"""C18 - every transmission is the unmodified request: write-once fields + positional provenance."""
import re
from mir import Origins, strip, short_span
from dtable import pm, instrumented_body, resolve_upvars, param_index
from rules import agent as A
from rules import agent_e2 as AE
from e1 import construct_sites, field_accesses

THOROUGH_CONFIGS = ("release", "arbitrary")
LEVEL = "proof"
WRITE_ONCE = ("bytes", "from", "to", "transport", "transaction_id")


def agg_fields(prog, body_key, adt, chk, rule):
    """the unique aggregate of `adt` in `body_key` -> (body, {field: origin})"""
    b = prog.bodies.get(body_key)
    if b is None:
        chk.fail(rule, "body-missing|" + body_key)
        return None, {}
    og = Origins(prog, b)
    sites = [(bi, s) for bi, si, s in b.iter_stmts() if s["k"] == "assign" and s["rv"]["k"] == "aggregate"
             and s["rv"].get("agg") == "adt" and s["rv"]["adt"] == adt]
    if len(sites) != 1:
        chk.fail(rule, "aggregate-count|%s|%s" % (body_key, adt), b.loc(), "expected exactly one %s aggregate, found %d" % (adt, len(sites)))
        return b, {}
    rv = sites[0][1]["rv"]
    return b, {f: og.operand(o) for f, o in zip(rv["fields"], rv["ops"])}


def run(prog, chk, tier):
    AE.DEEP[0] = (tier == "thorough")
    chk.explanation = (
        "write-once(StunRequestState.{bytes,from,to,transport,transaction_id}): never written, mutably borrowed or moved out "
        "after construction; StunRequestState is constructed only in ::new. Provenance decided from the abstract "
        "interpreter's return states, with byte containers carrying a content identity that copies (to_vec, into, "
        "to_owned, clone, Box/Vec conversions) preserve: new stores bytes = request.build(), from/to/transport = its "
        "arguments, transaction_id = the request's; send returns and records Transmit/state with data = msg.build(), the "
        "agent's transport and local address and the destination given (per transport variant, so a constant is told "
        "from a copy), recorded under the state's own transaction id; StunRequestState::poll's SendData carries the "
        "state's bytes/transport/from/to; StunAgent::poll returns exactly the Transmit the request produced; "
        "StunAgent::send_data and Transmit::into_owned keep data and addressing; peer_address returns the state's `to`.")
    chk.trusted += ["rustc MIR", "Vec/Box/slice copy semantics (model table: copies preserve content identity)"]
    rule = "write-once"
    n = 0
    for f in WRITE_ONCE:
        for a in field_accesses(prog, A.REQ_V, f):
            n += 1
            if a["how"] in ("write", "refmut", "move", "drop") and not a["body"].startswith("<" + A.REQ + " as std::fmt::Debug>"):
                chk.fail(rule, "%s|%s|%s" % (f, re.sub(r"::\{closure#\d+\}", "", a["body"]), a["how"]), a["where"],
                         "field `%s` of StunRequestState is %s outside the constructor" % (f, a["how"]))
    chk.ob(rule, "no write / &mut / move-out of {bytes,from,to,transport,transaction_id} after construction", True,
           how="%d access sites inspected" % n)
    chk.floor("write-once-access-sites", n, 10)
    A.no_whole_struct_writes(prog, chk, "no-struct-overwrite", A.REQ)
    cs = construct_sites(prog, A.REQ)
    chk.ob("who-may-construct", "StunRequestState constructed only in StunRequestState::new",
           [c["body"] for c in cs] == [A.REQ + "::new"], detail=repr([c["body"] for c in cs]))
    # ---- StunRequestState::new
    rule = "provenance"
    AE.req_new(prog, chk, rule, {"provenance"})
    # ---- what every producer of a Transmit hands out, decided from E2 return states (through send_data, Transmit::new,
    # Transmit::into_owned, Data::into_owned and DataSlice::to_owned, whatever their shape)
    AE.send(prog, chk)
    AE.req_poll(prog, chk)
    AE.plain_transmit(prog, chk, rule)
    AE.agent_poll(prog, chk)
    AE.handles(prog, chk, which=("peer_address",))
