"""C18 - every transmission is the unmodified request: write-once fields + positional provenance."""
import re
from mir import Origins, strip, short_span
from dtable import pm, instrumented_body, resolve_upvars, param_index
from rules import agent as A
from rules import agent_e2 as AE
from e1 import construct_sites, field_accesses

LEVEL = "proof"
WRITE_ONCE = ("bytes", "from", "to", "transport", "transaction_id")


def agg_fields(prog, body_key, adt, chk, rule):
    """the unique aggregate of `adt` in `body_key` -> (body, {field: origin})"""
    b = prog.bodies.get(body_key)
    if b is None:
        chk.fail(rule, "body-missing|" + body_key)
        return None, {}
    og = Origins(prog, b)
    sites = [(bi, s) for bi, si, s in b.iter_stmts() if s["k"] == "assign" and s["rv"]["k"] == "aggregate"
             and s["rv"].get("agg") == "adt" and s["rv"]["adt"] == adt]
    if len(sites) != 1:
        chk.fail(rule, "aggregate-count|%s|%s" % (body_key, adt), b.loc(), "expected exactly one %s aggregate, found %d" % (adt, len(sites)))
        return b, {}
    rv = sites[0][1]["rv"]
    return b, {f: og.operand(o) for f, o in zip(rv["fields"], rv["ops"])}


def run(prog, chk, tier):
    chk.explanation = (
        "write-once(StunRequestState.{bytes,from,to,transport,transaction_id}): assigned only in the StunRequestState::new "
        "aggregate, never written, never mutably borrowed; provenance chain checked positionally on resolved MIR operands: "
        "send -> new(msg, self.transport, self.local_addr, to); new: bytes <- request.build(), from/to/transport <- its "
        "parameters, transaction_id <- request.transaction_id(); StunRequestState::poll -> send_data(self.transport, "
        "&self.bytes, self.from, self.to) -> Transmit::new(bytes, transport, from, to) -> Transmit{data<-into(data), "
        "transport, from, to}; Transmit::into_owned and Data::into_owned keep every field; StunAgent::poll returns that "
        "Transmit through into_owned only; peer_address returns the state's `to`.")
    chk.trusted += ["rustc MIR", "Vec/Box copy semantics (to_vec/into/clone preserve content)"]
    rule = "write-once"
    n = 0
    for f in WRITE_ONCE:
        for a in field_accesses(prog, A.REQ_V, f):
            n += 1
            if a["how"] in ("write", "refmut", "move", "drop") and not a["body"].startswith("<" + A.REQ + " as std::fmt::Debug>"):
                chk.fail(rule, "%s|%s|%s" % (f, re.sub(r"::\{closure#\d+\}", "", a["body"]), a["how"]), a["where"],
                         "field `%s` of StunRequestState is %s outside the constructor" % (f, a["how"]))
    chk.ob(rule, "no write / &mut / move-out of {bytes,from,to,transport,transaction_id} after construction", True,
           how="%d access sites inspected" % n)
    chk.floor("write-once-access-sites", n, 10)
    A.no_whole_struct_writes(prog, chk, "no-struct-overwrite", A.REQ)
    cs = construct_sites(prog, A.REQ)
    chk.ob("who-may-construct", "StunRequestState constructed only in StunRequestState::new",
           [c["body"] for c in cs] == [A.REQ + "::new"], detail=repr([c["body"] for c in cs]))
    # ---- StunRequestState::new
    rule = "provenance"
    AE.req_new(prog, chk, rule, {"provenance"})
    # ---- send -> new (in the send table), poll -> send_data (in the request-poll table)
    A.send_table(prog, chk)
    AE.req_poll(prog, chk)
    # ---- send_data -> Transmit::new (positional)
    sd = prog.bodies["stun_proto::agent::send_data"]
    og = Origins(prog, sd)
    calls = [(bi, t) for bi, t in sd.calls() if re.search(r"Transmit::<'a>::new", og.callee_name(t))]
    ok = len(calls) == 1
    if ok:
        args = [og.operand(a) for a in calls[0][1]["args"]]
        ok = (pm(args[0], ("param", "bytes"), sd) and pm(args[1], ("param", "transport"), sd)
              and pm(args[2], ("param", "from"), sd) and pm(args[3], ("param", "to"), sd)
              and pm(og.local(0), ("call", r"Transmit::<'a>::new", None), sd))
    chk.ob(rule, "send_data|Transmit::new(bytes, transport, from, to)", ok, sd.loc())
    sda = prog.bodies[A.AGENT + "::send_data"]
    og = Origins(prog, sda)
    o = og.local(0)
    chk.ob(rule, "StunAgent::send_data|send_data(self.transport, bytes, self.local_addr, to)",
           pm(o, ("call", r"^stun_proto::agent::send_data$", [("field", ("param", "self"), "transport"), ("param", "bytes"),
                                                              ("field", ("param", "self"), "local_addr"), ("param", "to")]), sda),
           sda.loc(), detail=repr(o))
    # ---- Transmit::new / into_owned aggregates
    tnew = [k for k in prog.bodies if re.match(r"^stun_proto::agent::Transmit::<'a>::new(\[.*\])?$", k)]
    chk.floor("Transmit::new-bodies", len(tnew), 2)
    for key in tnew:
        tb, fl = agg_fields(prog, key, "stun_proto::agent::Transmit", chk, rule)
        if fl:
            ok = (pm(fl["data"], ("call", r"as std::convert::Into<stun_types::data::Data<'_>>>::into$|Into<.*Data.*>>::into$", [("param", "data")]), tb)
                  and pm(fl["transport"], ("param", "transport"), tb) and pm(fl["from"], ("param", "from"), tb)
                  and pm(fl["to"], ("param", "to"), tb))
            chk.ob(rule, "%s|field-wise" % key.split("agent::")[-1], ok, tb.loc(), detail=repr(fl))
    tb, fl = agg_fields(prog, "stun_proto::agent::Transmit::<'a>::into_owned", "stun_proto::agent::Transmit", chk, rule)
    if fl:
        s = ("param", "self")
        ok = (pm(fl["data"], ("call", r"Data::<'a>::into_owned$", [("field", s, "data")]), tb)
              and all(pm(fl[f], ("field", s, f), tb) for f in ("transport", "from", "to")))
        chk.ob(rule, "Transmit::into_owned|field-preserving", ok, tb.loc(), detail=repr(fl))
    # Data::into_owned: Borrowed(d) -> Owned(d.to_owned()), Owned(d) -> Owned(d)
    db = prog.bodies.get("stun_types::data::Data::<'a>::into_owned")
    if db is None:
        chk.fail(rule, "body-missing|Data::into_owned")
    else:
        og = Origins(prog, db)
        vals = []
        for bi, si, s in db.iter_stmts():
            if s["k"] == "assign" and s["pl"]["l"] == 0 and not s["pl"]["p"]:
                vals.append(og.rvalue(s["rv"]))
        s_ = ("param", "self")
        okb = any(pm(v, ("agg", r"Data::Owned$", [("call", r"DataSlice::<'a>::to_owned$", [("field", ("variant", s_, "Borrowed"), "0")])]), db) for v in vals)
        oko = any(pm(v, ("agg", r"Data::Owned$", [("field", ("variant", s_, "Owned"), "0")]), db) for v in vals)
        chk.ob(rule, "Data::into_owned|content-preserving arms", okb and oko and len(vals) == 2, db.loc(), detail=repr(vals))
        ds = prog.bodies.get("stun_types::data::DataSlice::<'a>::to_owned")
        og = Origins(prog, ds)
        o = og.local(0)
        chk.ob(rule, "DataSlice::to_owned|DataOwned(self.0.into())",
               pm(o, ("agg", r"DataOwned::DataOwned$", [("call", r"::into$", [("field", ("param", "self"), "0")])]), ds), ds.loc(), detail=repr(o))
    # ---- StunAgent::poll returns the Transmit unchanged: part of the agent-poll table
    A.agent_poll_table(prog, chk)
    # ---- peer_address
    for key in ("stun_proto::agent::StunRequest::<'a>::peer_address", "stun_proto::agent::StunRequestMut::<'a>::peer_address"):
        pb = prog.bodies[key]
        og = Origins(prog, pb)
        o = og.local(0)
        ok = pm(o, ("field", ("call", r"Option::<&stun_proto::agent::StunRequestState>::unwrap$",
                              [("call", r"StunAgent::request_state$", [("field", ("param", "self"), "agent"), ("field", ("param", "self"), "transaction_id")])]), "to"), pb)
        chk.ob(rule, "%s|state.to" % key.split("agent::")[-1], ok, pb.loc(), detail=repr(o))
