"""Scripted abstract execution of the two attribute walks (E2): the decoder of one attribute is replaced by a summary that
hands out an attribute of a chosen class - MESSAGE-INTEGRITY, MESSAGE-INTEGRITY-SHA256, FINGERPRINT or "any other type"
(a symbolic type different from the three) - with a symbolic length, so that every class sequence up to a bound is
explored as its own path with all lengths and bytes left symbolic.  What the walks do with each sequence is then read
from the return states and compared with the specification; the representation the source uses for its bookkeeping
(arrays, counters, flags, helper functions) does not matter."""
import re
from absint.lin import Lin
from absint.values import *
from absint.interp import event
from rules.agent_e2 import Run, variant_of, bool_of

RAW_FROM_BYTES = "stun_types::attribute::RawAttribute::<'a>::from_bytes"
FROM_BYTES = "stun_types::message::Message::<'a>::from_bytes"
ITER_NEXT = "<stun_types::message::MessageAttributesIter<'a> as std::iter::Iterator>::next"
RESULT = "std::result::Result"
VALIDATE = "stun_types::message::Message::<'a>::validate_integrity"
PADDED_LEN = re.compile(r"^<stun_types::attribute::RawAttribute<'.*> as stun_types::attribute::AttributeExt>::padded_len$|AttributeExt>::padded_len\[.*RawAttribute")


CLASSES = {"MI": 0x0008, "M2": 0x001C, "FP": 0x8028, "other": None}


def concrete(v):
    if isinstance(v, Num):
        return v.e.is_const()
    if isinstance(v, Cond):
        return v.k == "const"
    if isinstance(v, Struct):
        return bool(v.f) and all(concrete(x) for x in v.f.values())
    if isinstance(v, Enum):
        return all(concrete(x) or not x.f for x in v.v.values())
    if isinstance(v, Seq):
        return v.len.is_const() and is_listed(v.items) and all(concrete(x) for x in v.items.f.values())
    return False


def bookkeeping(c):
    """the concrete part of the caller's local state (flags, counters, short lists of constants): what the walk remembers
    of the attributes seen so far, whatever representation it uses"""
    pre = c.fr.id + ":_"
    return tuple(sorted("%s=%r" % (k_[len(pre):], v) for k_, v in c.st.cells.items() if k_.startswith(pre) and concrete(v) and not isinstance(v, Cond)))


def scripted_decoder(depth, classes=("other", "MI", "M2", "FP")):
    """summary of RawAttribute::from_bytes for the walks: Ok(an attribute of each class in turn) while fewer than `depth`
    attributes were handed out on this path, nothing afterwards (the path is not followed further)"""
    def model(c):
        g = c.st.cells.get("ghost:script:i")
        i = int(g.e.c) if isinstance(g, Num) and g.e.is_const() else 0
        if i >= depth:
            model.frontier.add(bookkeeping(c))
            return []
        (model.inner if i < depth - 1 else model.frontier).add(bookkeeping(c))
        data = c.deref(c.args[0])
        if not isinstance(data, Seq):
            return []
        event(c.st, "memory", i, bookkeeping(c))
        # tiling: this decode starts where the previous attribute's padded extent ended (ghost kept by the padded_len hook)
        w_ = data.content()
        gn = c.st.cells.get("ghost:walk:next")
        if isinstance(gn, Num) or gn is TOP:
            ok_ = src_atom(w_) and isinstance(gn, Num) and c.st.sys.entails_eq(w_[1] - gn.e)
            model.tiling.append((ok_, "attribute %d decoded at %r, previous padded extent ended at %r" % (i, w_, gn)))
            c.st.cells["ghost:walk:off"] = Num(w_[1]) if src_atom(w_) else TOP
            c.st.cells["ghost:walk:next"] = TOP
        out = []
        for cls in classes:
            st = c.st.copy()
            ln = Lin.var("alen%d" % i)
            st.sys.add_range(ln, 0, 65535)
            st.sys.add_ge(data.len - 4 - ln)
            if st.sys.bottom or not st.sys.feasible():
                continue
            if CLASSES[cls] is None:
                tv = Lin.var("othertype%d" % i)
                st.sys.add_range(tv, 0, 65535)
                for k_ in (0x0008, 0x001C, 0x8028):
                    st.sys.add_ne(tv - k_)
                st.cells["ghost:q:othertype%d" % i] = Num(tv)
                ty = Num(tv)
            else:
                ty = Num(Lin.const(CLASSES[cls]))
            st.cells["ghost:q:alen%d" % i] = Num(ln)
            st.cells["ghost:script:i"] = Num(Lin.const(i + 1))
            event(st, "attr", i, cls)
            val = Seq(ln, None, None, (data.view[0], data.view[1] + 4) if data.view is not None else None,
                      src_window(data.src, data.len, Lin.const(4)) if data.view is None else None)
            raw = Struct({0: Struct({0: Struct({0: ty}), 1: Num(ln)}), 1: Enum("stun_types::data::Data", {0: Struct({0: Struct({0: val})})})})
            out.append((st, Enum(RESULT, {0: Struct({0: raw})})))
        return out
    model.inner, model.frontier, model.tiling = set(), set(), []
    return model


def classes_of(trace):
    return tuple(e[2] for e in trace if e[0] == "attr")


# ------------------------------------------------------------------------------------------------ the parser's walk

def spec_parse(seq):
    """-> ('ok',) or ('err', position, kind) : the first offending attribute of a class sequence"""
    seen = []
    for i, c in enumerate(seq):
        if "FP" in seen:
            return ("err", i, "AttributeAfterFingerprint")
        if c == "other":
            if seen:
                return ("err", i, "AttributeAfterIntegrity")
            continue
        if c in seen:
            return ("err", i, "AttributeAfterIntegrity")
        seen.append(c)
    return ("ok",)


def ending_automaton(prog, chk, rule="ending-automaton", depth=3):
    body = prog.bodies.get(FROM_BYTES)
    if body is None:
        chk.fail(rule, "Message::from_bytes not found")
        return

    def setup(run, st):
        st.cells["ghost:script:i"] = Num(Lin.const(0))
        st.cells["ghost:walk:next"] = Num(Lin.const(20))
        st.cells["ghost:walk:off"] = TOP

    def post_padded(it, st, fr, ret):
        go = st.cells.get("ghost:walk:off")
        if isinstance(ret, Num) and isinstance(go, Num):
            st.cells["ghost:walk:next"] = Num(go.e + ret.e)
    dec = scripted_decoder(depth)
    r = Run(prog, FROM_BYTES, track_content=True, bool_vars=False, max_parts=20000, setup=setup, local_models={RAW_FROM_BYTES: dec},
            hooks={k_: post_padded for k_ in prog.bodies if PADDED_LEN.search(k_)})
    if r.error or not r.results:
        chk.fail(rule, "analysis", detail=r.error or "no return state")
        return
    by_seq = {}
    for st, ret in r.results:
        seq = classes_of(r.trace(st))
        res = variant_of(prog, ret)
        kind, pay = None, None
        if res == "Err":
            e = ret.v[1].get(0)
            kind = variant_of(prog, e)
            p_ = e.v[next(iter(e.v))].get(0) if isinstance(e, Enum) and len(e.v) == 1 and e.v[next(iter(e.v))].f else None
            while isinstance(p_, Struct) and len(p_.f) == 1:
                p_ = p_.get(0)
            pay = (st, p_)
        by_seq.setdefault(seq, []).append((res, kind, pay, st, ret))
    n = 0
    seqs = sorted(by_seq, key=lambda s: (len(s), s))
    order_kinds = ("AttributeAfterIntegrity", "AttributeAfterFingerprint")
    for seq in seqs:
        n += 1
        outs = by_seq[seq]
        spec = spec_parse(seq)
        problems = []
        oks = [o for o in outs if o[0] == "Ok"]
        order_errs = [o for o in outs if o[1] in order_kinds]
        if spec[0] == "ok":
            if order_errs:
                problems.append("a well-ordered sequence is refused with %s" % sorted({o[1] for o in order_errs}))
        else:
            if oks:
                problems.append("accepted, although attribute %d (%s) may not follow %s" % (spec[1], seq[spec[1]], list(seq[:spec[1]])))
            if spec[1] == len(seq) - 1:
                # the offending attribute is the last one handed out: its refusal must be there, with its type
                good = [o for o in order_errs if o[1] == spec[2]]
                if not good:
                    problems.append("attribute %d (%s) after %s is not refused with %s (outcomes %s)" % (spec[1], seq[spec[1]], list(seq[:spec[1]]), spec[2], sorted({(o[0], o[1]) for o in outs}, key=repr)))
                for o in good:
                    st_, p_ = o[2]
                    want = CLASSES[seq[spec[1]]]
                    okp = isinstance(p_, Num) and ((want is not None and st_.sys.const_value(p_.e) == want) or
                                                   (want is None and st_.sys.entails_eq(p_.e - Lin.var("othertype%d" % spec[1]))))
                    if not okp:
                        problems.append("the refusal names %r, not the type of the offending attribute" % (p_,))
                bad = [o for o in order_errs if o[1] != spec[2]]
                if bad:
                    problems.append("refused as %s where %s is required" % (sorted({o[1] for o in bad}), spec[2]))
            elif spec[1] < len(seq) - 1:
                problems.append("the walk continues past attribute %d (%s), which had to be refused" % (spec[1], seq[spec[1]]))
        # acceptance only when the attributes tile the whole buffer: the last padded extent ends at the buffer's end
        for o in oks:
            st_ = o[3]
            gn = st_.cells.get("ghost:walk:next")
            rv = o[4]
            dseq = rv.v[0].get(0).get(0) if isinstance(rv, Enum) and 0 in rv.v and isinstance(rv.v[0].get(0), Struct) else None
            if not (isinstance(gn, Num) and isinstance(dseq, Seq) and st_.sys.entails_eq(gn.e - dseq.len)):
                problems.append("accepted although the attributes are not shown to end exactly at the end of the buffer (next %r, length %r)" % (gn, dseq.len if isinstance(dseq, Seq) else None))
        # an accepted sequence ending in FINGERPRINT passed the CRC comparison
        if oks and "FP" in seq:
            for o in oks:
                evs = [e for e in r.trace(o[3]) if e[0] == "bytes-eq"]
                if not evs or evs[-1][3] is not True:
                    problems.append("accepted with a FINGERPRINT but without a successful comparison of the CRC")
                # ... and the CRC was computed over the bytes before the FINGERPRINT (the last attribute, 8 bytes) with the
                # length field rewritten to cover it: data[0..2] ++ be16(len - 20) ++ data[4 .. len - 8]
                from absint.models_content import content_segments, show_segments
                st_ = o[3]
                rv = o[4]
                dseq = rv.v[0].get(0).get(0) if isinstance(rv, Enum) and 0 in rv.v and isinstance(rv.v[0].get(0), Struct) else None
                crcs = [e for e in r.trace(st_) if e[0] == "crc"]
                okc = False
                shown = "no CRC computed"
                if crcs and isinstance(dseq, Seq) and isinstance(crcs[-1][1], Seq):
                    d_ = crcs[-1][1]
                    sg = content_segments(st_, d_)
                    shown = show_segments(sg)
                    L_ = dseq.len
                    did = dseq.content()[0] if dseq.content() is not None else None
                    if sg is not None and len(sg) == 3 and sg[0][0] == "win" and sg[2][0] == "win" and sg[1][0] == "be" and sg[1][1] == 2 and sg[1][2] is not None:
                        okc = (sg[0][1] == sg[2][1] and (did is None or sg[0][1] == did)
                               and st_.sys.entails_eq(sg[0][2]) and st_.sys.entails_eq(sg[0][3] - 2)
                               and st_.sys.entails_eq(sg[2][2] - 4) and st_.sys.entails_eq(sg[1][2] - (L_ - 20)))
                        # the hashed bytes end where the FINGERPRINT (the attribute decoded last) starts
                        go_ = st_.cells.get("ghost:walk:off")
                        if isinstance(go_, Num):
                            okc = okc and st_.sys.entails_eq(sg[2][3] + 4 - go_.e)
                        else:
                            okc = okc and st_.sys.entails_ge(L_ - sg[2][3] - 8)
                if not okc:
                    problems.append("the CRC of an accepted FINGERPRINT is not shown to cover bytes[0..2] ++ be16(len - 20) ++ bytes[4 .. start of the FINGERPRINT] (hashed: %s)" % shown[:200])
        chk.ob(rule, "sequence %s" % (",".join(seq) or "(none)"), not problems, body.loc(), detail="; ".join(sorted(set(problems))),
               how="E2 return states of the walk scripted with this class sequence")
    import itertools
    expected = {()}
    for k in range(1, depth + 1):
        for s_ in itertools.product(("other", "MI", "M2", "FP"), repeat=k):
            if spec_parse(s_[:-1])[0] == "ok":
                expected.add(s_)
    missing = sorted(expected - set(seqs))
    extra = sorted(set(seqs) - expected)
    chk.ob(rule, "exactly the class sequences up to length %d whose proper prefixes are well ordered were explored" % depth, not missing and not extra, body.loc(),
           detail="not explored: %s; explored beyond a refusal: %s" % (missing[:4], extra[:4]), how="%d sequences" % len(seqs))
    chk.floor(rule + "-sequences", n, len(expected))
    bad_t = [d for ok_, d in dec.tiling if not ok_]
    chk.ob("tiling", "Message::from_bytes: every attribute is decoded where the previous one's padded extent ended, the first at offset 20", bool(dec.tiling) and not bad_t, body.loc(),
           detail="; ".join(bad_t[:2]), how="ghost of the expected next offset checked at each of %d scripted decodes" % len(dec.tiling))
    if depth >= 5:
        # beyond the bound: what the walk remembers before decoding attribute number depth-1 / depth was already
        # seen before an earlier attribute, so longer sequences only revisit explored situations (the next step depends
        # on that memory and on the class of the attribute only: everything else is symbolic)
        new_mem = sorted(dec.frontier - dec.inner)
        chk.ob(rule, "longer sequences revisit explored situations: no new bookkeeping state appears at depth %d" % (depth - 1), not new_mem and bool(dec.inner), body.loc(),
               detail="new states: %s" % (new_mem[:2],), how="%d distinct bookkeeping states" % len(dec.inner))
    return by_seq


# ------------------------------------------------------------------------------------------------ the iterator's walk (C10)

ITER_ADT = "stun_types::message::MessageAttributesIter"
ITER_ATTRS = "stun_types::message::Message::<'a>::iter_attributes"


def spec_expose(sigma, c):
    """one attribute of class c in specification state sigma = (integrity seen, SHA-256 may directly follow)
    -> (exposed?, next state)"""
    seen, follow = sigma
    if not seen:
        if c == "MI":
            return True, (True, True)
        if c == "M2":
            return True, (True, False)
        return True, (False, False)
    if c == "FP":
        return True, (True, False)
    if c == "M2" and follow:
        return True, (True, False)
    return False, (True, False)


def memory_of(prog, sv):
    """the concrete fields of the iterator (its memory of what it has handed out), by field name"""
    names = [f["name"] for f in prog.adts[ITER_ADT]["variants"][0]["fields"]]
    out = {}
    if isinstance(sv, Struct):
        for i, v in sv.f.items():
            if isinstance(v, Cond) and v.k == "const":
                out[names[i]] = v
            elif concrete(v):
                out[names[i]] = v
    return out


def exposure_transducer(prog, chk, rule="exposure", depth=3):
    body = prog.bodies.get(ITER_NEXT)
    if body is None:
        chk.fail(rule, "MessageAttributesIter::next not found")
        return
    names = [f["name"] for f in prog.adts[ITER_ADT]["variants"][0]["fields"]]
    # ---- the initial memory: what iter_attributes() builds
    r0 = Run(prog, ITER_ATTRS, track_content=True, bool_vars=False)
    if r0.error or len(r0.results) != 1:
        chk.fail(rule, "iter_attributes|analysis", detail=r0.error or "%d return states" % len(r0.results))
        return
    st0, it0 = r0.results[0]
    mem0 = memory_of(prog, it0)
    di = it0.get(names.index("data_i")) if isinstance(it0, Struct) and "data_i" in names else None
    chk.ob(rule, "iter_attributes() starts the walk at offset 20 of the message", isinstance(di, Num) and st0.sys.const_value(di.e) == 20, prog.bodies[ITER_ATTRS].loc(), detail=repr(it0)[:200])
    key_of = lambda mem: tuple(sorted((k_, repr(v)) for k_, v in mem.items()))
    todo = [(mem0, (False, False), ())]
    seen_states = {key_of(mem0): (False, False)}
    n_runs = n_rows = 0
    while todo:
        mem, sigma, hist = todo.pop(0)
        n_runs += 1

        def setup(run, st, mem=mem):
            st.cells["ghost:script:i"] = Num(Lin.const(0))
            sv = st.cells.get(run.self_cell)
            if isinstance(sv, Struct):
                for nm, v in mem.items():
                    sv = sv.with_field(names.index(nm), v)
                st.cells[run.self_cell] = sv
                st.cells["ghost:self0"] = sv
        dec = scripted_decoder(depth)
        r = Run(prog, ITER_NEXT, track_content=True, bool_vars=False, max_parts=20000, setup=setup, local_models={RAW_FROM_BYTES: dec})
        if r.error or not r.results:
            chk.fail(rule, "next|analysis from %r" % (key_of(mem),), detail=r.error or "no return state")
            return
        for st, ret in r.results:
            seq = classes_of(r.trace(st))
            res = variant_of(prog, ret)
            problems = []
            # specification: which of the decoded attributes is the first one exposed from sigma
            s_ = sigma
            first = None
            for j, c_ in enumerate(seq):
                ex, s_ = spec_expose(s_, c_)
                if ex:
                    first = j
                    break
            self_now = r.self_now(st)
            mem1 = memory_of(prog, self_now)
            if res == "Some":
                n_rows += 1
                j = len(seq) - 1
                if first != j:
                    problems.append("hands out attribute %d of %s where the specification exposes %s" % (j, list(seq), "attribute %d" % first if first is not None else "none of them"))
                raw = ret.v[1].get(0)
                hdr = raw.get(0) if isinstance(raw, Struct) else None
                t_ = hdr.get(0).get(0) if isinstance(hdr, Struct) and isinstance(hdr.get(0), Struct) else None
                l_ = hdr.get(1) if isinstance(hdr, Struct) else None
                want = CLASSES[seq[j]] if seq else None
                okt = isinstance(t_, Num) and seq and ((want is not None and st.sys.const_value(t_.e) == want) or (want is None and st.sys.entails_eq(t_.e - Lin.var("othertype%d" % j))))
                okl = isinstance(l_, Num) and st.sys.entails_eq(l_.e - Lin.var("alen%d" % j))
                if not (okt and okl):
                    problems.append("the attribute handed out is not the one decoded last (type %r, length %r)" % (t_, l_))
                # remember the situation reached (with the specification state reached by the same history)
                k1 = key_of(mem1)
                if first == j:
                    if k1 in seen_states and seen_states[k1] != s_:
                        problems.append("the iterator's memory %r stands for two different situations %r / %r" % (k1, seen_states[k1], s_))
                    elif k1 not in seen_states:
                        seen_states[k1] = s_
                        todo.append((mem1, s_, hist + seq))
            elif res == "None":
                if first is not None:
                    problems.append("stops although attribute %d of %s had to be exposed" % (first, list(seq)))
            chk.ob(rule, "after %s|%s|%s" % (",".join(hist) or "start", ",".join(seq) or "end of data", res), not problems, body.loc(), detail="; ".join(sorted(set(problems))),
                   how="E2 return state of next() scripted with these classes, from the memory reached by that history")
        if n_runs > 24:
            chk.fail(rule, "the iterator's memory does not close after 24 situations", body.loc())
            break
    chk.floor(rule + "-rows", n_rows, 12)
    chk.ob(rule, "the situations reached are the three of the specification (before integrity, directly after MESSAGE-INTEGRITY, after integrity)", sorted(set(seen_states.values())) == [(False, False), (True, False), (True, True)],
           body.loc(), detail=repr(seen_states))


# ------------------------------------------------------------------------------------------------ tiling of a walk

def tiling_walk(prog, chk, rule, key, content_id, start, label):
    """Every decode of one attribute in `key` starts where the previous attribute's padded extent ended, the first one at
    `start` (a constant, or the name of the usize field of `self` that holds the cursor), over the content `content_id`.
    Decided inductively: two ghosts (offset of the last decode, padded length of the attribute it returned) are kept across
    the loop's joins, and at every decode the argument window must start at their sum."""
    body = prog.bodies.get(key)
    if body is None:
        chk.fail(rule, "%s not found" % label)
        return
    checks = []

    def pre_decode(it, st, fr, args):
        d = args[0]
        n = 0
        while isinstance(d, Ref) and n < 4:
            d = it.load(st, d.cell, d.path)
            n += 1
        w = d.content() if isinstance(d, Seq) else None
        gn = st.cells.get("ghost:walk:next")
        ok = src_atom(w) and w[0] == content_id and isinstance(gn, Num) and st.sys.entails_eq(w[1] - gn.e)
        checks.append((ok, "window %r where the previous attribute's padded extent ended at %r" % (w, gn)))
        st.cells["ghost:walk:off"] = Num(w[1]) if src_atom(w) else TOP
        st.cells["ghost:walk:next"] = TOP

    def post_padded(it, st, fr, ret):
        go = st.cells.get("ghost:walk:off")
        if isinstance(ret, Num) and isinstance(go, Num):
            st.cells["ghost:walk:next"] = Num(go.e + ret.e)
    pad_keys = [k_ for k_ in prog.bodies if PADDED_LEN.search(k_)]

    def setup(run, st):
        if isinstance(start, int):
            st.cells["ghost:walk:next"] = Num(Lin.const(start))
        else:
            sv = st.cells.get(run.self_cell)
            names = [f["name"] for f in prog.adts[ITER_ADT]["variants"][0]["fields"]]
            v = sv.get(names.index(start)) if isinstance(sv, Struct) and start in names else None
            st.cells["ghost:walk:next"] = v if isinstance(v, Num) else TOP
        st.cells["ghost:walk:off"] = TOP
    r = Run(prog, key, track_content=True, bool_vars=False, path_sensitive=False, setup=setup, max_parts=4000,
            pre_hooks={RAW_FROM_BYTES: pre_decode}, hooks={k_: post_padded for k_ in pad_keys})
    if r.error:
        chk.fail(rule, "%s|analysis" % label, detail=r.error)
        return
    bad = [d for ok, d in checks if not ok]
    chk.ob(rule, "%s: every attribute is decoded where the previous one's padded extent ended, the first at %s" % (label, start), bool(checks) and not bad, body.loc(),
           detail="; ".join(bad[:2]), how="E2 with two ghosts kept across the loop (inductive), %d decode call contexts" % len(checks))


# ------------------------------------------------------------------------------------------------ the 20-byte header

HDR_FROM_BYTES = "stun_types::message::MessageHeader::from_bytes"
COOKIE_BYTES = (0x21, 0x12, 0xA4, 0x42)


def header_semantics(prog, chk, rule="header-acceptance", exposure_rule="faithful-exposure"):
    """MessageHeader::from_bytes decided over the bytes of its input (numbers read from the buffer are defined over byte
    variables; shifts, masks and comparisons are evaluated exactly on those): Ok iff at least 20 bytes, the top two bits of
    byte 0 clear and bytes 4..8 = 21 12 A4 42; the fields returned are the type word (bytes 0..2), the length (bytes 2..4)
    and the transaction id (bytes 8..20)."""
    body = prog.bodies.get(HDR_FROM_BYTES)
    if body is None:
        chk.fail(rule, "MessageHeader::from_bytes not found")
        return
    r = Run(prog, HDR_FROM_BYTES, track_content=True, bool_vars=False, path_sensitive=True, byte_defs=True, max_parts=2000)
    if r.error or not r.results:
        chk.fail(rule, "analysis", detail=r.error or "no return state")
        return
    b = lambda k: Lin.var("rd8@in:data+%d" % k)
    n_ok = 0
    kinds = set()
    for st, ret in r.results:
        res = variant_of(prog, ret)
        d = st.cells.get(r.it.cell_of(r.fr, 1))
        L = d.len if isinstance(d, Seq) else None
        sy = st.sys.copy()
        for k in range(8):
            sy.add_range(b(k), 0, 255)
        problems = []
        if res == "Ok":
            n_ok += 1
            kinds.add("Ok")
            if L is None or not sy.entails_ge(L - 20):
                problems.append("Ok with fewer than 20 bytes possible")
            if not sy.entails_ge(Lin.const(63) - b(0)):
                problems.append("Ok although the top two bits of the first byte may be set")
            for k, cv in enumerate(COOKIE_BYTES):
                if not sy.entails_eq(b(4 + k) - cv):
                    problems.append("Ok although byte %d is not shown to be 0x%02X" % (4 + k, cv))
            hdr = ret.v[0].get(0)
            names = [f["name"] for f in prog.adts["stun_types::message::MessageHeader"]["variants"][0]["fields"]]
            def fld(nm):
                v = hdr.get(names.index(nm)) if isinstance(hdr, Struct) else None
                n_ = 0
                while isinstance(v, Struct) and len(v.f) == 1 and n_ < 3:
                    v = v.get(next(iter(v.f)))
                    n_ += 1
                return v
            mt, ln, tid = fld("mtype"), fld("length"), fld("transaction_id")
            if not (isinstance(mt, Num) and sy.entails_eq(mt.e - b(0).scale(256) - b(1))):
                chk.ob(exposure_rule, "header.mtype is the big-endian word in bytes 0..2", False, body.loc(), detail=repr(mt))
            else:
                chk.ob(exposure_rule, "header.mtype is the big-endian word in bytes 0..2", True, body.loc(), how="E2 over byte variables")
            okl = isinstance(ln, Num) and sy.entails_eq(ln.e - b(2).scale(256) - b(3))
            chk.ob(exposure_rule, "header.length is the big-endian word in bytes 2..4", okl, body.loc(), detail=repr(ln), how="E2 over byte variables")
            okt = isinstance(tid, Num) and (sy.entails_eq(tid.e - Lin.var("rd96@in:data+8")) or _tid_bytes(sy, tid.e))
            chk.ob(exposure_rule, "header.transaction_id is the 96-bit number in bytes 8..20", okt, body.loc(), detail="%r" % (tid,), how="E2 over byte variables")
        else:
            e = ret.v[1].get(0) if isinstance(ret, Enum) and 1 in ret.v else None
            en = variant_of(prog, e)
            kinds.add(en)
            if en == "Truncated":
                ex, ac = e.v[next(iter(e.v))].get(0), e.v[next(iter(e.v))].get(1)
                if not (L is not None and sy.entails_ge(Lin.const(19) - L) and isinstance(ex, Num) and sy.entails_eq(ex.e - 20) and isinstance(ac, Num) and sy.entails_eq(ac.e - L)):
                    # the type decoder's own Truncated{2, len} can only occur below 2 bytes, which is below 20
                    problems.append("Truncated is not {expected: 20, actual: len} with len < 20")
            elif en == "NotStun":
                s2 = sy.copy()
                s2.add_ge(Lin.const(63) - b(0))
                for k, cv in enumerate(COOKIE_BYTES):
                    s2.add_eq(b(4 + k) - cv)
                if L is not None:
                    s2.add_ge(L - 20)
                if not s2.bottom and s2.feasible():
                    problems.append("NotStun is possible for a buffer with clear top bits and the magic cookie")
            else:
                problems.append("unexpected refusal %s" % en)
        chk.ob(rule, "MessageHeader::from_bytes|%s" % (res if res == "Ok" else en), not problems, body.loc(), detail="; ".join(problems), how="E2 return state over byte variables")
    chk.floor(rule + "-ok-states", n_ok, 1)
    chk.ob(rule, "outcomes are Ok | NotStun | Truncated", kinds <= {"Ok", "NotStun", "Truncated"} and {"Ok", "NotStun", "Truncated"} <= kinds, body.loc(), detail=repr(kinds))


def _tid_bytes(sy, e):
    acc = Lin.const(0)
    for k in range(12):
        acc = acc + Lin.var("rd8@in:data+%d" % (8 + k)).scale(1 << (8 * (11 - k)))
    return sy.entails_eq(e - acc)


def getter_semantics(prog, chk, rule="faithful-exposure"):
    """Message::transaction_id / get_type read the same bytes the header decoder validated"""
    MSGNS = "stun_types::message::Message::<'a>::"
    for fn, what in (("transaction_id", "tid"), ("get_type", "type")):
        key = MSGNS + fn
        body = prog.bodies.get(key)
        if body is None:
            chk.fail(rule, "Message::%s not found" % fn)
            continue
        r = Run(prog, key, track_content=True, bool_vars=False, path_sensitive=False, byte_defs=True)
        if r.error or not r.results:
            chk.fail(rule, "Message::%s|analysis" % fn, body.loc(), r.error or "no return state")
            continue
        for st, ret in r.results:
            v = ret
            n_ = 0
            while isinstance(v, Struct) and len(v.f) == 1 and n_ < 3:
                v = v.get(next(iter(v.f)))
                n_ += 1
            sy = st.sys.copy()
            bvar = lambda k: Lin.var("rd8@in:self_data+%d" % k)
            for k in range(20):
                sy.add_range(bvar(k), 0, 255)
            if what == "tid":
                acc = Lin.const(0)
                for k in range(12):
                    acc = acc + bvar(8 + k).scale(1 << (8 * (11 - k)))
                ok = isinstance(v, Num) and (sy.entails_eq(v.e - Lin.var("rd96@in:self_data+8")) or sy.entails_eq(v.e - acc))
                chk.ob(rule, "Message::transaction_id is the 96-bit number in bytes 8..20 of the message", ok, body.loc(), detail=repr(v), how="E2 over byte variables")
            else:
                ok = isinstance(v, Num) and sy.entails_eq(v.e - bvar(0).scale(256) - bvar(1))
                chk.ob(rule, "Message::get_type is the big-endian word in bytes 0..2 of the message", ok, body.loc(), detail=repr(v), how="E2 over byte variables")


def type_decoder_refusals(prog):
    """MessageType::from_bytes refuses only a buffer shorter than 2 bytes or one whose first byte has one of its top two bits
    set (so it accepts the first two bytes of anything the header decoder accepted); -> (ok, detail)"""
    key = "stun_types::message::MessageType::from_bytes"
    if key not in prog.bodies:
        return False, "MessageType::from_bytes not found"
    r = Run(prog, key, track_content=True, bool_vars=False, path_sensitive=True, byte_defs=True)
    if r.error or not r.results:
        return False, r.error or "no return state"
    b0 = Lin.var("rd8@in:data+0")
    n_err = 0
    for st, ret in r.results:
        if variant_of(prog, ret) == "Ok":
            continue
        n_err += 1
        d = st.cells.get(r.it.cell_of(r.fr, 1))
        L = d.len if isinstance(d, Seq) else None
        s2 = st.sys.copy()
        s2.add_range(b0, 0, 63)
        if L is not None:
            s2.add_ge(L - 2)
        if not s2.bottom and s2.feasible():
            return False, "a buffer of at least two bytes whose first byte is below 64 can be refused"
    return n_err >= 1, "every refusal entails len < 2 or first byte >= 64 (%d refusing states)" % n_err
