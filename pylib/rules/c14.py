"""C14 - TCP framing buffer returns exactly the frames that were sent (per-call behaviour, decided semantically).

Decided for every buffer state, by abstract interpretation of TcpBuffer::{pull_data, push_data} (callees in context)
with content provenance for byte sequences (a copy remembers which window of the original buffer it holds) and one
symbolic variable per big-endian read of a buffer position:
 * pull_data returns None exactly when the buffer holds no complete frame (fewer than 2 bytes, or fewer than
   2 + prefix bytes, prefix = the big-endian u16 at offset 0) and then leaves the buffer untouched;
 * otherwise it returns Some(v) with v = buffer[2 .. 2 + prefix] (length and content provenance) and the buffer
   becomes buffer[2 + prefix ..];
 * push_data makes the buffer old ++ data;
 * only new / push_data / pull_data (and their helpers) touch TcpBuffer.buf.
From these per-call facts the sequence-level statement follows by induction over pushes and pulls (prose step):
the buffer always holds the not yet delivered suffix of the pushed stream.  NOT decided mechanically: that induction."""
import re
from absint.lin import Lin
from absint.values import *
from absint.interp import Interp, FailClosed, Frame, State, ISIZE_MAX
from absint.models import M, OPTION
from rules.c01 import INVARIANTS
from e1 import field_accesses

LEVEL = "other"
T = "stun_proto::agent::TcpBuffer::"
T_V = "stun_proto::agent::TcpBuffer::TcpBuffer"


def buf_path(prog, body, tix, depth=0):
    """field path from a value of type `tix` to the Vec<u8> it contains (by type, not by position)"""
    t = body.ty(tix) if isinstance(tix, int) else tix
    if t.get("s") == "std::vec::Vec<u8>":
        return ()
    if depth > 4 or t.get("k") != "adt":
        return None
    a = prog.adts.get(t["path"])
    if a is None or a["kind"] != "struct":
        return None
    args = t.get("args", [])
    for i, f in enumerate(a["variants"][0]["fields"]):
        ft = a["_types"][f["ty"]] if "ty" in f else None
        if ft is None:
            continue
        if ft.get("k") == "param" and args:
            # generic field: instantiate with the (single) type argument
            sub = buf_path(prog, body, args[ft.get("index", 0)] if ft.get("index", 0) < len(args) else args[0], depth + 1)
        else:
            sub = buf_path(prog, body, ft, depth + 1)
        if sub is not None:
            return (i,) + sub
    return None


PATH = {}


def find_buf(v, depth=0):
    for i in PATH.get("p", ()):
        v = v.get(i) if isinstance(v, Struct) else None
    return v if isinstance(v, Seq) else None


def set_buf(v, new, depth=0):
    path = PATH.get("p")
    if path is None:
        return v, False

    def rec(x, pth):
        if not pth:
            return new
        if not isinstance(x, Struct):
            x = Struct()
        return x.with_field(pth[0], rec(x.get(pth[0]), pth[1:]))
    return rec(v, path), True


def setup_self(it, st, fr, B):
    cell = [c for c in st.cells if c.endswith("*a1")]
    if not cell:
        raise FailClosed("self region not found")
    t1 = fr.body.local_ty(1)
    PATH["p"] = buf_path(it.prog, fr.body, fr.body.ty(t1["to"]) if t1.get("k") == "ref" else t1)
    cur = st.cells[cell[0]]
    nv, ok = set_buf(cur, Seq(B, None, None, ("buf", Lin.const(0))))
    if not ok:
        raise FailClosed("TcpBuffer.buf not found as a sequence")
    st.cells[cell[0]] = nv
    st.cells["ghost:mutations"] = Num(Lin.const(0))
    return cell[0]


def same_window(st, w, base, off):
    return w is not None and w[0] == base and st.sys.entails_eq(w[1] - off)


def run(prog, chk, tier):
    chk.explanation = __doc__.split("\n\n", 1)[1]
    chk.trusted += ["external-callee model table (Vec/slice copies keep the bytes of the window they copy; extend appends)", "rustc MIR",
                    "the induction from per-call behaviour to frame sequences (prose)"]
    # ---- pull_data
    it = Interp(prog, M, INVARIANTS)
    body = prog.bodies[T + "pull_data"]
    fr = Frame("E[pull]", body, 0, frozenset())
    st = State()
    st.cells[it.cell_of(fr, 1)] = it.top_of(st, body, body.locals[1]["ty"], hint="a1", region_prefix=fr.id + ":a1")
    B = it.fresh_num(st, 0, ISIZE_MAX, "buflen").e
    region = setup_self(it, st, fr, B)
    p = Lin.var("rd16@buf+0")
    n_none = n_some = 0
    try:
        res = it.run_body(fr, st)
    except FailClosed as e:
        chk.fail("pull_data", "analysis failed closed", detail=str(e))
        res = []
    for s_, ret in res:
        if not s_.sys.feasible():
            continue
        buf = find_buf(s_.cells.get(region))
        muts = s_.cells.get("ghost:mutations")
        if isinstance(ret, Enum) and set(ret.v) == {0}:
            n_none += 1
            # no complete frame, buffer intact
            incomplete = s_.sys.entails_ge(Lin.const(1) - B) or (s_.sys.entails_ge(p + 1 - B) and "rd16@buf+0" in (s_.sys.vars() | set()))
            chk.ob("pull_data", "None is returned only when the buffer holds no complete frame", incomplete,
                   detail="a None return is possible with a complete frame buffered: %r" % (s_.sys,), how="E2 return state")
            intact = isinstance(buf, Seq) and s_.sys.entails_eq(buf.len - B) and same_window(s_, buf.content(), "buf", Lin.const(0)) \
                and isinstance(muts, Num) and s_.sys.entails_eq(muts.e)
            chk.ob("pull_data", "a None return leaves the buffered bytes intact", intact, detail="buffer after: %r" % (buf,), how="E2 return state")
        elif isinstance(ret, Enum) and set(ret.v) == {1}:
            n_some += 1
            v = ret.v[1].get(0)
            ok = s_.sys.entails_ge(B - p - 2)
            chk.ob("pull_data", "Some is returned only when 2 + prefix bytes are buffered", ok, detail=repr(s_.sys), how="E2 return state")
            ok = isinstance(v, Seq) and s_.sys.entails_eq(v.len - p) and same_window(s_, v.content(), "buf", Lin.const(2))
            chk.ob("pull_data", "the frame returned is buffer[2 .. 2 + prefix]", ok, detail="returned %r" % (v,), how="E2 return value (length + content provenance)")
            ok = isinstance(buf, Seq) and s_.sys.entails_eq(buf.len - B + p + 2) and same_window(s_, buf.content(), "buf", p + 2)
            chk.ob("pull_data", "the buffer becomes buffer[2 + prefix ..]", ok, detail="buffer after: %r" % (buf,), how="E2 final state (length + content provenance)")
        else:
            chk.fail("pull_data", "a return state mixes Some and None", detail=repr(ret))
    chk.floor("pull_data-none-states", n_none, 2)
    chk.floor("pull_data-some-states", n_some, 1)
    bad = [o for o in it.obligations.values() if not o.ok]
    chk.ob("pull_data", "no panic is reachable in pull_data", not bad, detail="; ".join("%s %s" % (o.kind, o.why) for o in bad[:2]), how="E2 obligations (%d)" % len(it.obligations))
    # ---- push_data
    it2 = Interp(prog, M, INVARIANTS)
    b2 = prog.bodies[T + "push_data"]
    fr2 = Frame("E[push]", b2, 0, frozenset())
    st2 = State()
    st2.cells[it2.cell_of(fr2, 1)] = it2.top_of(st2, b2, b2.locals[1]["ty"], hint="a1", region_prefix=fr2.id + ":a1")
    B2 = it2.fresh_num(st2, 0, ISIZE_MAX, "buflen").e
    region2 = setup_self(it2, st2, fr2, B2)
    N = it2.fresh_num(st2, 0, ISIZE_MAX, "datalen").e
    st2.cells[it2.cell_of(fr2, 2)] = Seq(N, None, None, ("data", Lin.const(0)))
    n = 0
    try:
        for s_, ret in it2.run_body(fr2, st2):
            if not s_.sys.feasible():
                continue
            n += 1
            buf = find_buf(s_.cells.get(region2))
            w = buf.content() if isinstance(buf, Seq) else None
            ok = isinstance(buf, Seq) and s_.sys.entails_eq(buf.len - B2 - N) and w is not None and w[0] == "cat" and \
                same_window(s_, w[1], "buf", Lin.const(0)) and s_.sys.entails_eq(w[2] - B2) and same_window(s_, w[3], "data", Lin.const(0))
            chk.ob("push_data", "push_data makes the buffer old ++ data", ok, detail="buffer after: %r" % (buf,), how="E2 final state (length + content provenance)")
    except FailClosed as e:
        chk.fail("push_data", "analysis failed closed", detail=str(e))
    chk.floor("push_data-states", n, 1)
    # ---- who may touch the buffer: by function
    accs = field_accesses(prog, T_V, "buf")
    allowed = re.compile(r"TcpBuffer::(new|push_data|pull_data|take\w*|default)$|TcpBuffer as std::(fmt::Debug|default::Default)")
    for a in accs:
        fn = re.sub(r"::\{closure#\d+\}", "", a["body"])
        chk.ob("who-may-access", "TcpBuffer.buf|%s" % fn.split("::", 2)[-1], allowed.search(fn) is not None, a["where"], how="field access sites by function")
    chk.floor("buf-access-sites", len(accs), 3)
