"""C14 - TCP framing buffer (structural clauses: decision table, no mutation on the None paths,
prefix/offset constant agreement, provenance in take, append-only push)."""
import re
from mir import Origins, Origin, strip, short_span, const_int
from dtable import Walker, Unrecognised, pm, events_only, show, mentions, ev_match
from e1 import field_accesses

LEVEL = "other"
T = "stun_proto::agent::TcpBuffer::"
T_V = "stun_proto::agent::TcpBuffer::TcpBuffer"
SELF = ("param", "self")
BUF = ("call", r"DebugWrapper<T> as std::ops::Deref>::deref\[std::vec::Vec<u8>\]$", [("field", SELF, "buf")])
LEN = ("call", r"Vec::<u8>::len$", [BUF])


def run(prog, chk, tier):
    chk.explanation = (
        "pull_data as a decision table: len < 2 -> None ; len < 2 + prefix -> None ; else Some(take(2+prefix)[2..]); both None "
        "paths have no mutation event on the buffer (bytes left intact); prefix = big-endian u16 of buf[..2] and the three uses "
        "of the constant 2 agree (prefix read, + 2, bytes[2..]); take(offset): returned vector <- first part of split_at(offset), "
        "new buffer <- second part; push_data only appends (Vec::extend); who-may-write(TcpBuffer.buf) = {new, push_data, take}. "
        "NOT decided: the sequence-level statement over all frame sequences and chunkings (run-time values).")
    chk.trusted += ["rustc MIR", "slice::split_at / to_vec / Vec::extend semantics", "byteorder::BigEndian::read_u16"]
    rule = "pull_data-table"
    b = prog.bodies[T + "pull_data"]
    prefix = ("cast", ("call", r"BigEndian as byteorder::ByteOrder>::read_u16$",
                       [("call", r"Vec<u8> as std::ops::Index<std::ops::RangeTo<usize>>>::index$", [BUF, ("agg", r"RangeTo::RangeTo$", [("const", 2)])])]))
    dlen = ("field", ("bin", "AddWithOverflow", prefix, ("const", 2)), "0")
    take = ("call", r"TcpBuffer::take$", [SELF, dlen])

    def mk(l2, ld):
        def oracle(o, t, body):
            s = strip(o)
            if pm(s, ("bin", "Lt", LEN, ("const", 2)), b):
                return l2
            if pm(s, ("bin", "Lt", LEN, dlen), b):
                return ld
            return None
        return oracle

    def call_event(name, args, t, og):
        if re.search(r"TcpBuffer::", name) and not re.search(r"::\{closure#\d+\}$", name):
            return ("call", name, args)
        if any(mentions(a, lambda x: x.k == "field" and x.a[1] == "buf") for a in args):
            for a in t["args"]:
                if a["k"] in ("move", "copy"):
                    ty = b.place_ty(a["pl"])
                    if ty.get("k") == "ref" and ty.get("mut"):
                        return ("call", name, args)
        return None

    def write_event(pl, val, s):
        if mentions(pl, lambda x: x.k == "field" and x.a[1] == "buf"):
            return ("write", pl, val)
        return None
    multi = {i for i in range(len(b.locals)) if len(b.defs().get(i, [])) > 1 and not b.is_arg(i)}
    n = 0
    for l2, ld, name in ((1, 0, "len<2"), (0, 1, "len>=2,len<2+prefix"), (0, 0, "complete-frame")):
        w = Walker(prog, b, mk(l2, ld), call_event, track_locals={0}, write_event=write_event)
        try:
            beh = w.run()
        except Unrecognised as e:
            chk.fail(rule, name + "|unrecognised-guard", short_span(b.term(e.bb)["span"]), str(e)[:300])
            continue
        n += 1
        evs = [e for e in events_only(beh) if e[0] in ("call", "mutcall", "set", "write")]
        if name != "complete-frame":
            ok = len(evs) == 1 and ev_match(evs[0], ("set", 0, ("agg", r"Option::None$", [])), b)
            chk.ob(rule, name + "|None-without-touching-the-buffer", ok, b.loc(), detail=show(evs)[:300], how=show(evs)[:100])
        else:
            out = ("call", r"slice::<impl \[u8\]>::to_vec$", [("call", r"Vec<u8> as std::ops::Index<std::ops::RangeFrom<usize>>>::index$",
                                                             [take, ("agg", r"RangeFrom::RangeFrom$", [("const", 2)])])])
            ok = len(evs) == 2 and ev_match(evs[0], take, b) and ev_match(evs[1], ("set", 0, ("agg", r"Option::Some$", [out])), b)
            chk.ob(rule, name + "|Some(take(2+prefix)[2..])", ok, b.loc(), detail=show(evs)[:600], how="take(read_u16(buf[..2]) + 2) then [2..].to_vec()")
    chk.floor(rule + "-rows", n, 3)
    # ---- take
    rule = "take"
    tb = prog.bodies[T + "take"]
    off = ("param", "offset")
    split = ("call", r"slice::<impl \[u8\]>::split_at$", [("call", r"Vec<u8> as std::ops::Deref>::deref$", [BUF]), off])
    first = ("call", r"slice::<impl \[u8\]>::to_vec$", [("field", split, "0")])
    second = ("call", r"DebugWrapper::<T>::wrap\[std::vec::Vec<u8>\]$", [("call", r"slice::<impl \[u8\]>::to_vec$", [("field", split, "1")]), ("any",)])
    for g in (0, 1):
        def oracle(o, t, body, g=g):
            if pm(o, ("bin", "Gt", off, LEN), tb):
                return g
            return None

        def we(pl, val, s):
            if mentions(pl, lambda x: x.k == "field" and x.a[1] == "buf"):
                return ("write", pl, val)
            return None
        w = Walker(prog, tb, oracle, lambda *a: None, track_locals={0}, write_event=we, mut_arg_event=False)
        try:
            beh = w.run()
        except Unrecognised as e:
            chk.fail(rule, "unrecognised-guard", short_span(tb.term(e.bb)["span"]), str(e)[:300])
            continue
        evs = [e for e in events_only(beh) if e[0] in ("set", "write")]
        if g:
            ok = len(evs) == 1 and ev_match(evs[0], ("set", 0, ("call", r"Vec::<u8>::new$", [])), tb)
            chk.ob(rule, "offset>len|empty result, buffer untouched", ok, tb.loc(), detail=show(evs)[:300])
        else:
            writes = [e for e in evs if e[0] == "write"]
            sets = [e for e in evs if e[0] == "set"]
            ok = (writes and all(ev_match(e, ("write", ("field", SELF, "buf"), second), tb) for e in writes)
                  and len(sets) == 1 and ev_match(sets[0], ("set", 0, first), tb))
            chk.ob(rule, "offset<=len|result = buf[..offset], buffer := buf[offset..]", bool(ok), tb.loc(), detail=show(evs)[:600],
                   how="split_at(offset): .0 returned, .1 stored")
    # ---- push_data: append only
    pb = prog.bodies[T + "push_data"]
    og = Origins(prog, pb)
    calls = [(og.callee_name(t), [og.operand(a) for a in t["args"]]) for bi, t in pb.calls()]
    muts = [c for c in calls if not c[0].startswith(("tracing", "core::fmt"))]
    ok = (len(muts) == 2 and re.search(r"DebugWrapper<T> as std::ops::DerefMut>::deref_mut", muts[0][0])
          and re.search(r"Vec<u8> as std::iter::Extend<&u8>>::extend::<&\[u8\]>$", muts[1][0])
          and pm(muts[1][1][1], ("param", "data"), pb) and pm(muts[1][1][0], ("call", r"deref_mut", [("field", SELF, "buf")]), pb))
    writes = [1 for bi, si, s in pb.iter_stmts() if s["k"] == "assign" and s["pl"]["p"] and any(p["k"] == "field" and p["name"] == "buf" for p in s["pl"]["p"])]
    chk.ob("push_data", "only effect is Vec::extend(buf, data)", bool(ok) and not writes, pb.loc(), detail=repr([c[0] for c in calls]))
    # ---- who may write buf
    rule = "who-may-write"
    accs = field_accesses(prog, T_V, "buf")
    n = 0
    for a in accs:
        if a["how"] in ("ref", "copy"):
            continue
        fn = re.sub(r"::\{closure#\d+\}", "", a["body"])
        n += 1
        ok = (fn.endswith("TcpBuffer::take") and a["how"] in ("write", "drop")) or \
             (fn.endswith("TcpBuffer::push_data") and a["how"] == "refmut")
        chk.ob(rule, "buf|%s|%s" % (fn.split("agent::")[-1], a["how"]), ok, a["where"])
    chk.floor("buf-mutation-sites", n, 2)
    # DebugWrapper deref / deref_mut / wrap are plain projections
    for key, pat in (("<stun_proto::DebugWrapper<T> as std::ops::Deref>::deref[std::vec::Vec<u8>]", ("field", ("param", 1), "1")),
                     ("<stun_proto::DebugWrapper<T> as std::ops::DerefMut>::deref_mut[std::vec::Vec<u8>]", ("field", ("param", 1), "1"))):
        wb = prog.bodies.get(key)
        if wb is None:
            chk.fail("wrapper", "body-missing|" + key)
            continue
        o = Origins(prog, wb).local(0)
        chk.ob("wrapper", key.split(">::")[-1].split("[")[0] + " is the projection to the wrapped value", pm(o, pat, wb), wb.loc(), detail=repr(o))
    wb = prog.bodies.get("stun_proto::DebugWrapper::<T>::wrap[std::vec::Vec<u8>]")
    if wb is not None:
        o = Origins(prog, wb).local(0)
        chk.ob("wrapper", "wrap stores the value unchanged", pm(o, ("agg", r"DebugWrapper::DebugWrapper$", [("any",), ("param", "obj")]), wb), wb.loc(), detail=repr(o))
