"""E2 facts about the parser shared by C02 (length agreement, tiling), C17 (truncation reporting) and C09
(length-field binding): the abstract interpreter is run on Message::from_bytes / MessageHeader::from_bytes with a
ghost for the declared length (the value MessageHeader::data_length returns), and its return states are classified."""
from absint.lin import Lin
from absint.values import *
from absint.interp import Interp
from absint.models import M
from rules.c01 import INVARIANTS, INVARIANT_CHECKS

FROM_BYTES = "stun_types::message::Message::<'a>::from_bytes"
HDR_FROM_BYTES = "stun_types::message::MessageHeader::from_bytes"
DATA_LENGTH = "stun_types::message::MessageHeader::data_length"
PARSE_ERR = "stun_types::message::StunParseError"

_cache = {}


def variant_name(prog, adt, idx):
    a = prog.adts.get(adt)
    return a["variants"][idx]["name"] if a else str(idx)


def analyse(prog):
    """-> dict(full=[(state, ret, L, mlen)], header=[(state, ret, L)])"""
    key = id(prog)
    if key in _cache:
        return _cache[key]
    out = {}

    def hook_mlen(it, st, fr, ret):
        if isinstance(ret, Num):
            st.cells["ghost:mlength"] = ret

    def snap(it, st, fr):
        v = st.cells.get(it.cell_of(fr, 1))
        if isinstance(v, Seq):
            st.cells["ghost:L"] = Num(v.len)

    it = Interp(prog, M, INVARIANTS)
    it.inv_checks = INVARIANT_CHECKS
    it.ret_hooks[DATA_LENGTH] = hook_mlen
    res = it.analyse_entry(FROM_BYTES, setup=snap)
    full = []
    for st, ret in res:
        L = st.cells.get("ghost:L")
        m = st.cells.get("ghost:mlength")
        full.append((st, ret, L.e if isinstance(L, Num) else None, m.e if isinstance(m, Num) else None))
    out["full"] = full
    out["full_interp"] = it
    it2 = Interp(prog, M, INVARIANTS)
    res2 = it2.analyse_entry(HDR_FROM_BYTES, setup=snap)
    out["header"] = [(st, ret, st.cells["ghost:L"].e) for st, ret in res2]
    _cache[key] = out
    return out


def classify(prog, ret):
    """('Ok', payload) | ('Err', variant name, payload struct) | ('?',)"""
    if isinstance(ret, Enum) and ret.adt == "std::result::Result" and len(ret.v) == 1:
        i = next(iter(ret.v))
        if i == 0:
            return ("Ok", ret.v[0].get(0))
        e = ret.v[1].get(0)
        if isinstance(e, Enum) and len(e.v) == 1:
            vi = next(iter(e.v))
            return ("Err", variant_name(prog, e.adt, vi), e.v[vi])
        if isinstance(e, Enum):
            return ("Err", "|".join(sorted(variant_name(prog, e.adt, vi) for vi in e.v)), None)
        return ("Err", "?", None)
    return ("?",)


def feasible_with(st, extra_ge):
    s = st.sys.copy()
    for e in extra_ge:
        s.add_ge(e)
    return s.feasible()
