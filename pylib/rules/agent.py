"""Decision tables of the stun_proto agent (DESIGN appendix A.4) extracted by the E3 walker and compared
with the spec rows; shared by C05, C06, C07, C15, C18."""
import itertools, re
from mir import Origins, Origin, O, strip, short_span
from dtable import (Walker, Unrecognised, pm, ev_match, beh_match, events_only, show, mentions, field_of,
                    is_call_to, instrumented_body, resolve_upvars, param_index)
from e1 import field_accesses, uses_of_local, construct_sites, call_sites, all_place_uses

AGENT = "stun_proto::agent::StunAgent"
REQ = "stun_proto::agent::StunRequestState"
AGENT_V = AGENT + "::StunAgent"
REQ_V = REQ + "::StunRequestState"

READONLY_GETTERS = re.compile(
    r"::(transaction_id|has_class|is_response|class|method|has_method|has_attribute|get_type|byte_len)$")


def _mut_ref_arg(body, t):
    for a in t["args"]:
        if a["k"] in ("move", "copy"):
            ty = body.place_ty(a["pl"])
            if ty.get("k") == "ref" and ty.get("mut"):
                return True
    return False


def std_call_event(body, tracked_fields=("outstanding_requests", "validated_peers")):
    def call_event(name, args, t, og):
        if name.startswith(("stun_proto::", "stun_types::", "<stun_proto::", "<stun_types::")):
            if READONLY_GETTERS.search(name) and not _mut_ref_arg(body, t):
                return None
            if re.search(r"::\{closure#\d+\}$", name):
                return None  # tracing field closures (checked separately to be effect free by C20)
            return ("call", name, args)
        if any(mentions(a, lambda x: x.k == "field" and x.a[1] in tracked_fields) for a in args) and _mut_ref_arg(body, t):
            return ("call", name, args)
        return None
    return call_event


def run_table(prog, chk, rule, body, rows, oracle_of, expected_of, track_locals, call_event=None, write_event=None,
              rewrite=None, start=None, cut=None, where=None, env=None):
    """rows: iterable of valuations (dict). expected_of(val) -> (list of event patterns) or None for 'unconstrained'."""
    n = 0
    for val in rows:
        w = Walker(prog, body, oracle_of(val), call_event or std_call_event(body), track_locals=track_locals,
                   write_event=write_event, rewrite=rewrite)
        name = ",".join("%s=%s" % (k, v) for k, v in sorted(val.items(), key=lambda kv: str(kv[0])))
        try:
            if cut is not None:
                w.cut.add(cut)
                beh = w._walk(start if start is not None else cut, tuple(sorted((env or {}).items())))
            else:
                beh = w.run(start or 0, env)
        except Unrecognised as e:
            chk.fail(rule, "%s|unrecognised-guard" % name, short_span(body.term(e.bb)["span"]),
                     "a condition the table does not know (%r) decides between different tracked effects" % (e.origin,))
            continue
        exp = expected_of(val)
        n += 1
        if exp is None:
            continue
        ok, why = beh_match(beh, exp, body)
        chk.ob(rule, name, ok, where or body.loc(), detail=("got: " + why) if not ok else None,
               how="E3 walk: " + (why if ok else ""))
        if ok and len(chk.samples) < 12:
            chk.sample({"table": rule, "row": name, "behaviour": why[:400]})
    return n


# --------------------------------------------------------------------------------------------
# handle_stun

def handle_stun_table(prog, chk, rule="handle_stun-table"):
    key = AGENT + "::handle_stun"
    b = prog.bodies[key]
    msg, frm = ("param", "msg"), ("param", "from")
    self_ = ("param", "self")
    tid = ("call", r"Message::<'a>::transaction_id$", [msg])
    take = ("call", r"StunAgent::take_outstanding_request$", [self_, tid])
    taken = ("field", ("variant", take, "Some"), "0")
    remote = ("field", ("variant", ("field", self_, "remote_credentials"), "Some"), "0")
    validate = ("call", r"Message::<'a>::validate_integrity$", [msg, remote])
    vpeer = ("call", r"StunAgent::validated_peer$", [self_, frm])
    insert = ("call", r"(Hash|BTree)Map::<.*>::insert$", [("field", self_, "outstanding_requests"), tid, taken])

    def ret(variant, payload):
        return ("set", 0, ("agg", r"HandleStunReply::%s$" % variant, payload))

    def oracle_of(val):
        def oracle(o, t, body):
            s = strip(o)
            if pm(s, ("call", r"Message::<'a>::is_response$", [msg]), b):
                return val["R"]
            if s.k == "discr":
                if pm(s.a[0], take, b):
                    return val["T"]
                if pm(s.a[0], ("field", self_, "remote_credentials"), b):
                    return val["C"]
                if pm(s.a[0], validate, b):
                    return val["V"]
            if pm(s, ("field", taken, "request_had_credentials"), b):
                return val["H"]
            return None
        return oracle

    def expected(val):
        R, T, H, C, V = (val[k] for k in "RTHCV")
        if not R:
            return [vpeer, ret("IncomingStun", [msg]), ("return",)]
        if not T:
            return [take, ret("Drop", []), ("return",)]
        if not H:
            return [take, vpeer, ret("StunResponse", [msg]), ("return",)]
        if not C:
            return [take, insert, ret("Drop", []), ("return",)]
        if V == 0:
            return [take, validate, vpeer, ret("StunResponse", [msg]), ("return",)]
        return [take, validate, insert, ret("Drop", []), ("return",)]

    rows = [dict(zip("RTHCV", v)) for v in itertools.product([0, 1], repeat=5)]
    n = run_table(prog, chk, rule, b, rows, oracle_of, expected, {0})
    chk.floor(rule + "-rows", n, 32)
    return b


def taken_state_untouched(prog, chk, rule="taken-state-unmodified"):
    """between take and re-insert the request state is neither written nor mutably borrowed (timers untouched)"""
    b = prog.bodies[AGENT + "::handle_stun"]
    og = Origins(prog, b)
    take = ("call", r"StunAgent::take_outstanding_request$", None)
    holders = []
    for l in range(len(b.locals)):
        o = og.local(l)
        if pm(o, ("field", ("variant", take, "Some"), "0"), b) or pm(o, take, b):
            if b.local_ty(l)["s"].endswith("StunRequestState") or "Option<stun_proto::agent::StunRequestState>" in b.local_ty(l)["s"]:
                holders.append(l)
    chk.floor(rule + "-holders", len(holders), 1)
    bad = []
    for l in holders:
        for u in uses_of_local(b, l):
            if u.kind == "assign_to" and u.place["p"]:
                bad.append("projected write at " + short_span(u.node.get("span")))
            elif u.how == "refmut":
                bad.append("&mut borrow at " + short_span(u.node.get("span")))
            elif u.kind == "call_arg":
                name = og.callee_name(u.node)
                if not re.search(r"(Hash|BTree)Map::<.*>::insert$", name) and not name.startswith(("core::fmt", "tracing")):
                    bad.append("passed to %s" % name)
    chk.ob(rule, "handle_stun: taken StunRequestState only read (request_had_credentials) or moved into insert",
           not bad, b.loc(), detail="; ".join(bad))


def take_outstanding_table(prog, chk, rule="take_outstanding-table"):
    b = prog.bodies[AGENT + "::take_outstanding_request"]
    self_, tid = ("param", "self"), ("param", "transaction_id")
    remove = ("call", r"(Hash|BTree)Map::<.*>::remove::<.*>$", [("field", self_, "outstanding_requests"), tid])

    def oracle_of(val):
        def oracle(o, t, body):
            s = strip(o)
            if s.k == "discr" and pm(s.a[0], remove, b):
                return val["F"]
            return None
        return oracle

    def expected(val):
        if val["F"]:
            return [remove, ("set", 0, ("agg", r"Option::Some$", [("field", ("variant", remove, "Some"), "0")])), ("return",)]
        return [remove, ("set", 0, ("agg", r"Option::None$", [])), ("return",)]
    n = run_table(prog, chk, rule, b, [{"F": 0}, {"F": 1}], oracle_of, expected, {0})
    chk.floor(rule + "-rows", n, 2)


def validated_peer_table(prog, chk, rule="validated_peer-table"):
    b = prog.bodies[AGENT + "::validated_peer"]
    self_, addr = ("param", "self"), ("param", "addr")
    contains = ("call", r"HashSet::<.*>::contains::<.*>$", [("field", self_, "validated_peers"), addr])
    insert = ("call", r"HashSet::<.*>::insert$", [("field", self_, "validated_peers"), addr])

    def oracle_of(val):
        def oracle(o, t, body):
            s = strip(o)
            if pm(s, contains, b):
                return val["P"]
            return None
        return oracle

    def expected(val):
        # present -> nothing (or an idempotent insert); absent -> insert(addr)
        if val["P"]:
            return None
        return [insert, ("return",)]

    def call_event(name, args, t, og):
        if re.search(r"HashSet::<.*>::(insert|remove|clear|retain|drain|take|extend)", name):
            return ("call", name, args)
        return None
    n = run_table(prog, chk, rule, b, [{"P": 0}, {"P": 1}], oracle_of, expected, set(), call_event=call_event)
    # present row: whatever happens, no removal
    w = Walker(prog, b, oracle_of({"P": 1}), call_event)
    beh = w.run()
    bad = [e for e in events_only(beh) if e[0] == "call" and not re.search(r"::insert$", e[1])]
    chk.ob(rule, "P=1|no-removal", not bad, b.loc(), detail=show(bad))
    # is_validated_peer is the membership test
    q = prog.bodies[AGENT + "::is_validated_peer"]
    og = Origins(prog, q)
    rets = [og.local(0)]
    okq = pm(rets[0], ("call", r"HashSet::<.*>::contains::<.*>$", [("field", ("param", "self"), "validated_peers"), ("param", "remote_addr")]), q)
    chk.ob(rule, "is_validated_peer = validated_peers.contains(addr)", okq, q.loc(), detail=repr(rets[0]))


# --------------------------------------------------------------------------------------------
# send

def send_table(prog, chk, rule="send-table"):
    b = prog.bodies[AGENT + "::send"]
    self_, msg, to, now = ("param", "self"), ("param", "msg"), ("param", "to"), ("param", "now")
    tid = ("call", r"MessageBuilder::<'a>::transaction_id$", [msg])
    new = ("call", r"StunRequestState::new$", [msg, ("field", self_, "transport"), ("field", self_, "local_addr"), to])
    poll = ("call", r"StunRequestState::poll$", [new, now])
    transmit = ("field", ("variant", poll, "SendData"), "0")
    owned = ("call", r"Transmit::<'a>::into_owned$", [transmit])
    insert = ("call", r"(Hash|BTree)Map::<.*>::insert$", [("field", self_, "outstanding_requests"), tid, new])
    build = ("call", r"MessageBuilder::<'a>::build$", [msg])
    sd = ("call", r"StunAgent::send_data$", [self_, ("call", r"Vec<u8> as std::ops::Deref>::deref$", [build]), to])
    owned2 = ("call", r"Transmit::<'a>::into_owned$", [sd])

    def oracle_of(val):
        def oracle(o, t, body):
            s = strip(o)
            if pm(s, ("call", r"MessageBuilder::<'a>::has_class$", [msg, ("agg", r"MessageClass::Request$", [])]), b):
                return val["Q"]
            if pm(s, ("call", r"(Hash|BTree)Map::<.*>::contains_key::<.*>$", [("field", self_, "outstanding_requests"), tid]), b):
                return val["K"]
            if s.k == "discr" and pm(s.a[0], poll, b):
                return val["P"]
            return None
        return oracle

    def expected(val):
        Q, K, P = val["Q"], val["K"], val["P"]
        if not Q:
            return [build, sd, owned2, ("set", 0, ("agg", r"Result::Ok$", [owned2])), ("return",)]
        if K:
            return [("set", 0, ("agg", r"Result::Err$", [("agg", r"StunError::AlreadyInProgress$", [])])), ("return",)]
        if P == 2:
            return [new, poll, owned, insert, ("set", 0, ("agg", r"Result::Ok$", [owned])), ("return",)]
        return [new, poll, ("set", 0, ("agg", r"Result::Err$", None)), ("return",)]
    rows = [dict(Q=q, K=k, P=p) for q in (0, 1) for k in (0, 1) for p in (0, 1, 2, 3)]
    n = run_table(prog, chk, rule, b, rows, oracle_of, expected, {0})
    chk.floor(rule + "-rows", n, 16)
    # variant index 2 of StunRequestPollRet must be SendData (the oracle's encoding)
    a = prog.adts.get("stun_proto::agent::StunRequestPollRet")
    names = [v["name"] for v in a["variants"]] if a else []
    chk.ob(rule, "StunRequestPollRet variant order known to the table", names == ["WaitUntil", "Cancelled", "SendData", "TimedOut"],
           detail=repr(names))


# --------------------------------------------------------------------------------------------
# StunRequestState::poll

def req_poll_body(prog):
    return instrumented_body(prog, REQ + "::poll")


def req_poll_table(prog, chk, rule="request-poll-table"):
    b, ups = req_poll_body(prog)
    rw = (lambda o: resolve_upvars(o, ups)) if ups else None
    # after rewriting, terms are over the parent's parameters: self = param(1), now = param(2)
    pb = prog.bodies[REQ + "::poll"]
    self_i, now_i = param_index(pb, "self"), param_index(pb, "now")
    self_, now = ("param", self_i), ("param", now_i)
    f = lambda name: ("field", self_, name)
    last = ("field", ("variant", f("last_send_time"), "Some"), "0")
    dur_final = ("call", r"Duration::from_millis$", [f("last_retransmit_timeout_ms")])
    idx = ("call", r"Vec<u64> as std::ops::Index<usize>>::index$", [f("timeouts_ms"), f("timeout_i")])
    dur_i = ("call", r"Duration::from_millis$", [idx])
    next_final = ("call", r"Instant as std::ops::Add<std::time::Duration>>::add$", [last, dur_final])
    next_i = ("call", r"Instant as std::ops::Add<std::time::Duration>>::add$", [last, dur_i])
    sd = ("call", r"stun_proto::agent::send_data$",
          [f("transport"), ("call", r"Vec<u8> as std::ops::Deref>::deref$", [f("bytes")]), f("from"), f("to")])
    owned = ("call", r"Transmit::<'a>::into_owned$", [sd])
    w_inc = ("write", f("timeout_i"), ("field", ("bin", "AddWithOverflow", f("timeout_i"), ("const", 1)), "0"))
    w_last = ("write", f("last_send_time"), ("agg", r"Option::Some$", [now]))

    def ret(variant, payload):
        return ("set", 0, ("agg", r"StunRequestPollRet::%s$" % variant, payload))

    def oracle_of(val):
        def oracle(o, t, body):
            s = strip(o)
            if pm(s, f("recv_cancelled"), b):
                return val["RC"]
            if pm(s, f("send_cancelled"), b):
                return val["SC"]
            if s.k == "discr" and pm(s.a[0], f("last_send_time"), b):
                return val["LS"]
            if pm(s, ("bin", "Ge", f("timeout_i"), ("call", r"Vec::<u64>::len$", [f("timeouts_ms")])), b):
                return val["X"]
            if pm(s, ("call", r"Instant as std::cmp::PartialOrd>::gt$", [next_final, now]), b) or \
                    pm(s, ("call", r"Instant as std::cmp::PartialOrd>::gt$", [next_i, now]), b):
                return val["D"]
            return None
        return oracle

    def write_event(pl, val, s):
        if mentions(pl, lambda x: x.k == "param" and x.a[0] == self_i):
            return ("write", pl, val)
        return None

    def call_event(name, args, t, og):
        if name.startswith("stun_proto::") and not re.search(r"::\{closure#\d+\}$", name):
            return ("call", name, args)
        return None

    def expected(val):
        RC, LS, X, D, SC = (val[k] for k in ("RC", "LS", "X", "D", "SC"))
        if RC:
            return [ret("Cancelled", []), ("return",)]
        if LS:
            if D:
                return [ret("WaitUntil", [next_final if X else next_i]), ("return",)]
            if X:
                return [ret("TimedOut", []), ("return",)]
            if SC:
                # retransmission suppressed: never SendData, last_send_time untouched
                return "no-send"
            return [w_inc, w_last, sd, owned, ret("SendData", [owned]), ("return",)]
        if SC:
            return "no-send"
        return [w_last, sd, owned, ret("SendData", [owned]), ("return",)]

    rows = [dict(zip(("RC", "LS", "X", "D", "SC"), v)) for v in itertools.product([0, 1], repeat=5)]
    n = 0
    for val in rows:
        exp = expected(val)
        name = ",".join("%s=%s" % kv for kv in sorted(val.items()))
        w = Walker(prog, b, oracle_of(val), call_event, track_locals={0}, write_event=write_event, rewrite=rw)
        try:
            beh = w.run()
        except Unrecognised as e:
            chk.fail(rule, name + "|unrecognised-guard", short_span(b.term(e.bb)["span"]), str(e)[:500])
            continue
        n += 1
        if exp == "no-send":
            evs = events_only(beh)
            bad = [e for e in evs if (e[0] == "set" and pm(e[2], ("agg", r"StunRequestPollRet::SendData$", None), b))
                   or (e[0] == "write" and pm(e[1], f("last_send_time"), b)) or (e[0] == "call" and "send_data" in e[1])]
            chk.ob(rule, name, not bad, b.loc(), detail=show(bad), how="never SendData / no write to last_send_time: " + show(evs)[:200])
        else:
            ok, why = beh_match(beh, exp, b)
            chk.ob(rule, name, ok, b.loc(), detail=("got: " + why) if not ok else None, how=why[:300])
            if ok and val == dict(RC=0, LS=1, X=0, D=0, SC=0):
                chk.sample({"table": rule, "row": name, "behaviour": why[:600]})
    chk.floor(rule + "-rows", n, 32)


# --------------------------------------------------------------------------------------------
# StunAgent::poll

def agent_poll_body(prog):
    return instrumented_body(prog, AGENT + "::poll")


def agent_poll_table(prog, chk, rule="agent-poll-table"):
    """per-request outcome -> map events and agent-level reply. Works on the loop body (cut at the
    loop head) and the loop tail; independent of how the requests are enumerated."""
    b, ups = agent_poll_body(prog)
    rw = (lambda o: resolve_upvars(o, ups)) if ups else None
    pb = prog.bodies[AGENT + "::poll"]
    self_i, now_i = param_index(pb, "self"), param_index(pb, "now")
    self_, now = ("param", self_i), ("param", now_i)
    og = Origins(prog, b)
    # locate the per-request poll call and its loop
    polls = [(bi, t) for bi, t in b.calls() if re.search(r"StunRequestState::poll$", og.callee_name(t))]
    if not chk.ob(rule, "exactly one per-request poll call site in StunAgent::poll", len(polls) == 1, b.loc(),
                  detail="%d sites" % len(polls)):
        return
    pbb, pterm = polls[0]
    heads = [h for (_, h) in b.back_edges() if pbb in b.natural_loop(h)]
    if not chk.ob(rule, "per-request poll call is inside a loop", len(heads) >= 1, b.loc()):
        return
    head = heads[0]
    loop = b.natural_loop(head)
    named = {l["name"]: i for i, l in enumerate(b.locals) if l["name"]}
    multi = {i for i in range(len(b.locals)) if len(b.defs().get(i, [])) > 1 and not b.is_arg(i)}
    track = {0} | {i for i in multi if b.locals[i]["name"]}
    poll_call = ("call", r"StunRequestState::poll$", [("any",), now])
    map_ = ("field", self_, "outstanding_requests")

    # The request whose poll result is examined: its transaction id must be the id removed / reported.
    req_of_poll = strip((lambda o: resolve_upvars(o, ups) if ups else o)(og.operand(pterm["args"][0])))

    def is_req_tid(o):
        o = strip(o)
        return o.k == "field" and o.a[1] == "transaction_id" and strip(o.a[0]) == req_of_poll or _is_key_of_request(o)

    def _is_key_of_request(o):
        return False

    def oracle_of(val):
        def oracle(o, t, body):
            s = strip(o)
            if s.k == "discr":
                x = strip(s.a[0])
                if pm(x, poll_call, b):
                    return val["P"]
                if x.k == "call" and re.search(r"Iterator>::next$", x.a[0]):
                    return val["N"]
                if x.k == "call" and re.search(r"(Hash|BTree)Map::<.*>::remove::<.*>$", x.a[0]):
                    return val.get("RM", 1)
                if x.k == "call" and re.search(r"(Hash|BTree)Map::<.*>::get_mut::<.*>$", x.a[0]):
                    return val.get("G", 1)
            if s.k == "call" and re.search(r"Instant as std::cmp::PartialOrd>::(lt|gt|le|ge)$", s.a[0]):
                cmps.append(s)
                return val["L"]
            return None
        return oracle

    cmps = []

    def call_event(name, args, t, og_):
        if re.search(r"StunRequestState::poll$", name) or re.search(r"Transmit::<'a>::into_owned$", name):
            return ("call", name, args)
        if any(mentions(a, lambda x: x.k == "field" and x.a[1] == "outstanding_requests") for a in args) and _mut_ref_arg(b, t):
            if re.search(r"::(values_mut|iter_mut|get_mut)(::<.*>)?$", name):
                return None  # access paths to the requests, not structural changes
            return ("call", name, args)
        return None

    # initial values of the tracked locals on entry to the loop (function entry -> loop head)
    pre = Walker(prog, b, lambda o, t, body: None, lambda *a: None, track_locals=track, rewrite=rw, stop={head: "head"},
                 mut_arg_event=False)
    try:
        init = {e[1]: e[2] for e in pre.run() if e[0] == "set"}
    except Unrecognised as e:
        chk.fail(rule, "prologue|unrecognised-guard", short_span(b.term(e.bb)["span"]), str(e)[:400])
        return
    env0 = tuple(sorted(init.items()))
    # (1) loop body rows: N=1 (an item), P in 0..3, L in 0/1
    results = {}
    for P in (0, 1, 2, 3):
        for L in (0, 1):
            val = {"N": 1, "P": P, "L": L}
            w = Walker(prog, b, oracle_of(val), call_event, track_locals=track, rewrite=rw)
            w.cut.add(head)
            try:
                beh = w._walk(head, env0)
            except Unrecognised as e:
                chk.fail(rule, "body|P=%d,L=%d|unrecognised-guard" % (P, L), short_span(b.term(e.bb)["span"]), str(e)[:500])
                continue
            results[(P, L)] = beh
    names = ["WaitUntil", "Cancelled", "SendData", "TimedOut"]
    for (P, L), beh in sorted(results.items()):
        evs = events_only(beh)
        removes = [e for e in evs if e[0] == "call" and re.search(r"::remove", e[1])]
        inst = "body|%s%s" % (names[P], "|earlier" if (P == 0 and L) else "")
        if P == 2:  # SendData: returned unchanged (into_owned only), no removal
            transmit = ("field", ("variant", poll_call, "SendData"), "0")
            owned = ("call", r"Transmit::<'a>::into_owned$", [transmit])
            ok = (not removes and any(ev_match(e, ("set", 0, ("agg", r"StunAgentPollRet::SendData$", [owned])), b) for e in evs)
                  and evs[-1] == ("return",))
            chk.ob(rule, inst, ok, b.loc(), detail=show(evs), how="Transmit of the request returned through into_owned only; no map event")
        elif P == 0:
            continue  # WaitUntil rows: handled by _wait_rows below (needs both states of the running minimum)
        else:  # Cancelled / TimedOut: must lead to remove(that request's id) and the matching reply
            want = "TransactionCancelled" if P == 1 else "TransactionTimedOut"
            full = _follow_break(prog, b, rw, oracle_of, call_event, track, head, {"N": 1, "P": P, "L": L}, loop, env0)
            evs2 = events_only(full) if full is not None else ()
            rem = [e for e in evs2 if e[0] == "call" and re.search(r"(Hash|BTree)Map::<.*>::remove::<.*>$", e[1])]
            rets = [e for e in evs2 if e[0] == "set" and e[1] == 0]
            ok = (len(rem) == 1 and len(rets) == 1 and pm(rets[-1][2], ("agg", r"StunAgentPollRet::%s$" % want, [("any",)]), b))
            if ok:
                rid = strip(rem[0][2][1])
                pid = strip(strip(rets[-1][2]).a[1][0])
                ok = _same_request_id(rid, req_of_poll, evs2) and _same_request_id(pid, req_of_poll, evs2)
            chk.ob(rule, inst, ok, b.loc(), detail=show(evs2)[:900],
                   how="exactly one remove(id of the polled request) then %s(that id)" % want)
    _wait_rows(prog, chk, rule, b, rw, oracle_of, call_event, track, head, env0, cmps, poll_call)
    chk.floor(rule + "-rows", len(results), 8)
    return b, head, loop


def _wait_rows(prog, chk, rule, b, rw, oracle_of, call_event, track, head, env0, cmps, poll_call):
    """A per-request WaitUntil(w) changes nothing in the map, continues the loop, and updates the running
    minimum m exactly when m is still empty or w is earlier than m (ties free)."""
    w_payload = ("field", ("variant", poll_call, "WaitUntil"), "0")
    init = dict(env0)
    # which tracked local is the running minimum: the one assigned from the WaitUntil payload
    cand = set()
    probes = {}
    for L in (0, 1):
        for st in ("init", "some"):
            probes[(L, st)] = None
    # discover m with a first pass in the initial environment
    for L in (0, 1):
        w = Walker(prog, b, oracle_of({"N": 1, "P": 0, "L": L}), call_event, track_locals=track, rewrite=rw)
        w.cut.add(head)
        try:
            beh = w._walk(head, env0)
        except Unrecognised as e:
            chk.fail(rule, "body|WaitUntil|unrecognised-guard", short_span(b.term(e.bb)["span"]), str(e)[:400])
            return
        for e in beh:
            if e[0] == "set" and mentions(e[2], lambda x: x.k == "variant" and x.a[1] == "WaitUntil"):
                cand.add(e[1])
    if not chk.ob(rule, "body|WaitUntil|one running-minimum variable", len(cand) == 1, b.loc(), detail="candidates %r" % sorted(cand)):
        return
    m = next(iter(cand))
    is_opt = b.local_ty(m)["s"].startswith("std::option::Option<")
    states = {}
    if is_opt:
        states["empty"] = O("agg", "std::option::Option::None", ())
        states["holding"] = O("agg", "std::option::Option::Some", (O("unknown", "carried"),))
        i0 = strip(init.get(m, O("unknown", "no-init")))
        chk.ob(rule, "body|WaitUntil|running minimum starts empty (None)", i0.k == "agg" and str(i0.a[0]).endswith("Option::None"),
               b.loc(), detail="initial value %r" % (i0,))
    else:
        states["holding"] = init.get(m, O("unknown", "no-init"))
    cur_plain = lambda o: strip(o).k == "multi" and strip(o).a[0] == m
    cur_opt = lambda o: (strip(o).k == "field" and strip(o).a[1] == "0" and strip(strip(o).a[0]).k == "variant"
                         and strip(strip(strip(o).a[0]).a[0]).k == "multi" and strip(strip(strip(o).a[0]).a[0]).a[0] == m)
    is_cur = cur_opt if is_opt else cur_plain
    for st, v in states.items():
        for L in (0, 1):
            env = dict(init)
            env[m] = v
            del cmps[:]
            w = Walker(prog, b, oracle_of({"N": 1, "P": 0, "L": L}), call_event, track_locals=track, rewrite=rw)
            w.cut.add(head)
            try:
                beh = w._walk(head, tuple(sorted(env.items())))
            except Unrecognised as e:
                chk.fail(rule, "body|WaitUntil|%s|unrecognised-guard" % st, short_span(b.term(e.bb)["span"]), str(e)[:400])
                continue
            evs = events_only(beh)
            removes = [e for e in evs if e[0] == "call" and re.search(r"::(remove|insert)", e[1])]
            sets = [e for e in evs if e[0] == "set"]
            ok = not removes and evs and evs[-1][0] == "loop" and all(e[1] == m for e in sets)
            want_val = ("agg", r"Option::Some$", [w_payload]) if is_opt else w_payload
            ok = ok and all(pm(e[2], want_val, b) for e in sets)
            mine = list(cmps)
            if st == "empty":
                ok = ok and len(sets) == 1
                why = "empty minimum takes the wake-up"
            else:
                if len(mine) != 1:
                    ok = False
                    why = "expected exactly one comparison between the wake-up and the running minimum, saw %d" % len(mine)
                else:
                    c = mine[0]
                    op = re.search(r"::(lt|gt|le|ge)$", c.a[0]).group(1)
                    a0, a1 = c.a[2][0], c.a[2][1]
                    if pm(a0, w_payload, b) and is_cur(a1):
                        w_first = True
                    elif pm(a1, w_payload, b) and is_cur(a0):
                        w_first = False
                    else:
                        w_first = None
                    if w_first is None:
                        ok = False
                        why = "comparison operands are not (wake-up, running minimum): %r" % (c,)
                    else:
                        # truth of "w earlier than (or equal to) m" under answer L
                        w_smaller = (op in ("lt", "le")) == w_first
                        earlier = bool(L) if w_smaller else (not L)
                        ok = ok and (len(sets) == 1) == earlier
                        why = "%s(%s) answered %d => wake-up %s; update %s" % (
                            op, "w,m" if w_first else "m,w", L, "earlier" if earlier else "not earlier", "done" if sets else "skipped")
            chk.ob(rule, "body|WaitUntil|%s|cmp=%d" % (st, L), ok, b.loc(), detail=why + " ; " + show(evs)[:500], how=why)


def _same_request_id(o, req, evs):
    """o denotes request.transaction_id of the polled request, possibly via tracked locals"""
    o = strip(o)
    if o.k == "field" and o.a[1] == "transaction_id" and strip(o.a[0]) == req:
        return True
    if o.k in ("multi",):
        # value of a tracked local: take its last assignment on the path
        last = None
        for e in evs:
            if e[0] == "set" and e[1] == o.a[0]:
                last = e[2]
        return last is not None and _same_request_id(last, req, evs)
    if o.k == "agg" and str(o.a[0]).endswith("Option::Some"):
        return _same_request_id(o.a[1][0], req, evs)
    if o.k == "field" and o.a[1] == "0" and strip(o.a[0]).k == "variant":
        return _same_request_id(strip(o.a[0]).a[0], req, evs)
    # iteration by key: request obtained through get_mut(&id) - the key itself identifies it
    if req.k == "field" or req.k == "variant":
        for x in req.walk():
            if x.k == "call" and re.search(r"::get_mut::<", x.a[0]) and strip(x.a[2][1]) == o:
                return True
    return False


def _follow_break(prog, b, rw, oracle_of, call_event, track, head, val, loop, env0=()):
    """behaviour from the loop head through a breaking item to the function's return (the loop is left)."""
    w = Walker(prog, b, oracle_of(dict(val, RM=1)), call_event, track_locals=track, rewrite=rw)
    w.cut.add(head)
    try:
        return w._walk(head, env0)
    except Unrecognised:
        return None


def agent_poll_wait(prog, chk, rule="agent-poll-wait"):
    """C06(d): the agent's WaitUntil payload is the running minimum of the per-request WaitUntil payloads; a
    finite initial cap that survives when every wake-up lies beyond it is a violation."""
    b, ups = agent_poll_body(prog)
    rw = (lambda o: resolve_upvars(o, ups)) if ups else (lambda o: o)
    og = Origins(prog, b)
    rets = []
    for bi, si, s in b.iter_stmts():
        if s["k"] == "assign" and not s["pl"]["p"] and s["pl"]["l"] == 0 and s["rv"]["k"] == "aggregate" \
                and s["rv"].get("vname") == "WaitUntil" and s["rv"]["adt"].endswith("StunAgentPollRet"):
            rets.append((bi, s))
    if not chk.ob(rule, "StunAgent::poll has a WaitUntil return site", len(rets) >= 1, b.loc()):
        return
    for bi, s in rets:
        o = strip(rw(og.operand(s["rv"]["ops"][0])))
        where = short_span(s["span"])
        m = None
        shape = None
        if o.k == "multi":
            m, shape = o.a[0], "plain"
        elif o.k == "call" and re.search(r"Option::<std::time::Instant>::unwrap_or(_else)?(::<.*>)?$", o.a[0]) and strip(o.a[2][0]).k == "multi":
            m, shape = strip(o.a[2][0]).a[0], "option"
        elif o.k == "field" and strip(o.a[0]).k == "variant" and strip(strip(o.a[0]).a[0]).k == "multi":
            m, shape = strip(strip(o.a[0]).a[0]).a[0], "option"
        if not chk.ob(rule, "StunAgent::poll|WaitUntil payload is the running minimum", m is not None, where,
                      detail="payload origin %r is not the running-minimum variable (or its unwrap_or)" % (o,)):
            continue
        defs = b.defs().get(m, [])
        upd, init = [], []
        for d in defs:
            val = strip(rw(og.rvalue(d[3]["rv"]))) if d[0] == "stmt" else O("call", og.callee_name(d[3]), d[1], ())
            (upd if any(x.k == "variant" and x.a[1] == "WaitUntil" for x in val.walk()) else init).append((d, val))
        chk.ob(rule, "StunAgent::poll|running minimum updated from per-request WaitUntil payloads", len(upd) >= 1, where,
               detail="updates %r" % [v for _, v in upd])
        for d, val in init:
            if shape == "option":
                ok = val.k == "agg" and str(val.a[0]).endswith("Option::None")
                chk.ob(rule, "StunAgent::poll|running minimum starts as None", ok, short_span(d[3]["span"]), detail="initial value %r" % (val,))
            else:
                finite_cap = any(x.k == "call" and re.search(r"Instant as std::ops::Add", x.a[0]) for x in val.walk()) or \
                    any(x.k == "param" for x in val.walk())
                chk.ob(rule, "StunAgent::poll|WaitUntil-initialised-to-finite-cap", not finite_cap, short_span(d[3]["span"]),
                       detail="the returned wake-up starts as %r and is only lowered by `<`: when every outstanding request's "
                              "wake-up lies beyond the cap, poll answers the cap (which moves with `now`) instead of the earliest "
                              "wake-up" % (val,), how="initial value %r" % (val,))


# --------------------------------------------------------------------------------------------
# who-may-access tables

def who_may_access(prog, chk, rule, adt_variant, field, allow, floor):
    """allow: {body-key-regex: set of allowed (how, consumer-callee-regex)}"""
    accs = field_accesses(prog, adt_variant, field)
    seen_bodies = set()
    for a in accs:
        fn = re.sub(r"::\{closure#\d+\}", "", a["body"])
        seen_bodies.add(fn)
        cons = [c[1] for c in a["consumers"] if c[0] == "call"] or ["-"]
        ok = False
        for pat, entries in allow.items():
            if re.search(pat, fn):
                for how_pat, cons_pat in entries:
                    if re.fullmatch(how_pat, a["how"]) and all(re.search(cons_pat, c) for c in cons):
                        ok = True
        short = [re.sub(r"<[^<>]*>", "", c).split("::")[-1] for c in cons]
        chk.ob(rule, "%s.%s|%s|%s|%s" % (adt_variant.split("::")[-1], field, fn.split("::", 2)[-1], a["how"], ",".join(sorted(set(short)))),
               ok, a["where"], detail="access `%s` of %s in %s flowing to %s is not in the allow table" % (a["how"], field, fn, cons))
    chk.floor(rule + "-%s-sites" % field, len(accs), floor)
    return accs


def no_whole_struct_writes(prog, chk, rule, adt_path):
    """no `*ref = value` over the whole struct, no &mut of the struct handed to an external callee
    (mem::swap/replace/take ...) outside an allow list"""
    bad = []
    n = 0
    for k, b in prog.bodies.items():
        if b.crate != "stun_proto":
            continue
        og = None
        for u in all_place_uses(b):
            ty = b.place_ty(u.place)
            if ty.get("k") == "adt" and ty["path"] == adt_path and u.kind == "assign_to" and any(p["k"] == "deref" for p in u.place["p"]):
                bad.append("%s: whole-struct write through a reference at %s" % (k, short_span(u.node.get("span"))))
            if u.kind == "call_arg":
                if ty.get("k") == "ref" and ty.get("mut") and b.ty(ty["to"]).get("path") == adt_path:
                    n += 1
                    og = og or Origins(prog, b)
                    name = og.callee_name(u.node)
                    if not name.startswith(("stun_proto::", "<stun_proto::")):
                        bad.append("%s: &mut %s passed to external %s" % (k, adt_path.split("::")[-1], name))
    chk.ob(rule, "no whole-struct overwrite / external &mut escape of %s" % adt_path.split("::")[-1], not bad,
           detail="; ".join(bad), how="%d &mut call arguments inspected" % n)
