"""C13 - XOR-MAPPED-ADDRESS: wire constants, key provenance, xor dependence, layout agreement.
The involution a^k^k = a as a value identity is NOT decided (array loops, run-time values)."""
import re
from mir import Origins, Origin, O, strip, short_span, const_int
from dtable import Walker, Unrecognised, pm, mentions
from bits import BitEval, const_bits, show_bits
from e1 import uses_of_local, consumers_of

LEVEL = "other"
A = "stun_types::attribute::address::"
COOKIE = 0x2112A442


def family_tables(prog, chk, rule):
    adt = prog.adts[A + "AddressFamily"]
    idx = {v["name"]: int(v["discr"]) for v in adt["variants"]}
    b = prog.bodies[A + "AddressFamily::to_byte"]
    enc = {}
    for name, d in idx.items():
        def oracle(o, t, body, d=d):
            s = strip(o)
            if s.k == "discr" and pm(s.a[0], ("param", 1), b):
                return d
            return None
        w = Walker(prog, b, oracle, lambda *a: None, track_locals={0}, mut_arg_event=False)
        vals = [const_int(e[2]) for e in w.run() if e[0] == "set" and e[1] == 0]
        enc[name] = vals[-1] if vals else None
    chk.ob(rule, "AddressFamily::to_byte: IPV4 -> 1, IPV6 -> 2", enc == {"IPV4": 1, "IPV6": 2}, b.loc(), detail=repr(enc))
    b = prog.bodies[A + "AddressFamily::from_byte"]
    dec = {}
    for byte in (0, 1, 2, 3, 255):
        def oracle(o, t, body, byte=byte):
            if pm(o, ("param", 1), b):
                return byte
            return None
        w = Walker(prog, b, oracle, lambda *a: None, track_locals={0}, mut_arg_event=False)
        sets = [strip(e[2]) for e in w.run() if e[0] == "set" and e[1] == 0]
        r = sets[-1] if sets else None
        if r is not None and r.k == "agg" and str(r.a[0]).endswith("Result::Ok"):
            dec[byte] = str(strip(r.a[1][0]).a[0]).rsplit("::", 1)[-1]
        else:
            dec[byte] = "Err"
    chk.ob(rule, "AddressFamily::from_byte: 1 -> IPV4, 2 -> IPV6, anything else refused",
           dec == {0: "Err", 1: "IPV4", 2: "IPV6", 3: "Err", 255: "Err"}, b.loc(), detail=repr(dec))


def wire_layout_e2(prog, chk, rule):
    """MappedSocketAddr::write_into_unchecked on a symbolic socket address (std::net addresses as records of numbers, content-tracked
    destination): the bytes written are 00, family (1 | 2), the port big-endian, the address bits big-endian - 8 bytes for IPv4, 20
    for IPv6 - whatever statements produce them.  The decoder's layout follows from C08's round trip (decode(to_raw(v)) = v) and
    C12's agreement of the two writers."""
    from absint.lin import Lin
    from absint.values import Seq, Struct, Enum, Num, Ref
    from absint.models_content import content_segments, show_segments, use_registry, cell_view_id
    from rules.agent_e2 import Run
    from rules.c12 import split_be
    key = A + "MappedSocketAddr::write_into_unchecked"
    body = prog.bodies.get(key)
    if body is None:
        chk.fail(rule, "MappedSocketAddr::write_into_unchecked not found")
        return

    def setup(run, st):
        it = run.it
        dc = it.cell_of(run.fr, 2)
        dv = st.cells.get(dc)
        ln = dv.len if isinstance(dv, Seq) else it.fresh_num(st, 0, None, "destlen").e
        st.sys.add_ge(ln - 20)
        st.cells["outbuf:dest"] = Seq(ln, None, None, None, ("orig:dest", Lin.const(0)))
        st.cells[dc] = Seq(ln, None, None, (cell_view_id(it, "outbuf:dest", ()), Lin.const(0)), None)
    r = Run(prog, key, track_content=True, bool_vars=False, path_sensitive=False, setup=setup, max_parts=400, net_records=True)
    if r.error or not r.results:
        chk.fail(rule, "MappedSocketAddr::write_into_unchecked|analysis", body.loc(), r.error or "no return state")
        return
    use_registry(r.it)
    seen = set()
    for st, ret in r.results:
        me = r.self_before(st)
        addr = me.get(0) if isinstance(me, Struct) else None
        if not (isinstance(addr, Enum) and len(addr.v) >= 1):
            chk.fail(rule, "MappedSocketAddr::write_into_unchecked|address not understood", body.loc(), repr(me)[:200])
            continue
        now = r.self_now(st)
        cur = now.get(0) if isinstance(now, Struct) else addr
        fam = sorted(cur.v) if isinstance(cur, Enum) else []
        if len(fam) != 1:
            chk.fail(rule, "MappedSocketAddr::write_into_unchecked|a return state does not decide the address family", body.loc(), repr(cur)[:200])
            continue
        v6 = fam[0] == 1
        sv = cur.v[fam[0]].get(0)
        ip, port = sv.get(0).get(0), sv.get(1)
        buf = st.cells.get("outbuf:dest")
        segs = split_be(content_segments(st, buf) or [])
        want = [("be", 1, Lin.const(0)), ("be", 1, Lin.const(2 if v6 else 1)), ("be", 2, port.e), ("be", 16 if v6 else 4, ip.e)]
        ok = len(segs) >= 4
        why = show_segments(segs[:6])
        for k_ in range(4):
            if not ok:
                break
            g, w = segs[k_], want[k_]
            ok = g[0] == "be" and g[1] == w[1] and g[2] is not None and st.sys.entails_eq(g[2] - w[2])
        seen.add(fam[0])
        chk.ob(rule, "MappedSocketAddr::write_into_unchecked (%s): 00, family %d, port (big-endian), address bits (big-endian)" % ("IPv6" if v6 else "IPv4", 2 if v6 else 1),
               ok, body.loc(), detail=why[:300], how="E2 content of the destination, socket address as a record of numbers")
    chk.ob(rule, "both address families are written", seen == {0, 1}, body.loc(), detail=repr(sorted(seen)))


def integer_form(prog, chk, b, og, tid):
    rule = "xor-key"
    n = {4: 0, 6: 0}
    for bi, t in b.calls():
        name = og.callee_name(t)
        m = re.search(r"Ipv(4|6)Addr as std::convert::From<(u32|u128)>>::from$|Ipv(4|6)Addr::from_bits$|<impl std::convert::From<(?:u32|u128)> for std::net::Ipv(4|6)Addr>::from$", name)
        if not m:
            continue
        fam = int(m.group(1) or m.group(3) or m.group(4))
        width = 32 if fam == 4 else 128
        val = og.operand(t["args"][0])

        def leaves(x, fam=fam, width=width):
            if x.k == "call" and re.search(r"<u%d as std::convert::From<std::net::Ipv%dAddr>>::from$|Ipv%dAddr::to_bits$|<impl std::convert::From<std::net::Ipv%dAddr> for u%d>::from$" % (width, fam, fam, fam, width), x.a[0]):
                return ("addr", width)
            if pm(x, tid, b):
                return ("tid", 128)
            return None
        bits = BitEval(leaves).ev(val)
        if fam == 4:
            want = [(("n" if (COOKIE >> i) & 1 else "v"), "addr", i) for i in range(32)]
        else:
            want = [("x", frozenset({("addr", i), ("tid", i)}), 0) for i in range(96)] + \
                   [(("n" if (COOKIE >> i) & 1 else "v"), "addr", 96 + i) for i in range(32)]
        n[fam] += 1
        chk.ob(rule, "IPv%d: address bits = (address as a big-endian integer) xor %s" % (fam, "0x2112A442" if fam == 4 else "(cookie << 96 | low 96 bits of the transaction id)"),
               bits == want, short_span(t["span"]), detail=show_bits(bits)[:200] if bits else repr(val)[:300], how="bit provenance of the integer the address is built from")
    chk.ob(rule, "both address families are xor-ed (integer form)", n[4] >= 1 and n[6] >= 1, b.loc(), detail=repr(n))


def run(prog, chk, tier):
    chk.explanation = (
        "Decided: the port key is (0x2112A442 >> 16) as u16 = 0x2112 and each result bit is the port bit xor the key bit "
        "(bit provenance); the IPv4 key is the cookie's big-endian bytes; the IPv6 key is the big-endian bytes of "
        "cookie<<96 | tid & (2^96-1) (bit provenance of the 128-bit word: bits 96-127 constant cookie, 0-95 the transaction id); "
        "the key depends on constants and the transaction id only; every stored address byte is key[i] ^ address[i] with the "
        "same enumerate index, written into the array that becomes the result address; XorSocketAddr::new stores "
        "xor_addr(addr, tid) and addr(tid) returns xor_addr(stored, tid) (dependence on both arguments); the wire layout offsets "
        "agree between MappedSocketAddr::from_raw and write_into_unchecked (family byte at 1 with values 1/2, port at 2..4, "
        "address at 4..8 / 4..20, lengths 8 / 20). NOT decided: the involution as a value identity; IPv6 flowinfo/scope.")
    chk.trusted += ["rustc MIR", "std::net address constructors/getters", "to_be_bytes = most significant byte first", "byteorder BigEndian"]
    rule = "xor-key"
    b = prog.bodies[A + "XorSocketAddr::xor_addr"]
    og = Origins(prog, b)
    tid = ("call", r"<stun_types::message::TransactionId as std::convert::Into<u128>>::into$", [("param", "transaction")])
    ports = 0
    for bi, si, s in b.iter_stmts():
        if s["k"] == "assign" and s["rv"]["k"] == "binop" and s["rv"]["op"] == "BitXor" and b.place_ty(s["pl"])["s"] == "u16":
            ports += 1
            o = og.rvalue(s["rv"])
            ev = BitEval(lambda x: ("port", 16) if x.k == "call" and re.search(r"SocketAddr(V[46])?::port$", x.a[0]) else None)
            bits = ev.ev(o)
            want = [(("n" if (0x2112 >> i) & 1 else "v"), "port", i) for i in range(16)]
            chk.ob(rule, "port ^ 0x2112 (top 16 bits of the cookie)", bits == want, short_span(s["span"]),
                   detail=show_bits(bits) if bits else repr(o)[:200], how="bit i = port[i] xor bit i of 0x2112")
    chk.floor("port-xor-sites", ports, 1)
    # keys handed to to_be_bytes
    keys = {}
    for bi, t in b.calls():
        n = og.callee_name(t)
        m = re.search(r"num::<impl (u32|u128)>::to_be_bytes$", n)
        if m:
            keys[m.group(1)] = (og.operand(t["args"][0]), t)
    if not keys:
        # the address is xor-ed as one integer (u32 / u128 view of the address, most significant octet first) instead of
        # octet by octet: the bits of the value the result address is built from are evaluated directly
        integer_form(prog, chk, b, og, tid)
    int_form = not keys
    k4 = keys.get("u32")
    chk.ob(rule, "IPv4 key = big-endian bytes of the constant 0x2112A442", int_form or (k4 is not None and const_int(k4[0]) == COOKIE), b.loc(),
           detail=repr(k4[0]) if k4 else "no u32::to_be_bytes")
    k6 = keys.get("u128")
    ok6 = False
    if k6 is not None:
        ev = BitEval(lambda x: ("tid", 128) if pm(x, tid, b) else None)
        bits = ev.ev(k6[0])
        ok6 = bits == [("v", "tid", i) for i in range(96)] + const_bits(COOKIE, 32)
    chk.ob(rule, "IPv6 key = big-endian bytes of cookie<<96 | transaction id (96 bits)", ok6 or int_form, b.loc(),
           detail=repr(k6[0])[:300] if k6 else "no u128::to_be_bytes")
    # the xor of every address byte
    rule = "xor-dependence"
    sites = 0
    for bi, si, s in b.iter_stmts():
        if s["k"] == "assign" and s["rv"]["k"] == "binop" and s["rv"]["op"] == "BitXor" and b.place_ty(s["pl"])["s"] == "u8":
            sites += 1
            o = strip(og.rvalue(s["rv"]))
            a0, a1 = strip(o.a[1]), strip(o.a[2])
            ok = a0.k == "index" and a1.k == "index" and a0.a[1] == a1.a[1]
            fam = None
            if ok:
                srcs = [strip(a0.a[0]), strip(a1.a[0])]
                keysrc = [x for x in srcs if x.k == "call" and re.search(r"to_be_bytes$", x.a[0])]
                addrsrc = [x for x in srcs if x.k == "call" and re.search(r"Ipv[46]Addr::octets$", x.a[0])]
                ok = len(keysrc) == 1 and len(addrsrc) == 1
                if ok:
                    fam = "6" if "Ipv6" in addrsrc[0].a[0] else "4"
                    ok = (("u128" if fam == "6" else "u32") in keysrc[0].a[0]
                          and mentions(addrsrc[0], lambda x: x.k == "call" and re.search(r"SocketAddrV%s::ip$" % fam, x.a[0]) is not None)
                          and mentions(addrsrc[0], lambda x: x.k == "param" and x.a[0] == 1))
                    # index = the enumerate counter; destination = the element yielded with it
                    idx = strip(a0.a[1])
                    dest = strip(og.place(s["pl"]))
                    nxt = [x for x in idx.walk() if x.k == "call" and re.search(r"Enumerate<std::slice::IterMut<'_, u8>> as std::iter::Iterator>::next$", x.a[0])]
                    ok = ok and bool(nxt) and idx.k == "field" and idx.a[1] == "0" and \
                        dest.k == "field" and dest.a[1] == "1" and strip(dest.a[0]) == strip(idx.a[0])
            chk.ob(rule, "IPv%s: every result byte = key[i] ^ address[i] (same i, stored into element i)" % (fam or "?"), bool(ok),
                   short_span(s["span"]), detail=repr(o)[:300])
    chk.floor("byte-xor-sites", sites, 0 if int_form else 2)
    # the array iterated mutably is the one that becomes the address
    n_arr = 0
    for bi, si, s in b.iter_stmts():
        if s["k"] == "assign" and s["rv"]["k"] == "repeat" and not s["pl"]["p"]:
            l = s["pl"]["l"]
            n_arr += 1
            borrowed = False
            into_addr = False
            for u in uses_of_local(b, l):
                if u.kind == "stmt" and u.how == "refmut":
                    cons = consumers_of(prog, b, u.node["pl"]["l"])
                    borrowed = borrowed or any(c[0] == "call" and re.search(r"slice::<impl \[u8\]>::iter_mut$", c[1]) for c in cons)
                if u.kind == "stmt" and u.how in ("move", "copy") and not u.node["pl"]["p"]:
                    cons = consumers_of(prog, b, u.node["pl"]["l"])
                    into_addr = into_addr or any(c[0] == "call" and re.search(r"Ipv[46]Addr as std::convert::From<\[u8; \d+\]>>::from$", c[1]) for c in cons)
            chk.ob(rule, "scratch array #%d: filled through iter_mut().enumerate() and then turned into the address" % n_arr,
                   borrowed and into_addr, short_span(s["span"]))
    chk.floor("scratch-arrays", n_arr, 0 if int_form else 2)
    # results: SocketAddr::new(IpAddr::Vn(from(arr)), xored port)
    for bi, t in b.calls():
        if re.search(r"SocketAddr::new$", og.callee_name(t)):
            a0, a1 = og.operand(t["args"][0]), og.operand(t["args"][1])
            ok = (int_form or pm(a0, ("agg", r"IpAddr::V[46]$", [("call", r"Ipv[46]Addr as std::convert::From<\[u8; \d+\]>>::from$", None)]), b)) and \
                strip(a1).k == "bin" and strip(a1).a[0] == "BitXor"
            chk.ob(rule, "result = SocketAddr::new(address from the xored bytes, xored port)", ok, short_span(t["span"]), detail=repr(a1)[:160])
    # wrappers
    for key, pat in (
        (A + "XorSocketAddr::new", ("agg", r"XorSocketAddr::XorSocketAddr$", [("call", r"MappedSocketAddr::new$", [("call", r"XorSocketAddr::xor_addr$", [("param", "addr"), ("param", "transaction")])])])),
        (A + "XorSocketAddr::addr", ("call", r"XorSocketAddr::xor_addr$", [("call", r"MappedSocketAddr::addr$", [("field", ("param", "self"), "addr")]), ("param", "transaction")])),
        ("stun_types::attribute::xor_addr::XorMappedAddress::new", ("agg", r"XorMappedAddress::XorMappedAddress$", [("call", r"XorSocketAddr::new$", [("param", "addr"), ("param", "transaction")])])),
        ("stun_types::attribute::xor_addr::XorMappedAddress::addr", ("call", r"XorSocketAddr::addr$", [("field", ("param", "self"), "addr"), ("param", "transaction")])),
        (A + "MappedSocketAddr::new", ("agg", r"MappedSocketAddr::MappedSocketAddr$", [("param", "addr")])),
        (A + "MappedSocketAddr::addr", ("field", ("param", "self"), "addr")),
    ):
        wb = prog.bodies[key]
        o = Origins(prog, wb).local(0)
        chk.ob(rule, key.split("attribute::")[-1] + " passes address and transaction id through", pm(o, pat, wb), wb.loc(), detail=repr(o)[:200])
    # ---- layout agreement
    rule = "wire-layout"
    family_tables(prog, chk, rule)
    wire_layout_e2(prog, chk, rule)
    # ---- the codec of the attribute itself: decided by the C08 / C12 rule instances for XOR-MAPPED-ADDRESS, evaluated here as premises
    from rules import c01 as _c01
    for mod, what, pick in (("c08", "XOR-MAPPED-ADDRESS decodes exactly the two RFC layouts, never refuses a well-formed one, and decode(to_raw(v)) = v (C08 rule instances)",
                             lambda o: "XOR-MAPPED-ADDRESS" in str(o["instance"]) or o["rule"] == "address-fidelity"),
                            ("c12", "the two writers of XOR-MAPPED-ADDRESS give the same bytes (C12 rule instances)",
                             lambda o: "XorMappedAddress" in str(o["instance"]))):
        _c01.sub_check(prog, mod)
        sub = _c01._SUB_CACHE.get((id(_c01.PREMISE_PROG if _c01.PREMISE_PROG is not None else prog), mod))
        if sub is None:
            chk.fail("codec-premise", what, detail="the %s rule set could not be evaluated" % mod.upper())
            continue
        mine = [o for o in sub.obs if pick(o)]
        bad = ["%s|%s" % (o["rule"], o["instance"]) for o in mine if not o["ok"]]
        chk.ob("codec-premise", what, bool(mine) and not bad, detail="failing: %s" % bad[:4], how="%d rule instances of %s re-evaluated on this tree" % (len(mine), mod.upper()))
    lb = prog.bodies[A + "MappedSocketAddr::length"]
    lens = {}
    adt = prog.adts.get("std::net::SocketAddr")
    for v in (adt["variants"] if adt else []):
        def oracle(o, t, body, d=int(v["discr"])):
            s = strip(o)
            if s.k == "discr":
                return d
            return None
        w = Walker(prog, lb, oracle, lambda *a: None, track_locals={0}, mut_arg_event=False)
        vals = [const_int(e[2]) for e in w.run() if e[0] == "set" and e[1] == 0]
        lens[v["name"]] = vals[-1] if vals else None
    chk.ob(rule, "length(): 8 for IPv4, 20 for IPv6", lens == {"V4": 8, "V6": 20}, lb.loc(), detail=repr(lens))
