"""C08 - each built-in attribute decodes exactly the RFC encodings (tables; DESIGN section 3 C08).

Decided for all raw attributes, from the abstract interpreter's return states of each of the 19 typed decoders
(ghost: the raw attribute handed in): every Ok return entails type == the decoder's TYPE and a value length inside
the RFC range / set / congruence class (and for ERROR-CODE class 3..=6 in the low bits of byte 2, number <= 99 in
byte 3; for address attributes family byte 1 <=> length 8, 2 <=> length 20); a raw attribute of the right type and
an allowed length is never refused as WrongAttributeImplementation / Truncated / TooLarge; the 19 TYPE constants
are the IANA codes and pairwise distinct; fixed-size attributes report the length their decoder demands;
constructors enforce the same upper limits as the decoders; no address-normalising std API is reachable from an
attribute codec.  NOT decided: field-level decode/encode agreement and decode(encode(v)) = v (run-time values),
UTF-8 acceptance (delegated to from_utf8)."""
import re
from absint.lin import Lin, norm_eq
from absint.values import *
from absint.interp import Interp, FailClosed
from absint.models import M
from rules.c01 import INVARIANTS
from rules import parse_e2 as PE
import e1

THOROUGH_CONFIGS = ("release", "arbitrary")
LEVEL = "other"
A = "stun_types::attribute::"

# name: (module::Type, code, (lo, hi|None), kind)   kind: range | set:<vals> | mod:<m> | addr | errorcode
SPEC = [
    ("USERNAME", "user::Username", 0x0006, (0, 513), "range"),
    ("MESSAGE-INTEGRITY", "integrity::MessageIntegrity", 0x0008, (20, 20), "range"),
    ("ERROR-CODE", "error::ErrorCode", 0x0009, (4, 767), "errorcode"),
    ("UNKNOWN-ATTRIBUTES", "error::UnknownAttributes", 0x000A, (0, None), "mod:2"),
    ("REALM", "realm::Realm", 0x0014, (0, 763), "range"),
    ("NONCE", "nonce::Nonce", 0x0015, (0, 763), "range"),
    ("MESSAGE-INTEGRITY-SHA256", "integrity::MessageIntegritySha256", 0x001C, (16, 32), "mod:4"),
    ("PASSWORD-ALGORITHM", "password_algorithm::PasswordAlgorithm", 0x001D, (4, None), "mod:4"),
    ("USERHASH", "user::Userhash", 0x001E, (32, 32), "range"),
    ("XOR-MAPPED-ADDRESS", "xor_addr::XorMappedAddress", 0x0020, (8, 20), "addr"),
    ("PRIORITY", "ice::Priority", 0x0024, (4, 4), "range"),
    ("USE-CANDIDATE", "ice::UseCandidate", 0x0025, (0, 0), "range"),
    ("PASSWORD-ALGORITHMS", "password_algorithm::PasswordAlgorithms", 0x8002, (4, None), "mod:4"),
    ("ALTERNATE-DOMAIN", "alternate::AlternateDomain", 0x8003, (0, None), "range"),
    ("SOFTWARE", "software::Software", 0x8022, (0, 763), "range"),
    ("ALTERNATE-SERVER", "alternate::AlternateServer", 0x8023, (8, 20), "addr"),
    ("FINGERPRINT", "fingerprint::Fingerprint", 0x8028, (4, 4), "range"),
    ("ICE-CONTROLLED", "ice::IceControlled", 0x8029, (8, 8), "range"),
    ("ICE-CONTROLLING", "ice::IceControlling", 0x802A, (8, 8), "range"),
]
FIXED_LENGTH = {"integrity::MessageIntegrity": 20, "user::Userhash": 32, "ice::Priority": 4, "ice::UseCandidate": 0,
                "fingerprint::Fingerprint": 4, "ice::IceControlled": 8, "ice::IceControlling": 8}
CONSTRUCTOR_LIMIT = {"user::Username": 513, "realm::Realm": 763, "nonce::Nonce": 763, "software::Software": 763}


def decoder_key(prog, ty):
    want = A + ty
    for path, i in prog.trait_method_impls("std::convert::TryFrom", "try_from"):
        if i["self_s"].split("<")[0] == want and "RawAttribute" in path:
            return path
    return None


def snapshot_arg(it, st, fr):
    for c in list(st.cells):
        if c.endswith("*a1"):
            st.cells["ghost:init"] = st.cells[c]


def first_seq(v, depth=0):
    if isinstance(v, Seq):
        return v
    if depth > 5:
        return None
    if isinstance(v, Struct):
        for x in v.f.values():
            r = first_seq(x, depth + 1)
            if r is not None:
                return r
    if isinstance(v, Enum):
        for x in v.v.values():
            r = first_seq(x, depth + 1)
            if r is not None:
                return r
    return None


def raw_parts(st):
    """(type Lin, value length Lin, length variable name) of the raw attribute the decoder was given"""
    g = None
    for c_, v_ in st.cells.items():
        if c_.endswith("*a1"):
            g = v_      # the (immutable) input region, refined to the Data variant of this partition
    if not isinstance(g, Struct):
        return None
    hdr, val = g.get(0), g.get(1)
    at = hdr.get(0) if isinstance(hdr, Struct) else None
    at = at.get(0) if isinstance(at, Struct) else at
    sq = first_seq(val)
    if not isinstance(at, Num) or sq is None:
        return None
    lv = next(iter(sq.len.t)) if len(sq.len.t) == 1 else None
    return at.e, sq.len, lv


def feasible(st, eqs=(), ges=()):
    s = st.sys.copy()
    for e in eqs:
        s.add_eq(e)
    for e in ges:
        s.add_ge(e)
    return s.feasible()


def run(prog, chk, tier):
    chk.explanation = __doc__.split("\n\n", 1)[1]
    chk.trusted += ["external-callee model table", "IANA / RFC 8489, 8445 code and length table transcribed in pylib/rules/c08.py"]
    # (a) TYPE constants
    codes = {}
    for name, ty, code, rng, kind in SPEC:
        cv = prog.consts.get("<%s%s as %sAttributeStaticType>::TYPE" % (A, ty, A), {}).get("v", {}).get("int")
        chk.ob("type-code", "%s = 0x%04X" % (name, code), cv == code, detail="TYPE evaluates to %r" % (cv,), how="constant evaluation")
        codes[ty] = cv
    vals = [v for v in codes.values() if v is not None]
    chk.ob("type-code", "the 19 TYPE constants are pairwise distinct", len(set(vals)) == len(vals) == 19, how="constant evaluation")
    # (b, c, d) decoders
    n_dec = 0
    for name, ty, code, (lo, hi), kind in SPEC:
        key = decoder_key(prog, ty)
        if not chk.ob("decoder", "%s has a TryFrom<&RawAttribute> decoder" % name, key is not None):
            continue
        it = Interp(prog, M, INVARIANTS)
        try:
            res = it.analyse_entry(key, setup=snapshot_arg)
        except FailClosed as e:
            chk.fail("decoder", "%s: analysis failed closed" % name, detail=str(e))
            continue
        n_dec += 1
        n_ok = 0
        for st, ret in res:
            if not st.sys.feasible():
                continue
            c = PE.classify(prog, ret)
            parts = raw_parts(st)
            if parts is None:
                chk.fail("decoder", "%s: raw attribute ghost lost" % name)
                continue
            at, ln, lv = parts
            if c[0] == "Ok":
                n_ok += 1
                chk.ob("wrong-type-refused", "%s: Ok => raw type == 0x%04X" % (name, code), st.sys.entails_eq(at - code),
                       detail="an Ok return does not entail the type comparison", how="E2 return state")
                ok = st.sys.entails_ge(ln - lo) and (hi is None or st.sys.entails_ge(Lin.const(hi) - ln))
                chk.ob("length-range", "%s: Ok => value length in %s..=%s" % (name, lo, hi if hi is not None else ""), ok,
                       detail="Ok reachable with a length outside the range (system: %r)" % (st.sys.reduce(ln),), how="E2 return state")
                if kind.startswith("mod:"):
                    m = int(kind[4:])
                    bad = [r for r in range(1, m) if feasible(st, eqs=[ln - Lin.var("zz_q").scale(m) - r])]
                    chk.ob("length-range", "%s: Ok => value length is a multiple of %d" % (name, m), not bad,
                           detail="residues %s possible" % bad, how="E2 return state (integer congruence)")
                if kind == "addr" and lv is not None:
                    fam = Lin.var("e1@" + lv)
                    v4 = st.sys.entails_eq(fam - 1) and st.sys.entails_eq(ln - 8)
                    v6 = st.sys.entails_eq(fam - 2) and st.sys.entails_eq(ln - 20)
                    # the two cases may arrive joined: over the integers 1 <= family <= 2 and len = 12*family - 4 is exactly them
                    both = st.sys.entails_ge(fam - 1) and st.sys.entails_ge(Lin.const(2) - fam) and st.sys.entails_eq(ln - fam.scale(12) + 4)
                    chk.ob("address-family", "%s: Ok => (family byte 1 and length 8) or (family byte 2 and length 20)" % name, v4 or v6 or both,
                           detail="family/length not tied: %r" % (st.sys,), how="E2 return state")
                if kind == "errorcode" and lv is not None:
                    num = Lin.var("e3@" + lv)
                    payload = c[1]
                    code_v = payload.get(0) if isinstance(payload, Struct) else None
                    if ("e3@" + lv) in st.sys.vars():
                        ok = st.sys.entails_ge(Lin.const(99) - num) and isinstance(code_v, Num) and \
                            st.sys.entails_ge(code_v.e - num - 300) and st.sys.entails_ge(Lin.const(600) - code_v.e + num)
                    else:
                        # the number byte is read through another window of the value (e.g. split_at): the code itself must
                        # still be class * 100 + number with class in 3..=6 and number <= 99, i.e. 300..=699
                        ok = isinstance(code_v, Num) and st.sys.entails_ge(code_v.e - 300) and st.sys.entails_ge(Lin.const(699) - code_v.e)
                    chk.ob("error-code-range", "ERROR-CODE: Ok => number byte <= 99 and class (code - number) / 100 in 3..=6", ok,
                           detail="Ok state: %r" % (st.sys,), how="E2 return state")
            elif c[0] == "Err" and kind == "addr" and lv is not None and c[1] not in ("WrongAttributeImplementation",):
                # a well-formed address value (family 1 with 8 bytes, family 2 with 20 bytes) is always accepted
                fam = Lin.var("e1@" + lv)
                bad4 = feasible(st, eqs=[at - code, fam - 1, ln - 8])
                bad6 = feasible(st, eqs=[at - code, fam - 2, ln - 20])
                chk.ob("address-family", "%s: (family 1, 8 bytes) and (family 2, 20 bytes) are never refused (%s)" % (name, c[1]), not bad4 and not bad6,
                       detail="refusal %s is feasible for a well-formed address value" % c[1], how="E2 return state")
            elif c[0] == "Err" and c[1] in ("WrongAttributeImplementation", "Truncated", "TooLarge"):
                if name.startswith("PASSWORD-ALGORITHM") and c[1] == "TooLarge":
                    continue      # a non-empty algorithm parameter is refused with TooLarge: depends on the value bytes
                ges = [ln - lo] + ([Lin.const(hi) - ln] if hi is not None else [])
                eqs = [at - code]
                if kind.startswith("mod:"):
                    eqs.append(ln - Lin.var("zz_q").scale(int(kind[4:])))
                ok = not feasible(st, eqs=eqs, ges=ges)
                if kind == "addr":
                    # lengths between 8 and 20 other than the two valid ones are legitimately refused
                    ok = not feasible(st, eqs=[at - code, ln - 8]) and not feasible(st, eqs=[at - code, ln - 20]) if c[1] != "Truncated" and c[1] != "TooLarge" else True
                chk.ob("accepts-allowed", "%s: right type and allowed length is not refused as %s" % (name, c[1]), ok,
                       detail="refusal %s is feasible for an allowed (type, length)" % c[1], how="E2 return state")
        chk.ob("decoder", "%s: the decoder can return Ok" % name, n_ok >= 1, how="E2 return states")
    chk.floor("decoders-analysed", n_dec, 19)
    # (e) fixed-size attributes report the size their decoder demands
    for ty, n in sorted(FIXED_LENGTH.items()):
        key = "<%s%s as %sAttribute>::length" % (A, ty, A)
        if key not in prog.bodies:
            chk.fail("fixed-length", "%s::length not found" % ty)
            continue
        it = Interp(prog, M, INVARIANTS)
        res = it.analyse_entry(key)
        ok = bool(res) and all(isinstance(r, Num) and st.sys.entails_eq(r.e - n) for st, r in res)
        chk.ob("fixed-length", "%s::length() == %d" % (ty.split("::")[1], n), ok, how="E2 return value")
    # (f) constructors enforce the decoder's upper limit
    for ty, lim in sorted(CONSTRUCTOR_LIMIT.items()):
        key = A + ty + "::new"
        if key not in prog.bodies:
            chk.fail("constructor-limit", "%s::new not found" % ty)
            continue
        it = Interp(prog, M, INVARIANTS)

        def snap1(it_, st, fr):
            v = st.cells.get(it_.cell_of(fr, 1))
            if isinstance(v, Seq):
                st.cells["ghost:arg"] = Num(v.len)
        res = it.analyse_entry(key, setup=snap1)
        oks = [(st, r) for st, r in res if PE.classify(prog, r)[0] == "Ok"]
        ok = bool(oks) and all(isinstance(st.cells.get("ghost:arg"), Num) and st.sys.entails_ge(Lin.const(lim) - st.cells["ghost:arg"].e)
                               and feasible(st, eqs=[st.cells["ghost:arg"].e - lim]) for st, r in oks)
        chk.ob("constructor-limit", "%s::new accepts exactly lengths up to %d (the decoder's limit)" % (ty.split("::")[1], lim), ok, how="E2 return states")
    # (h) no address-normalising std API in attribute codecs
    roots = [k for k, b in prog.bodies.items() if b.crate == "stun_types" and k.startswith(("<" + A, A)) and not b.mono]
    seen = prog.reach(roots, follow_callbacks=False)
    ext = prog.ext_callees(seen)
    bad = sorted(n for n in ext if re.search(r"(Ipv6Addr|Ipv4Addr|IpAddr|SocketAddr(V4|V6)?)::(to_ipv4_mapped|to_ipv4|to_canonical|to_ipv6_mapped|to_ipv6_compatible|set_ip|set_port|is_\w+)$", n))
    chk.ob("address-fidelity", "no address-normalising / classifying std::net API is reachable from an attribute codec", not bad,
           where=(ext[bad[0]][0][0] if bad else None), detail="reachable: %s" % bad[:3], how="call-graph reachability over %d bodies" % len(seen))
    chk.counts["codec_bodies"] = len(seen)
