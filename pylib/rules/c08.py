"""C08 - each built-in attribute decodes exactly the RFC encodings (tables; DESIGN section 3 C08).

Decided for all raw attributes, from the abstract interpreter's return states of each of the 19 typed decoders
(ghost: the raw attribute handed in): every Ok return entails type == the decoder's TYPE and a value length inside
the RFC range / set / congruence class (and for ERROR-CODE class 3..=6 in the low bits of byte 2, number <= 99 in
byte 3; for address attributes family byte 1 <=> length 8, 2 <=> length 20); a raw attribute of the right type and
an allowed length is never refused as WrongAttributeImplementation / Truncated / TooLarge; the 19 TYPE constants
are the IANA codes and pairwise distinct; fixed-size attributes report the length their decoder demands;
constructors enforce the same upper limits as the decoders; no address-normalising std API is reachable from an
attribute codec; decode(to_raw(v)) = v per attribute type: to_raw and the type's decoder analysed back to back on one symbolic
in-limit value in content-tracking mode, every accepting return must hand back each field as the original field (numbers
entailed equal - a known but unequal function of the original is a violation -, text / byte fields the same identified
bytes).  Decided today for 14 of the 19 types; the two address attributes (std::net values are opaque), the two element-wise
lists and the xor-ed FINGERPRINT are listed in the evidence as not decided.  UNKNOWN-ATTRIBUTES::has_attribute is the
membership of the decoded list (short symbolic lists in any order; an answer resting on an order of the list is accepted only
if every writer of the list establishes it); the in-place encoding path is covered through the C12 writer instances,
evaluated as a premise.  NOT decided: that decode(to_raw(v)) is
*accepted* for every in-limit v beyond the limit tables above (UTF-8 acceptance is delegated to from_utf8), re-encoding
stability of decoded values, the undecided types."""
import re
from absint.lin import Lin, norm_eq
from absint.values import *
from absint.interp import Interp, FailClosed
from absint.models import M
from rules.c01 import INVARIANTS
from rules import parse_e2 as PE
import e1

THOROUGH_CONFIGS = ("release", "arbitrary")
LEVEL = "other"
A = "stun_types::attribute::"

# name: (module::Type, code, (lo, hi|None), kind)   kind: range | set:<vals> | mod:<m> | addr | errorcode
SPEC = [
    ("USERNAME", "user::Username", 0x0006, (0, 513), "range"),
    ("MESSAGE-INTEGRITY", "integrity::MessageIntegrity", 0x0008, (20, 20), "range"),
    ("ERROR-CODE", "error::ErrorCode", 0x0009, (4, 767), "errorcode"),
    ("UNKNOWN-ATTRIBUTES", "error::UnknownAttributes", 0x000A, (0, None), "mod:2"),
    ("REALM", "realm::Realm", 0x0014, (0, 763), "range"),
    ("NONCE", "nonce::Nonce", 0x0015, (0, 763), "range"),
    ("MESSAGE-INTEGRITY-SHA256", "integrity::MessageIntegritySha256", 0x001C, (16, 32), "mod:4"),
    ("PASSWORD-ALGORITHM", "password_algorithm::PasswordAlgorithm", 0x001D, (4, None), "mod:4"),
    ("USERHASH", "user::Userhash", 0x001E, (32, 32), "range"),
    ("XOR-MAPPED-ADDRESS", "xor_addr::XorMappedAddress", 0x0020, (8, 20), "addr"),
    ("PRIORITY", "ice::Priority", 0x0024, (4, 4), "range"),
    ("USE-CANDIDATE", "ice::UseCandidate", 0x0025, (0, 0), "range"),
    ("PASSWORD-ALGORITHMS", "password_algorithm::PasswordAlgorithms", 0x8002, (4, None), "mod:4"),
    ("ALTERNATE-DOMAIN", "alternate::AlternateDomain", 0x8003, (0, None), "range"),
    ("SOFTWARE", "software::Software", 0x8022, (0, 763), "range"),
    ("ALTERNATE-SERVER", "alternate::AlternateServer", 0x8023, (8, 20), "addr"),
    ("FINGERPRINT", "fingerprint::Fingerprint", 0x8028, (4, 4), "range"),
    ("ICE-CONTROLLED", "ice::IceControlled", 0x8029, (8, 8), "range"),
    ("ICE-CONTROLLING", "ice::IceControlling", 0x802A, (8, 8), "range"),
]
FIXED_LENGTH = {"integrity::MessageIntegrity": 20, "user::Userhash": 32, "ice::Priority": 4, "ice::UseCandidate": 0,
                "fingerprint::Fingerprint": 4, "ice::IceControlled": 8, "ice::IceControlling": 8}
CONSTRUCTOR_LIMIT = {"user::Username": 513, "realm::Realm": 763, "nonce::Nonce": 763, "software::Software": 763}


def decoder_key(prog, ty):
    want = A + ty
    for path, i in prog.trait_method_impls("std::convert::TryFrom", "try_from"):
        if i["self_s"].split("<")[0] == want and "RawAttribute" in path:
            return path
    return None


def snapshot_arg(it, st, fr):
    for c in list(st.cells):
        if c.endswith("*a1"):
            st.cells["ghost:init"] = st.cells[c]


def first_seq(v, depth=0):
    if isinstance(v, Seq):
        return v
    if depth > 5:
        return None
    if isinstance(v, Struct):
        for x in v.f.values():
            r = first_seq(x, depth + 1)
            if r is not None:
                return r
    if isinstance(v, Enum):
        for x in v.v.values():
            r = first_seq(x, depth + 1)
            if r is not None:
                return r
    return None


def raw_parts(st):
    """(type Lin, value length Lin, length variable name) of the raw attribute the decoder was given"""
    g = None
    for c_, v_ in st.cells.items():
        if c_.endswith("*a1"):
            g = v_      # the (immutable) input region, refined to the Data variant of this partition
    if not isinstance(g, Struct):
        return None
    hdr, val = g.get(0), g.get(1)
    at = hdr.get(0) if isinstance(hdr, Struct) else None
    at = at.get(0) if isinstance(at, Struct) else at
    sq = first_seq(val)
    if not isinstance(at, Num) or sq is None:
        return None
    lv = next(iter(sq.len.t)) if len(sq.len.t) == 1 else None
    return at.e, sq.len, lv


def feasible(st, eqs=(), ges=()):
    s = st.sys.copy()
    for e in eqs:
        s.add_eq(e)
    for e in ges:
        s.add_ge(e)
    return s.feasible()


def run(prog, chk, tier):
    roundtrip(prog, chk)
    run_tables(prog, chk, tier)
    list_getters(prog, chk)
    encode_paths(prog, chk)


# ------------------------------------------------------------------------------------------------ every encoding path

def encode_paths(prog, chk, rule="encode-paths"):
    """The round trip above is decided on the to_raw() form.  A value is also encoded in place (write_into /
    write_into_unchecked, the path MessageBuilder::write_into takes); that path yields the same bytes by the C12 rule instances
    for the attribute writers (coverage of exactly [0, padded_len()), zero padding, byte-for-byte agreement of the two writers),
    evaluated here as a premise."""
    from rules import c01 as _c01
    _c01.sub_check(prog, "c12")
    sub = _c01._SUB_CACHE.get((id(_c01.PREMISE_PROG if _c01.PREMISE_PROG is not None else prog), "c12"))
    if sub is None:
        chk.fail(rule, "in-place encoding agrees with to_raw() (C12 rule instances)", detail="the C12 rule set could not be evaluated")
        return
    mine = [o for o in sub.obs if o["rule"] in ("writer-coverage", "zero-padding", "two-writers", "writer-bounds") and "RawAttribute" not in str(o["instance"])]
    bad = ["%s|%s" % (o["rule"], o["instance"]) for o in mine if not o["ok"]]
    chk.ob(rule, "in-place encoding of every attribute type gives the bytes of its to_raw() form (C12 rule instances)", bool(mine) and not bad,
           detail="failing: %s" % bad[:4], how="%d rule instances of C12 re-evaluated on this tree" % len(mine))
    chk.floor(rule + "-instances", len(mine), 60)


# ------------------------------------------------------------------------------------------------ "exposes exactly the encoded fields": list queries

UA = A + "error::UnknownAttributes"


def list_getters(prog, chk, rule="list-query"):
    """UNKNOWN-ATTRIBUTES answers `has_attribute(t)` from the decoded list: over a list of k symbolic types (k = 0..2, in *any*
    order - the decoder keeps wire order) and a symbolic type asked for, every return state must be the membership the path
    decided.  An answer that rests on an order of the list (std's binary_search) is accepted only when the order is a decided
    fact of the path; otherwise it is reported together with the writers of the list that do not sort it."""
    from rules.agent_e2 import Run, bool_of
    from absint.models_content import known_eq
    key = UA + "::has_attribute"
    body = prog.bodies.get(key)
    if body is None:
        chk.ob(rule, "UnknownAttributes::has_attribute exists", False, detail="function not found")
        return
    arg = {body.locals[i]["name"]: i for i in range(1, body.arg_count + 1)}
    qi = [i for n_, i in arg.items() if n_ != "self"]
    n = 0
    for k in (0, 1, 2):
        tvars = [Lin.var("t%d" % i) for i in range(k)]
        q = Lin.var("asked")

        def setup(run, st, tvars=tvars, q=q):
            for v in tvars + [q]:
                st.sys.add_range(v, 0, 65535)
                st.cells["ghost:q:" + next(iter(v.t))] = Num(v)
            lst = Seq(Lin.const(len(tvars)), None, Struct({i: Struct({0: Num(v)}) for i, v in enumerate(tvars)}, tag="elems") if tvars else EMPTY)
            if not run.self_cell:
                raise FailClosed("self region not found")
            st.cells[run.self_cell] = Struct({0: lst})
            st.cells[run.it.cell_of(run.fr, qi[0])] = Struct({0: Num(q)})
        r = Run(prog, key, track_content=True, bool_vars=False, max_parts=4000, setup=setup)
        if r.error or not r.results:
            chk.fail(rule, "UnknownAttributes::has_attribute|analysis|%d listed" % k, body.loc(), r.error or "no return state")
            continue
        for st, ret in r.results:
            if not st.sys.feasible():
                continue
            n += 1
            tr = r.trace(st)
            member, undecided = False, False
            for tv in tvars:
                e_ = known_eq(st, Num(tv), Num(q))
                if e_ is True:
                    member = True
                    break
                if e_ is None:
                    undecided = True
            problems = []
            unordered = [e for e in tr if e[0] in ("binary-search-unordered", "binary-search-unknown-list")]
            ans = bool_of(st, ret)
            if unordered:
                writers = sorted({re.sub(r"::\{closure#\d+\}", "", a["body"]) for a in e1.field_accesses(prog, UA + "::UnknownAttributes", "attributes")
                                  if a["how"] in ("write", "refmut")} | {c_["body"] for c_ in e1.construct_sites(prog, UA)})
                writers = [w for w in writers if " as std::clone::Clone>" not in w and w in prog.bodies]
                unsorted_writers = [w for w in writers if not any(re.search(r"::(sort\w*|binary_search\w*|is_sorted\w*)$", c_) for c_ in prog.ext_callees(prog.reach([w], follow_callbacks=False)))]
                problems.append("the answer rests on the list being in ascending order, which the path does not know; not established by: %s"
                                % (", ".join(w.split("::", 2)[-1] for w in unsorted_writers) or "(every writer sorts - order assumed, not proved)"))
                if not unsorted_writers:
                    problems = []          # assume-guarantee: every writer of the list sorts it (checked by reachability only)
            elif not member and undecided:
                problems.append("answers %r without deciding whether a listed type is the one asked for" % (ans,))
            elif ans is not member:
                problems.append("answers %r where membership is %r" % (ans, member))
            chk.ob(rule, "UNKNOWN-ATTRIBUTES::has_attribute|%d listed|%s" % (k, "member" if member else "not a member"), not problems, body.loc(),
                   detail="; ".join(problems), how="E2 return state over a short symbolic list (any order)")
    chk.floor(rule + "-rows", n, 4)


def run_tables(prog, chk, tier):
    chk.explanation = __doc__.split("\n\n", 1)[1]
    chk.trusted += ["external-callee model table", "IANA / RFC 8489, 8445 code and length table transcribed in pylib/rules/c08.py"]
    # (a) TYPE constants
    codes = {}
    for name, ty, code, rng, kind in SPEC:
        cv = prog.consts.get("<%s%s as %sAttributeStaticType>::TYPE" % (A, ty, A), {}).get("v", {}).get("int")
        chk.ob("type-code", "%s = 0x%04X" % (name, code), cv == code, detail="TYPE evaluates to %r" % (cv,), how="constant evaluation")
        codes[ty] = cv
    vals = [v for v in codes.values() if v is not None]
    chk.ob("type-code", "the 19 TYPE constants are pairwise distinct", len(set(vals)) == len(vals) == 19, how="constant evaluation")
    # (b, c, d) decoders
    n_dec = 0
    for name, ty, code, (lo, hi), kind in SPEC:
        key = decoder_key(prog, ty)
        if not chk.ob("decoder", "%s has a TryFrom<&RawAttribute> decoder" % name, key is not None):
            continue
        it = Interp(prog, M, INVARIANTS)
        try:
            res = it.analyse_entry(key, setup=snapshot_arg)
        except FailClosed as e:
            chk.fail("decoder", "%s: analysis failed closed" % name, detail=str(e))
            continue
        n_dec += 1
        n_ok = 0
        for st, ret in res:
            if not st.sys.feasible():
                continue
            c = PE.classify(prog, ret)
            parts = raw_parts(st)
            if parts is None:
                chk.fail("decoder", "%s: raw attribute ghost lost" % name)
                continue
            at, ln, lv = parts
            if c[0] == "Ok":
                n_ok += 1
                chk.ob("wrong-type-refused", "%s: Ok => raw type == 0x%04X" % (name, code), st.sys.entails_eq(at - code),
                       detail="an Ok return does not entail the type comparison", how="E2 return state")
                ok = st.sys.entails_ge(ln - lo) and (hi is None or st.sys.entails_ge(Lin.const(hi) - ln))
                chk.ob("length-range", "%s: Ok => value length in %s..=%s" % (name, lo, hi if hi is not None else ""), ok,
                       detail="Ok reachable with a length outside the range (system: %r)" % (st.sys.reduce(ln),), how="E2 return state")
                if kind.startswith("mod:"):
                    m = int(kind[4:])
                    bad = [r for r in range(1, m) if feasible(st, eqs=[ln - Lin.var("zz_q").scale(m) - r])]
                    chk.ob("length-range", "%s: Ok => value length is a multiple of %d" % (name, m), not bad,
                           detail="residues %s possible" % bad, how="E2 return state (integer congruence)")
                if kind == "addr" and lv is not None:
                    fam = Lin.var("e1@" + lv)
                    v4 = st.sys.entails_eq(fam - 1) and st.sys.entails_eq(ln - 8)
                    v6 = st.sys.entails_eq(fam - 2) and st.sys.entails_eq(ln - 20)
                    # the two cases may arrive joined: over the integers 1 <= family <= 2 and len = 12*family - 4 is exactly them
                    both = st.sys.entails_ge(fam - 1) and st.sys.entails_ge(Lin.const(2) - fam) and st.sys.entails_eq(ln - fam.scale(12) + 4)
                    chk.ob("address-family", "%s: Ok => (family byte 1 and length 8) or (family byte 2 and length 20)" % name, v4 or v6 or both,
                           detail="family/length not tied: %r" % (st.sys,), how="E2 return state")
                if kind == "errorcode" and lv is not None:
                    num = Lin.var("e3@" + lv)
                    payload = c[1]
                    code_v = payload.get(0) if isinstance(payload, Struct) else None
                    if ("e3@" + lv) in st.sys.vars():
                        ok = st.sys.entails_ge(Lin.const(99) - num) and isinstance(code_v, Num) and \
                            st.sys.entails_ge(code_v.e - num - 300) and st.sys.entails_ge(Lin.const(600) - code_v.e + num)
                    else:
                        # the number byte is read through another window of the value (e.g. split_at): the code itself must
                        # still be class * 100 + number with class in 3..=6 and number <= 99, i.e. 300..=699
                        ok = isinstance(code_v, Num) and st.sys.entails_ge(code_v.e - 300) and st.sys.entails_ge(Lin.const(699) - code_v.e)
                    chk.ob("error-code-range", "ERROR-CODE: Ok => number byte <= 99 and class (code - number) / 100 in 3..=6", ok,
                           detail="Ok state: %r" % (st.sys,), how="E2 return state")
            elif c[0] == "Err" and kind == "addr" and lv is not None and c[1] not in ("WrongAttributeImplementation",):
                # a well-formed address value (family 1 with 8 bytes, family 2 with 20 bytes) is always accepted
                fam = Lin.var("e1@" + lv)
                bad4 = feasible(st, eqs=[at - code, fam - 1, ln - 8])
                bad6 = feasible(st, eqs=[at - code, fam - 2, ln - 20])
                chk.ob("address-family", "%s: (family 1, 8 bytes) and (family 2, 20 bytes) are never refused (%s)" % (name, c[1]), not bad4 and not bad6,
                       detail="refusal %s is feasible for a well-formed address value" % c[1], how="E2 return state")
            elif c[0] == "Err" and c[1] in ("WrongAttributeImplementation", "Truncated", "TooLarge"):
                if name.startswith("PASSWORD-ALGORITHM") and c[1] == "TooLarge":
                    continue      # a non-empty algorithm parameter is refused with TooLarge: depends on the value bytes
                ges = [ln - lo] + ([Lin.const(hi) - ln] if hi is not None else [])
                eqs = [at - code]
                if kind.startswith("mod:"):
                    eqs.append(ln - Lin.var("zz_q").scale(int(kind[4:])))
                ok = not feasible(st, eqs=eqs, ges=ges)
                if kind == "addr":
                    # lengths between 8 and 20 other than the two valid ones are legitimately refused
                    ok = not feasible(st, eqs=[at - code, ln - 8]) and not feasible(st, eqs=[at - code, ln - 20]) if c[1] != "Truncated" and c[1] != "TooLarge" else True
                chk.ob("accepts-allowed", "%s: right type and allowed length is not refused as %s" % (name, c[1]), ok,
                       detail="refusal %s is feasible for an allowed (type, length)" % c[1], how="E2 return state")
        chk.ob("decoder", "%s: the decoder can return Ok" % name, n_ok >= 1, how="E2 return states")
    chk.floor("decoders-analysed", n_dec, 19)
    # (e) fixed-size attributes report the size their decoder demands
    for ty, n in sorted(FIXED_LENGTH.items()):
        key = "<%s%s as %sAttribute>::length" % (A, ty, A)
        if key not in prog.bodies:
            chk.fail("fixed-length", "%s::length not found" % ty)
            continue
        it = Interp(prog, M, INVARIANTS)
        res = it.analyse_entry(key)
        ok = bool(res) and all(isinstance(r, Num) and st.sys.entails_eq(r.e - n) for st, r in res)
        chk.ob("fixed-length", "%s::length() == %d" % (ty.split("::")[1], n), ok, how="E2 return value")
    # (f) constructors enforce the decoder's upper limit
    for ty, lim in sorted(CONSTRUCTOR_LIMIT.items()):
        key = A + ty + "::new"
        if key not in prog.bodies:
            chk.fail("constructor-limit", "%s::new not found" % ty)
            continue
        it = Interp(prog, M, INVARIANTS)

        def snap1(it_, st, fr):
            v = st.cells.get(it_.cell_of(fr, 1))
            if isinstance(v, Seq):
                st.cells["ghost:arg"] = Num(v.len)
        res = it.analyse_entry(key, setup=snap1)
        oks = [(st, r) for st, r in res if PE.classify(prog, r)[0] == "Ok"]
        ok = bool(oks) and all(isinstance(st.cells.get("ghost:arg"), Num) and st.sys.entails_ge(Lin.const(lim) - st.cells["ghost:arg"].e)
                               and feasible(st, eqs=[st.cells["ghost:arg"].e - lim]) for st, r in oks)
        chk.ob("constructor-limit", "%s::new accepts exactly lengths up to %d (the decoder's limit)" % (ty.split("::")[1], lim), ok, how="E2 return states")
    # (h) no address-normalising std API in attribute codecs
    roots = [k for k, b in prog.bodies.items() if b.crate == "stun_types" and k.startswith(("<" + A, A)) and not b.mono]
    seen = prog.reach(roots, follow_callbacks=False)
    ext = prog.ext_callees(seen)
    bad = sorted(n for n in ext if re.search(r"(Ipv6Addr|Ipv4Addr|IpAddr|SocketAddr(V4|V6)?)::(to_ipv4_mapped|to_ipv4|to_canonical|to_ipv6_mapped|to_ipv6_compatible|set_ip|set_port|is_\w+)$", n))
    chk.ob("address-fidelity", "no address-normalising / classifying std::net API is reachable from an attribute codec", not bad,
           where=(ext[bad[0]][0][0] if bad else None), detail="reachable: %s" % bad[:3], how="call-graph reachability over %d bodies" % len(seen))
    chk.counts["codec_bodies"] = len(seen)


# ------------------------------------------------------------------------------------------------ decode(encode(v)) = v

# the property's "in-limit value" for fields whose range is not visible in their type (RFC 8489 section 14.8: class 3..=6, number 0..=99)
VALUE_LIMITS = {"error::ErrorCode": {"code": (300, 699)}}


def same_field(st, a, b):
    """is the decoded field `a` the original field `b` (True / False / None = cannot tell)"""
    from absint.models_content import content_segments
    from rules.c12 import seg_equal
    if isinstance(a, Num) and isinstance(b, Num):
        if st.sys.entails_eq(a.e - b.e):
            return True
        if not feasible(st, eqs=[a.e - b.e]):
            return False
        # not provably equal: a violation when the decoded number is a known function of the original value (every variable is
        # an input or a named function of inputs: remainders, quotients, truncations, byte swaps); otherwise the analysis
        # lost track of it (an opaque call result, a join) and the type is reported as not decided
        vs = set(st.sys.reduce(a.e).t) | set(st.sys.reduce(b.e).t)
        known = all(re.match(r"^(t\d+_self|rm[0-9a-f]+$|rq[0-9a-f]+_ghostq$|cast\d+_|bswap\d+_|byte\d+_[0-9a-f]+$|rd\d+@in:self)", v) for v in vs)
        return False if known else None
    if isinstance(a, Seq) and isinstance(b, Seq):
        if not st.sys.entails_eq(a.len - b.len):
            return None
        sa, sb = content_segments(st, a), content_segments(st, b)
        if sa is None or sb is None:
            return None
        from rules.c12 import split_be
        sa, sb = split_be(sa), split_be(sb)
        if len(sa) != len(sb):
            return None
        res = [seg_equal(st, x, y) for x, y in zip(sa, sb)]
        if any(r is False for r in res):
            return False
        return True if all(r is True for r in res) else None
    if isinstance(a, Struct) and isinstance(b, Struct):
        if set(a.f) != set(b.f):
            return None
        res = [same_field(st, a.f[i], b.f[i]) for i in a.f]
        if any(r is False for r in res):
            return False
        return True if all(r is True for r in res) else None
    if isinstance(a, Enum) and isinstance(b, Enum) and a.adt == b.adt:
        if len(a.v) == 1 and len(b.v) == 1:
            (ia, va), = a.v.items()
            (ib, vb), = b.v.items()
            if ia != ib:
                return False
            return same_field(st, va, vb)
        return None
    return None


def roundtrip(prog, chk):
    """decode(encode(v)) = v, decided per attribute type on one symbolic value v: to_raw(v) is handed to the type's own decoder
    (both analysed in content-tracking mode); on every Ok return each field of the decoded value must be the original field
    (numbers: entailed equal; byte / text fields: the same identified bytes).  A type whose fields the analysis cannot
    follow (socket addresses, element-wise lists, the xor-ed CRC) is reported as not decided, never as a violation."""
    from absint.models_content import use_registry
    from rules.agent_e2 import Run
    from rules import c12
    decided, undecided = [], []
    for name, ty, code, rng, kind in SPEC:
        self_s = A + ty
        dk = decoder_key(prog, ty)
        tk = None
        for path, i in prog.trait_method_impls(A + "AttributeWrite", "to_raw"):
            if i["self_s"].split("<")[0] == self_s:
                tk = path
        if dk is None or tk is None or tk not in prog.bodies:
            chk.fail("roundtrip", "%s: to_raw / decoder not found" % name)
            continue
        tb = prog.bodies[tk]
        adt = prog.adts.get(self_s)
        fnames = [f["name"] for f in adt["variants"][0]["fields"]] if adt and adt.get("variants") else []

        def variants_of(v, path=()):
            """paths of enum-typed leaves with several unit-like variants (pinned one by one so that a copy is told apart)"""
            out = []
            if isinstance(v, Enum) and len(v.v) > 1 and len(v.v) <= 4:
                out.append((path, sorted(v.v)))
            elif isinstance(v, Struct):
                for i_, x in v.f.items():
                    out += variants_of(x, path + (i_,))
            return out

        def with_path(v, path, new):
            if not path:
                return new
            return v.with_field(path[0], with_path(v.get(path[0]), path[1:], new))

        def setup(run, st, tk=tk, tb=tb, ty=ty, fnames=fnames):
            it = run.it
            selfv = it.top_of(st, tb, tb.locals[1]["ty"], hint="self", region_prefix=run.fr.id + ":v")
            cell = selfv.cell if isinstance(selfv, Ref) else None
            tgt = st.cells.get(cell) if cell else selfv
            seqs = []
            c12.all_leaf_seqs(tgt, seqs)
            lim = c12.IN_LIMIT_ELEMS.get(ty.split("::")[-1], c12.IN_LIMIT)
            for q in seqs:
                if not q.len.is_const():
                    st.sys.add_ge(Lin.const(lim) - q.len)
            for fname, (lo, hi) in VALUE_LIMITS.get(ty, {}).items():
                if fname in fnames and isinstance(tgt, Struct) and isinstance(tgt.get(fnames.index(fname)), Num):
                    st.sys.add_range(tgt.get(fnames.index(fname)).e, lo, hi)
            # socket addresses: the wire format (RFC 8489 section 14.1) carries family, port and address only; an IPv6 flow label /
            # scope id cannot survive any encoding, so in-limit values have them zero (recorded as an assumption)
            def zero_flow(v, depth=0):
                if isinstance(v, Struct):
                    if v.tag == "sockv6":
                        for i_ in (2, 3):
                            if isinstance(v.get(i_), Num):
                                st.sys.add_eq(v.get(i_).e)
                    if depth < 8:
                        for x in v.f.values():
                            zero_flow(x, depth + 1)
                elif isinstance(v, Enum) and depth < 8:
                    for x in v.v.values():
                        zero_flow(x, depth + 1)
            zero_flow(tgt)
            starts = [(st, tgt)]
            for path, vs in variants_of(tgt):
                nxt = []
                for s0, t0 in starts:
                    for vi in vs:
                        s1 = s0.copy()
                        ev = t0
                        for i_ in path:
                            ev = ev.get(i_)
                        nxt.append((s1, with_path(t0, path, ev.only(vi))))
                starts = nxt
            outs = []
            for s0, t0 in starts:
                if cell:
                    s0.cells[cell] = t0
                s0.cells["ghost:orig"] = t0
                for s1, raw in it.call_local(s0, run.fr, 9300, tk, [selfv if cell else t0], {"span": tb.span}):
                    s1.cells["ghost:rawcell"] = raw
                    s1.cells[it.cell_of(run.fr, 1)] = Ref("ghost:rawcell")
                    outs.append(s1)
            it.obligations.clear()
            return outs
        r = Run(prog, dk, track_content=True, bool_vars=False, path_sensitive=False, setup=setup, max_parts=400, byte_defs=True, net_records=True)
        if r.error or not r.results:
            undecided.append("%s (analysis: %s)" % (name, (r.error or "no return state")[:120]))
            continue
        use_registry(r.it)
        verdicts = []
        n_ok = 0
        for st, ret in r.results:
            if not (isinstance(ret, Enum) and set(ret.v) == {0}):
                continue          # a refusal (out-of-limit value, or text the analysis cannot show to be UTF-8)
            n_ok += 1
            got = ret.v[0].get(0)
            orig = st.cells.get("ghost:orig")
            verdicts.append(same_field(st, got, orig))
        where = prog.bodies[dk].loc()
        if any(v is False for v in verdicts):
            chk.ob("roundtrip", "%s: decode(to_raw(v)) gives back v" % name, False, where, detail="a decoded field is provably not the original field",
                   how="E2, content tracking: to_raw then the decoder on one symbolic value")
            decided.append(name)
        elif n_ok and all(v is True for v in verdicts):
            chk.ob("roundtrip", "%s: decode(to_raw(v)) gives back v" % name, True, where,
                   how="E2, content tracking: to_raw then the decoder on one symbolic value (%d accepting return states)" % n_ok)
            decided.append(name)
        else:
            undecided.append("%s (%d accepting states, %d not decided)" % (name, n_ok, sum(1 for v in verdicts if v is None)))
    chk.assumptions.append("round trip: in-limit values are those the constructors accept (field lengths within the 16-bit attribute length; ERROR-CODE code in 300..=699); "
                           "IPv6 socket addresses have flowinfo = scope_id = 0 (the STUN wire format carries neither)")
    chk.analysed["roundtrip_decided"] = decided
    chk.analysed["roundtrip_undecided"] = undecided
    chk.floor("roundtrip-decided", len(decided), 6)
