"""C17 - a prefix of a message is reported as truncated with the length still needed (E2 + E1).

Decided from the abstract interpreter's return states of MessageHeader::from_bytes and Message::from_bytes (one
state per return site, with ghosts L = len(input) and m = the declared length MessageHeader::data_length returns):
 * fewer than 20 bytes  =>  Err(Truncated{expected: 20, actual: L}), from both decoders, and nothing else;
 * header accepted and m + 20 > L  =>  Err(Truncated{expected: m + 20, actual: L}) and nothing else - so every
   strict prefix (>= 20 bytes) of a message whose declared length matches its size reports exactly len(m);
 * every other Truncated outcome has actual < expected;
 * the full parser delegates to the header decoder on the same bytes, and the Message getters read the same
   offsets as the header decoder (type @0..2, declared length @2..4, transaction id @4..20)."""
import re
from absint.lin import Lin
from absint.values import *
from mir import Origins, strip, Origin
from rules import parse_e2 as PE
import e1

THOROUGH_CONFIGS = ("release", "arbitrary")
LEVEL = "proof"
HDR = "stun_types::message::MessageHeader"


def shape(o):
    """Origin -> nested tuple with reference noise and block numbers removed"""
    o = strip(o)
    if not isinstance(o, Origin):
        return o
    if o.k == "call":
        return ("call", re.sub(r"<'[a-z_]+>", "", o.a[0]), tuple(shape(x) for x in o.a[2]))
    if o.k in ("field", "variant"):
        return (o.k, shape(o.a[0]), o.a[1])
    if o.k == "agg":
        return ("agg", o.a[0], tuple(shape(x) for x in o.a[1]))
    if o.k == "param":
        return ("param", o.a[0])
    if o.k == "const":
        return ("const", o.a[0])
    if o.k == "cast":
        return ("cast", shape(o.a[1]))
    return (o.k,) + tuple(shape(x) if isinstance(x, Origin) else x for x in o.a)


def is_index(sh, kind, start, base_pred):
    """sh == index::<Range*>(base, Range*{start})"""
    return (isinstance(sh, tuple) and sh[0] == "call" and re.search(r"Index<std::ops::%s<usize>> for \[u8\]>::index$" % kind, sh[1])
            and base_pred(sh[2][0]) and sh[2][1][0] == "agg" and sh[2][1][2] and sh[2][1][2][0] == ("const", start))


def run(prog, chk, tier):
    chk.explanation = __doc__.split("\n\n", 1)[1]
    chk.trusted += ["external-callee model table (byteorder reads big-endian fixed offsets)", "rustc MIR construction"]
    a = PE.analyse(prog)
    # ---- header decoder
    n = 0
    for st, ret, L in a["header"]:
        n += 1
        c = PE.classify(prog, ret)
        short_possible = PE.feasible_with(st, [Lin.const(19) - L])
        if c[0] == "Err" and c[1] == "Truncated":
            e, av = c[2].get(0), c[2].get(1)
            ok = isinstance(e, Num) and isinstance(av, Num) and st.sys.entails_eq(e.e - 20) and st.sys.entails_eq(av.e - L) and st.sys.entails_ge(Lin.const(19) - L)
            chk.ob("header-short", "MessageHeader::from_bytes: Truncated => expected 20, actual len, len < 20", ok,
                   detail="payload %r under %r" % (c[2], st.sys) if not ok else None, how="E2 return state")
        else:
            chk.ob("header-short", "MessageHeader::from_bytes: outcome %s only when len >= 20" % (c[1] if c[0] == "Err" else c[0]), not short_possible,
                   detail="a state with len <= 19 returns %s" % (c,), how="E2 return state")
    chk.floor("header-return-states", n, 3)
    # ---- full parser
    n = n_decl = n_trunc = 0
    for st, ret, L, m in a["full"]:
        n += 1
        c = PE.classify(prog, ret)
        kind = c[1] if c[0] == "Err" else c[0]
        short_possible = PE.feasible_with(st, [Lin.const(19) - L])
        if short_possible:
            ok = False
            if c[0] == "Err" and c[1] == "Truncated" and c[2] is not None:
                e, av = c[2].get(0), c[2].get(1)
                ok = isinstance(e, Num) and isinstance(av, Num) and st.sys.entails_eq(e.e - 20) and st.sys.entails_eq(av.e - L)
            chk.ob("full-short", "Message::from_bytes with fewer than 20 bytes => Truncated{20, len}", ok,
                   detail="outcome %s possible with len <= 19" % (kind,), how="E2 return state")
        if m is None:
            # the header decoder refused: only its two refusals are possible
            okk = c[0] == "Err" and c[1] in ("NotStun", "Truncated")
            chk.ob("header-delegation", "before the declared length is known only the header decoder's refusals are returned (%s)" % kind, okk,
                   detail="outcome %s without a decoded header" % (c,), how="E2 return state (ghost m undefined)")
            continue
        declared_short = PE.feasible_with(st, [m + 20 - L - 1])
        if declared_short:
            n_decl += 1
            ok = False
            if c[0] == "Err" and c[1] == "Truncated" and c[2] is not None:
                e, av = c[2].get(0), c[2].get(1)
                s2 = st.sys.copy()
                s2.add_ge(m + 20 - L - 1)
                ok = isinstance(e, Num) and isinstance(av, Num) and s2.entails_eq(e.e - m - 20) and s2.entails_eq(av.e - L)
            chk.ob("declared-length", "declared length + 20 > len  =>  Truncated{expected: declared + 20, actual: len} (outcome %s)" % kind, ok,
                   detail="outcome %s possible although the buffer is shorter than declared" % (c,), how="E2 return state")
        elif c[0] == "Err" and c[1] == "Truncated" and c[2] is not None:
            n_trunc += 1
            e, av = c[2].get(0), c[2].get(1)
            ok = isinstance(e, Num) and isinstance(av, Num) and st.sys.entails_ge(e.e - av.e - 1)
            chk.ob("truncated-fields", "attribute-level Truncated: expected > actual", ok, detail="%r" % (c[2],), how="E2 return state")
    chk.floor("full-return-states", n, 12)
    chk.floor("declared-length-states", n_decl, 1)
    # ---- delegation and offset agreement (E1 origins)
    offsets(prog, chk)


def offsets(prog, chk, rule="offset-agreement"):
    """the header decoder's fields and the Message getters read the same bytes (decided over byte variables, whatever
    reading idiom the source uses), and the full parser delegates to the header decoder on its own argument"""
    from rules import walk_e2 as W
    W.header_semantics(prog, chk, rule="header-acceptance", exposure_rule=rule)
    W.getter_semantics(prog, chk, rule=rule)
    tf = prog.bodies.get("<stun_types::message::MessageType as std::convert::TryFrom<&[u8]>>::try_from")
    if tf is not None:
        sh = shape(Origins(prog, tf).local(0))
        ok = sh[0] == "call" and sh[1] == "stun_types::message::MessageType::from_bytes" and sh[2][0] == ("param", 1)
        chk.ob(rule, "MessageType::try_from delegates to MessageType::from_bytes", ok, detail=repr(sh)[:200], how="origin")
    # the full parser decodes the header from its own argument
    from dtable import instrumented_body
    fb, ups = instrumented_body(prog, PE.FROM_BYTES)
    fog = Origins(prog, fb)
    calls = [(bi, t) for bi, t in fb.calls() if fog.callee_name(t) == PE.HDR_FROM_BYTES]
    ok = len(calls) == 1
    if ok:
        arg = shape(fog.operand(calls[0][1]["args"][0]))
        ok = arg == ("param", 1) or (isinstance(arg, tuple) and arg[0] == "field" and str(arg[2]).startswith("upvar"))
    chk.ob(rule, "Message::from_bytes decodes the header with MessageHeader::from_bytes on its own argument", ok, how="origin")
