"""Parser ending-attribute automaton (DESIGN A.1) and iterator exposure transducer (A.2), extracted from
Message::from_bytes / MessageAttributesIter::next by the E3 walker under a four-class abstraction of the
attribute type (MI, M2, FP, other). The type only reaches these functions through equality / membership
tests against constants, so the abstraction is exact; that premise is itself checked (every use of the
attribute type is such a test, a store into the seen-table, or an error payload / tracing argument)."""
import itertools, re
from mir import Origins, Origin, O, strip, short_span, const_int
from dtable import (Walker, Unrecognised, pm, events_only, show, mentions, instrumented_body, resolve_upvars)

MI, M2, FP = 0x0008, 0x001C, 0x8028
E = (MI, M2, FP)
NAMES = {MI: "MI", M2: "M2", FP: "FP", None: "O"}
FROM_BYTES = "stun_types::message::Message::<'a>::from_bytes"
ITER_NEXT = "<stun_types::message::MessageAttributesIter<'a> as std::iter::Iterator>::next"

GET_TYPE = r"(RawAttribute<'a> as stun_types::attribute::Attribute>::get_type|AttributeHeader::get_type)$"


def is_attr_type(o):
    o = strip(o)
    return isinstance(o, Origin) and ((o.k == "call" and re.search(GET_TYPE, o.a[0])) or
                                      (o.k == "field" and o.a[1] == "atype"))


def spec_parser(S, c):
    """required outcome for seen-set S (frozenset of codes) and input class c (code or None)"""
    if FP in S:
        return ("refuse", "AttributeAfterFingerprint")
    if c is None:
        return ("accept", S) if not S else ("refuse", "AttributeAfterIntegrity")
    if c in S:
        return ("refuse", "AttributeAfterIntegrity")
    return ("accept", S | {c})


def parser_automaton(prog, chk, rule="ending-automaton"):
    b, ups = instrumented_body(prog, FROM_BYTES)
    og = Origins(prog, b)
    # loop head: the loop whose condition is `data.is_empty()`
    heads = sorted({h for (_, h) in b.back_edges()})
    if not chk.ob(rule, "Message::from_bytes has exactly one loop (the TLV walk)", len(heads) == 1, b.loc(), detail=repr(heads)):
        return None
    head = heads[0]
    info = {"seen": set(), "consts": set(), "arrays": []}

    def mk_oracle(S, c, fpbad=0):
        def oracle(o, t, body):
            s = strip(o)
            if s.k == "call" and re.search(r"slice::<impl \[u8\]>::is_empty$", s.a[0]):
                return 0
            if s.k == "discr" and strip(s.a[0]).k == "call" and re.search(r"as std::ops::Try>::branch$", strip(s.a[0]).a[0]):
                return 0
            if s.k == "call" and re.search(r"slice::<impl \[stun_types::attribute::AttributeType\]>::contains$", s.a[0]):
                arr, key = strip(s.a[2][0]), s.a[2][1]
                while arr.k == "cast":
                    arr = strip(arr.a[1])
                if arr.k == "agg" and arr.a[0] == "array":
                    vals = tuple(const_int(x) for x in arr.a[1])
                    info["arrays"].append(vals)
                    if is_attr_type(key):
                        return 1 if c in vals else 0
                    return None
                if arr.k in ("multi", "partial"):
                    info["seen"].add(arr.a[0])
                    if is_attr_type(key):
                        return 1 if c in S else 0
                    k = const_int(key)
                    if k is not None:
                        info["consts"].add(k)
                        return 1 if k in S else 0
                return None
            if s.k == "bin" and s.a[0] in ("Gt", "Ne") and strip(s.a[1]).k == "multi" and const_int(s.a[2]) == 0 \
                    and b.local_ty(strip(s.a[1]).a[0])["s"] == "usize" and "padded" not in (b.locals[strip(s.a[1]).a[0]]["name"] or ""):
                info.setdefault("len_local", set()).add(strip(s.a[1]).a[0])
                return 1 if S else 0
            if s.k == "bin" and s.a[0] == "Gt" and strip(s.a[1]).k == "call" and "padded_len" in strip(s.a[1]).a[0]:
                return 0
            if s.k == "call" and re.search(r"AttributeType as std::cmp::PartialEq>::(eq|ne)$", s.a[0]):
                a0, a1 = s.a[2]
                k = const_int(a1) if is_attr_type(a0) else (const_int(a0) if is_attr_type(a1) else None)
                if k is not None:
                    info["consts"].add(k)
                    r = 1 if c == k else 0
                    return r if s.a[0].endswith("eq") else 1 - r
                return None
            if s.k == "call" and re.search(r"PartialEq for &\[u8; 4\]>::(ne|eq)$|PartialEq.*\[u8; 4\].*::(ne|eq)$", s.a[0]):
                return fpbad if s.a[0].endswith("ne") else 1 - fpbad
            return None
        return oracle

    def write_event(pl, val, s):
        base = pl
        while isinstance(base, Origin) and base.k in ("index", "field", "deref", "ref", "proj"):
            base = base.a[0]
        if base.k in ("multi", "partial"):
            return ("write", pl, val)
        return None

    def call_event(name, args, t, og_):
        if re.search(r"Fingerprint::compute$", name):
            return ("call", name, args)
        return None

    multi = {i for i in range(len(b.locals)) if (len(b.defs().get(i, [])) > 1) and not b.is_arg(i)
             and b.local_ty(i)["s"] in ("usize",)}
    rows = 0
    subsets = [frozenset(x) for r in range(4) for x in itertools.combinations(E, r)]
    results = {}
    for S in subsets:
        for c in (MI, M2, FP, None):
            for fpbad in ((0, 1) if c == FP else (0,)):
                name = "seen={%s}|input=%s%s" % (",".join(NAMES[x] for x in sorted(S)), NAMES[c], "|crc-mismatch" if fpbad else "")
                w = Walker(prog, b, mk_oracle(S, c, fpbad), call_event, track_locals={0} | multi, write_event=write_event,
                           mut_arg_event=False)
                w.cut.add(head)
                try:
                    beh = w._walk(head, ())
                except Unrecognised as e:
                    chk.fail(rule, name + "|unrecognised-guard", short_span(b.term(e.bb)["span"]), str(e)[:500])
                    continue
                rows += 1
                evs = events_only(beh)
                rets = [e for e in evs if e[0] == "set" and e[1] == 0]
                term = evs[-1]
                exp = spec_parser(S, c)
                got = None
                detail = show(evs)[:600]
                if term[0] == "loop":
                    stores = [e for e in evs if e[0] == "write"]
                    newS = set(S)
                    ok_store = True
                    for e in stores:
                        if is_attr_type(e[2]):
                            newS.add(c)
                        else:
                            ok_store = False
                    got = ("accept", frozenset(newS))
                    if c == FP:
                        # the CRC comparison must be on the accepting path
                        if not any(e[0] == "call" and "Fingerprint::compute" in e[1] for e in evs):
                            got = ("accept-without-crc", frozenset(newS))
                    if not ok_store:
                        got = ("accept-with-unknown-store", frozenset(newS))
                    # bookkeeping: a store into the seen table is paired with exactly one increment of its length
                    incs = [e for e in evs if e[0] == "set" and e[1] in info.get("len_local", set())]
                    if len(stores) != len(incs):
                        got = ("accept-unpaired-bookkeeping", frozenset(newS))
                elif term == ("return",) and rets:
                    r = strip(rets[-1][2])
                    if r.k == "agg" and str(r.a[0]).endswith("Result::Err"):
                        err = strip(r.a[1][0])
                        vname = str(err.a[0]).rsplit("::", 1)[-1] if err.k == "agg" else repr(err)
                        payload_ok = True
                        if vname in ("AttributeAfterFingerprint", "AttributeAfterIntegrity"):
                            payload_ok = len(err.a[1]) == 1 and is_attr_type(err.a[1][0])
                        got = ("refuse", vname if payload_ok else vname + "(wrong payload)")
                    else:
                        got = ("return", repr(r)[:80])
                if c == FP and fpbad and exp[0] == "accept":
                    exp = ("refuse", "FingerprintMismatch")
                ok = got == exp
                results[(S, c, fpbad)] = got
                verdict = "accepted" if got and got[0].startswith("accept") else "refused"
                chk.ob(rule, "%s|%s" % (name, verdict if not ok else "ok"), ok, b.loc(),
                       detail="spec requires %s, code does %s ; %s" % (_fmt(exp), _fmt(got), detail),
                       how="code: %s" % _fmt(got))
    chk.floor(rule + "-rows", rows, 35)
    # premises of the abstraction
    arrays = set(info["arrays"])
    chk.ob(rule, "ending_attributes constants are exactly {MI, M2, FP}", arrays == {(MI, M2, FP)} or
           (len(arrays) == 1 and set(next(iter(arrays))) == set(E)), b.loc(), detail=repr(arrays))
    chk.ob(rule, "type constants compared in the loop are among {MI, M2, FP}", info["consts"] <= set(E) and FP in info["consts"],
           b.loc(), detail=repr(sorted(info["consts"])))
    chk.ob(rule, "one seen-table and one length counter", len(info["seen"]) == 1 and len(info.get("len_local", ())) == 1, b.loc(),
           detail="seen tables %r, counters %r" % (info["seen"], info.get("len_local")))
    return results


def _fmt(x):
    if x is None:
        return "?"
    if x[0].startswith("accept") and isinstance(x[1], frozenset):
        return "%s -> seen={%s}" % (x[0], ",".join(NAMES[y] for y in sorted(x[1])))
    return "%s %s" % x


# --------------------------------------------------------------------------------------------
# iterator exposure transducer (A.2)

ITER_ADT = "stun_types::message::MessageAttributesIter"


def accepted_tails():
    """sequences over E accepted by the *spec* automaton from the empty seen-set"""
    out = [()]
    frontier = [((), frozenset())]
    while frontier:
        seq, S = frontier.pop()
        for c in E:
            r = spec_parser(S, c)
            if r[0] == "accept":
                out.append(seq + (c,))
                frontier.append((seq + (c,), r[1]))
    return sorted(set(out), key=lambda s: (len(s), s))


def spec_expose(prefix_len, tail):
    """indices exposed for `prefix_len` ordinary attributes followed by `tail`"""
    exp = list(range(prefix_len))
    if tail:
        exp.append(prefix_len)
        if len(tail) >= 2 and tail[0] == MI and tail[1] == M2:
            exp.append(prefix_len + 1)
        if FP in tail:
            i = prefix_len + tail.index(FP)
            if i not in exp:
                exp.append(i)
    return exp


def iterator_transducer(prog, chk, rule="exposure"):
    b = prog.bodies.get(ITER_NEXT)
    if b is None:
        chk.fail(rule, "body-missing|MessageAttributesIter::next")
        return
    adt = prog.adts.get(ITER_ADT)
    fields = adt["variants"][0]["fields"]
    tys = adt["_types"]
    state_fields = []
    for f in fields:
        ts = tys[f["ty"]]["s"]
        if ts == "bool":
            state_fields.append((f["name"], "bool"))
        elif ts.endswith("attribute::AttributeType"):
            state_fields.append((f["name"], "type"))
        elif ts.startswith("&") or ts == "usize":
            continue
        else:
            chk.fail(rule, "state-field|%s" % f["name"], None, "iterator state field `%s: %s` is outside the finite abstraction" % (f["name"], ts))
            return
    # initial state from Message::iter_attributes
    from e1 import construct_sites
    cs = construct_sites(prog, ITER_ADT)
    if not chk.ob(rule, "MessageAttributesIter constructed only in Message::iter_attributes",
                  [c["body"] for c in cs] == ["stun_types::message::Message::<'a>::iter_attributes"], detail=repr([c["body"] for c in cs])):
        return
    ib = prog.bodies[cs[0]["body"]]
    iog = Origins(prog, ib)
    rv = cs[0]["stmt"]["rv"]
    init = {}
    start_ok = True
    for name, op in zip(rv["fields"], rv["ops"]):
        o = iog.operand(op)
        if name == "data_i":
            start_ok = start_ok and const_int(o) == 20
        elif name == "data":
            start_ok = start_ok and pm(o, ("field", ("param", "self"), "data"), ib)
        else:
            init[name] = const_int(o)
    chk.ob(rule, "iteration starts at offset 20 of Message.data", start_ok, ib.loc())
    self_ = ("param", 1)

    def val_of(o, state, c):
        """abstract value of a type-valued origin: code, None (= other), or 'unk'"""
        if is_attr_type(o):
            return c
        k = const_int(o)
        if k is not None:
            return k
        s = strip(o)
        if s.k == "field" and strip(s.a[0]).k == "param" and s.a[1] in state:
            return state[s.a[1]]
        return "unk"

    def mk_oracle(state, c):
        def oracle(o, t, body):
            s = strip(o)
            if s.k == "bin" and s.a[0] in ("Ge", "Lt") and pm(s.a[1], ("field", self_, "data_i"), b):
                return 0 if s.a[0] == "Ge" else 1
            if s.k == "discr" and pm(s.a[0], ("call", r"RawAttribute::<'a>::from_bytes$", None), b):
                return 0
            if s.k == "field" and strip(s.a[0]).k == "param" and s.a[1] in state and dict(state_fields).get(s.a[1]) == "bool":
                return state[s.a[1]]
            if s.k == "call" and re.search(r"AttributeType as std::cmp::PartialEq>::(eq|ne)$", s.a[0]):
                x, y = val_of(s.a[2][0], state, c), val_of(s.a[2][1], state, c)
                if x == "unk" or y == "unk" or (x is None and y is None):
                    return None
                r = 1 if x == y else 0
                return r if s.a[0].endswith("eq") else 1 - r
            return None
        return oracle

    def write_event(pl, val, s):
        p = strip(pl)
        if p.k == "field" and strip(p.a[0]).k == "param":
            return ("write", pl, val)
        return None

    domains = []
    for name, kind in state_fields:
        domains.append([0, 1] if kind == "bool" else [MI, M2, FP, None])
    T = {}
    rows = 0
    for vals in itertools.product(*domains):
        state = dict(zip([n for n, _ in state_fields], vals))
        for c in (MI, M2, FP, None):
            name = "state={%s}|input=%s" % (",".join("%s=%s" % (k, NAMES.get(v, v)) for k, v in state.items()), NAMES[c])
            w = Walker(prog, b, mk_oracle(state, c), lambda *a: None, track_locals={0}, write_event=write_event, mut_arg_event=False)
            try:
                beh = w.run()
            except Unrecognised as e:
                chk.fail(rule, name + "|unrecognised-guard", short_span(b.term(e.bb)["span"]), str(e)[:500])
                continue
            rows += 1
            evs = events_only(beh)
            ns = dict(state)
            advanced = False
            for e in evs:
                if e[0] == "write":
                    f = strip(e[1]).a[1]
                    if f == "data_i":
                        advanced = advanced or mentions(e[2], lambda x: x.k == "call" and "padded_len" in x.a[0])
                    elif f in ns:
                        v = val_of(e[2], state, c)
                        if dict(state_fields)[f] == "bool":
                            v = const_int(e[2])
                        ns[f] = v
            term = evs[-1]
            rets = [e for e in evs if e[0] == "set" and e[1] == 0]
            if term[0] == "loop":
                out = "skip"
            elif rets and pm(rets[-1][2], ("agg", r"Option::Some$", [("any",)]), b):
                out = "yield"
            elif rets and pm(rets[-1][2], ("agg", r"Option::None$", []), b):
                out = "end"
            else:
                out = "?"
            if out in ("yield", "skip") and not advanced:
                out = out + "-without-advance"
            T[(tuple(sorted(state.items(), key=lambda kv: kv[0])), c)] = (out, ns)
    chk.floor(rule + "-transducer-rows", rows, 8)
    # run the transducer over every accepted tail, with a consumer that stops at the first None
    cases = 0
    for tail in accepted_tails():
        for plen in (0, 1, 2):
            seq = (None,) * plen + tail
            state = dict(init)
            exposed = []
            ok_run = True
            for i, c in enumerate(seq):
                key = (tuple(sorted(state.items(), key=lambda kv: kv[0])), c)
                if key not in T:
                    ok_run = False
                    break
                out, ns = T[key]
                state = ns
                if out == "yield":
                    exposed.append(i)
                elif out == "skip":
                    continue
                else:
                    break
            want = spec_expose(plen, tail)
            cases += 1
            nm = "%s%s" % ("O*%d." % plen if plen else "", ".".join(NAMES[x] for x in tail) or "(none)")
            chk.ob(rule, "tail=%s|exposed=[%s]" % (nm, ",".join(NAMES[seq[i]] for i in exposed)) if exposed != want else "tail=%s|ok" % nm,
                   ok_run and exposed == want, b.loc(),
                   detail="message [%s]: spec exposes positions %r, iterator exposes %r" % (",".join(NAMES[x] for x in seq), want, exposed),
                   how="exposed %r" % exposed)
    chk.floor(rule + "-cases", cases, 30)
    return T
