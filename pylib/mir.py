"""Program model over the stunlint fact files: bodies, CFG utilities, resolved call graph (with CHA),
single-definition value origins.  Everything keys on def paths, field names, callee identities and
constant values - never on line numbers or source text (spans are for reporting only)."""
import re
from collections import defaultdict, deque

WORKSPACE = ("stun_types", "stun_proto")


class Body:
    def __init__(self, prog, crate_facts, j):
        self.prog = prog
        self.j = j
        self.key = j["key"]
        self.defp = j["def"]
        self.crate = j["crate"]
        self.kind = j["kind"]
        self.root = j["root"]
        self.poly = j["poly"]
        self.mono = j["mono"]
        self.span = j["span"]
        self.arg_count = j["arg_count"]
        self.locals = j["locals"]
        self.blocks = j["blocks"]
        self.types = crate_facts["types"]
        self._succ = None
        self._pred = None
        self._defs = None
        self._dom = None

    # ---- types
    def ty(self, idx):
        return self.types[idx]

    def local_ty(self, l):
        return self.types[self.locals[l]["ty"]]

    def place_ty(self, pl):
        return self.types[pl["ty"]]

    def loc(self, span=None):
        return short_span(span or self.span)

    # ---- CFG (normal edges only; unwind edges are ignored: panics are separate obligations)
    def term(self, bb):
        return self.blocks[bb]["term"]

    def succs(self, bb):
        if self._succ is None:
            self._succ = [self._term_succs(b["term"]) for b in self.blocks]
        return self._succ[bb]

    def _term_succs(self, t):
        """successors with switches on (single-definition) constants pruned"""
        if t["k"] == "switch" and t["op"]["k"] in ("copy", "move") and not t["op"]["pl"]["p"]:
            l = t["op"]["pl"]["l"]
            ds = self.defs().get(l, [])
            if len(ds) == 1 and ds[0][0] == "stmt" and not self.defs().get(("partial", l)):
                rv = ds[0][3]["rv"]
                if rv["k"] == "use" and rv["op"]["k"] == "const":
                    return term_succs(dict(t, op=rv["op"]))
        return term_succs(t)

    def preds(self, bb):
        if self._pred is None:
            p = [[] for _ in self.blocks]
            for i in range(len(self.blocks)):
                for s in self.succs(i):
                    p[s].append(i)
            self._pred = p
        return self._pred[bb]

    def reachable(self, start=0):
        seen = {start}
        q = [start]
        while q:
            b = q.pop()
            for s in self.succs(b):
                if s not in seen:
                    seen.add(s)
                    q.append(s)
        return seen

    def rpo(self):
        seen = set()
        order = []

        def dfs(b):
            stack = [(b, iter(self.succs(b)))]
            seen.add(b)
            while stack:
                n, it = stack[-1]
                adv = False
                for s in it:
                    if s not in seen:
                        seen.add(s)
                        stack.append((s, iter(self.succs(s))))
                        adv = True
                        break
                if not adv:
                    order.append(n)
                    stack.pop()
        dfs(0)
        return order[::-1]

    def dominators(self):
        """idom map (Cooper-Harvey-Kennedy)."""
        if self._dom is not None:
            return self._dom
        rpo = self.rpo()
        idx = {b: i for i, b in enumerate(rpo)}
        idom = {0: 0}
        changed = True
        while changed:
            changed = False
            for b in rpo[1:]:
                ps = [p for p in self.preds(b) if p in idom]
                if not ps:
                    continue
                new = ps[0]
                for p in ps[1:]:
                    a, c = p, new
                    while a != c:
                        while idx[a] > idx[c]:
                            a = idom[a]
                        while idx[c] > idx[a]:
                            c = idom[c]
                    new = a
                if idom.get(b) != new:
                    idom[b] = new
                    changed = True
        self._dom = idom
        return idom

    def dominates(self, a, b):
        idom = self.dominators()
        if b not in idom:
            return False
        while True:
            if a == b:
                return True
            if b == 0:
                return False
            b = idom[b]

    def back_edges(self):
        out = []
        for b in self.reachable():
            for s in self.succs(b):
                if self.dominates(s, b):
                    out.append((b, s))
        return out

    def natural_loop(self, head):
        """blocks of the natural loop(s) with header `head`."""
        body = {head}
        work = [b for (b, h) in self.back_edges() if h == head]
        while work:
            n = work.pop()
            if n not in body:
                body.add(n)
                work.extend(self.preds(n))
        return body

    # ---- statements / definitions
    def iter_stmts(self):
        for bi, b in enumerate(self.blocks):
            for si, s in enumerate(b["stmts"]):
                yield bi, si, s

    def calls(self, reachable_only=True):
        rs = self.reachable() if reachable_only else range(len(self.blocks))
        for bi in sorted(rs):
            t = self.blocks[bi]["term"]
            if t["k"] in ("call", "tailcall"):
                yield bi, t

    def defs(self):
        """local -> list of ('stmt', bb, si, stmt) | ('call', bb, term) for whole-local assignments;
        also records partial (projected) writes under key ('partial', local)."""
        if self._defs is not None:
            return self._defs
        d = defaultdict(list)
        for bi, si, s in self.iter_stmts():
            if s["k"] == "assign":
                pl = s["pl"]
                if not pl["p"]:
                    d[pl["l"]].append(("stmt", bi, si, s))
                elif pl["p"][0]["k"] == "deref":
                    d[("through", pl["l"])].append(("stmt", bi, si, s))
                else:
                    d[("partial", pl["l"])].append(("stmt", bi, si, s))
            elif s["k"] == "set_discr":
                kind = "through" if s["pl"]["p"] and s["pl"]["p"][0]["k"] == "deref" else "partial"
                d[(kind, s["pl"]["l"])].append(("stmt", bi, si, s))
        for bi, b in enumerate(self.blocks):
            t = b["term"]
            if t["k"] == "call":
                pl = t["dest"]
                if not pl["p"]:
                    d[pl["l"]].append(("call", bi, None, t))
                elif pl["p"][0]["k"] == "deref":
                    d[("through", pl["l"])].append(("call", bi, None, t))
                else:
                    d[("partial", pl["l"])].append(("call", bi, None, t))
        self._defs = d
        return d

    def is_arg(self, l):
        return 1 <= l <= self.arg_count


def term_succs(t):
    k = t["k"]
    if k == "goto":
        return [t["t"]]
    if k == "switch":
        op = t["op"]
        if op["k"] == "const" and ("int" in op.get("v", {}) or "bool" in op.get("v", {})):
            v = op["v"].get("int", None)
            if v is None:
                v = 1 if op["v"]["bool"] else 0
            for val, b in t["targets"]:
                if val == v:
                    return [b]
            return [t["otherwise"]]
        out = []
        for _, b in t["targets"]:
            if b not in out:
                out.append(b)
        if t["otherwise"] not in out:
            out.append(t["otherwise"])
        return out
    if k in ("drop", "assert"):
        return [t["t"]]
    if k == "call":
        return [t["t"]] if t["t"] is not None else []
    return []


_SPAN = re.compile(r"^(.*?):(\d+):(\d+): (\d+):(\d+)")


def short_span(s):
    m = _SPAN.match(s or "")
    if not m:
        return s
    return "%s:%s" % (m.group(1), m.group(2))


def span_file(s):
    m = _SPAN.match(s or "")
    return m.group(1) if m else None


class Program:
    def __init__(self, facts):
        self.facts = facts
        self.bodies = {}
        self.adts = {}
        self.fns = {}
        self.impls = []
        self.statics = {}
        self.consts = {}
        self.unsafe_blocks = []
        self.meta = {}
        for crate, f in facts.items():
            self.meta[crate] = {k: f[k] for k in ("rustc", "overflow_checks", "debug_assertions")}
            for k, b in f["bodies"].items():
                body = Body(self, f, b)
                if k in self.bodies and not self.bodies[k].mono:
                    continue
                self.bodies[k] = body
            for k, a in f["adts"].items():
                if k not in self.adts or a.get("local"):
                    self.adts[k] = dict(a, _types=f["types"])
            for k, v in f["fns"].items():
                self.fns[k] = dict(v, crate=crate, _types=f["types"])
            for i in f["impls"]:
                self.impls.append(dict(i, crate=crate, _types=f["types"]))
            for k, v in f["statics"].items():
                self.statics[k] = dict(v, crate=crate)
            for k, v in f["consts"].items():
                self.consts[k] = v
            for u in f["unsafe_blocks"]:
                self.unsafe_blocks.append(dict(u, crate=crate))
        self._trait_methods = None
        self._cg = None

    # ---- impl tables
    def trait_method_impls(self, trait, method):
        """def paths of all workspace impls of trait::method"""
        if self._trait_methods is None:
            tm = defaultdict(list)
            for i in self.impls:
                for name, path in i["items"].items():
                    tm[(i["trait"], name)].append((path, i))
            self._trait_methods = tm
        return self._trait_methods.get((trait, method), [])

    def impls_for_self(self, self_s):
        return [i for i in self.impls if i["self_s"] == self_s]

    def impl_of(self, trait, self_s):
        for i in self.impls:
            if i["trait"] == trait and strip_lifetimes(i["self_s"]) == strip_lifetimes(self_s):
                return i
        return None

    # ---- call resolution
    def resolve_call(self, body, term):
        """Returns list of targets: ('local', key) | ('ext', full_path, def_path) | ('unknown', descr)."""
        f = term["func"]
        if "indirect" in f:
            return [("unknown", "indirect call")]
        res = f.get("res")
        out = []
        if res is not None:
            kind = res["kind"]
            if kind in ("item", "closure_once_shim", "fnptr_shim"):
                key = res.get("key")
                if not key and res.get("crate") in WORKSPACE and res.get("def") in self.bodies:
                    key = res["def"]      # instance of a generic item inside a polymorphic body: use the generic body
                if key and key in self.bodies:
                    return [("local", key)]
                if key and key not in self.bodies and res["crate"] in WORKSPACE and kind == "item":
                    return [("unknown", "workspace body missing: " + key)]
                return [("ext", res["full"], res["def"])]
            if kind == "virtual":
                tr, m = f.get("trait"), f.get("method")
                cands = self.trait_method_impls(tr, m)
                # `<dyn P as T>::m`: only types that implement the principal trait P can be behind the pointer
                mm = re.match(r"^<dyn ([^<> ]+)", f.get("full", ""))
                if mm and cands:
                    princ = mm.group(1)
                    if princ != tr:
                        have = {strip_lifetimes(i["self_s"]) for i in self.impls if i["trait"] == princ}
                        if have:
                            cands = [(p, i) for p, i in cands if strip_lifetimes(i["self_s"]) in have]
                if cands:
                    return [("local", p) for p, _ in cands if p in self.bodies] or [("ext", res["full"], res["def"])]
                return [("ext", res["full"], res["def"])]
            if kind in ("drop_glue",):
                return [("ext", "drop_glue<%s>" % (body.ty(res["of"])["s"] if res.get("of") is not None else "?"), res["def"])]
            if kind == "intrinsic":
                return [("ext", res["full"], res["def"])]
            return [("ext", res["full"], res["def"])]
        # unresolved (polymorphic body): class-hierarchy analysis over workspace impls
        tr, m = f.get("trait"), f.get("method")
        if tr:
            cands = self.trait_method_impls(tr, m)
            if cands:
                return [("local", p) for p, _ in cands if p in self.bodies]
        return [("ext", f["full"], f["def"])]

    def callback_targets(self, body, term):
        """For a call to an external generic function: workspace closures / fn items / trait impls of
        workspace ADTs named in its generic arguments (possible callbacks)."""
        f = term["func"]
        out = []
        if "indirect" in f:
            return out
        seen = set()

        def walk(tix):
            if tix in seen:
                return
            seen.add(tix)
            t = body.ty(tix)
            k = t.get("k")
            if k == "closure":
                key = t.get("key") or t.get("path")
                if key in self.bodies:
                    out.append(key)
                elif t.get("path") in self.bodies:
                    out.append(t["path"])
            elif k == "fndef":
                key = t.get("key")
                if key in self.bodies:
                    out.append(key)
            elif k == "adt":
                for i in self.impls_for_self_path(t["path"]):
                    tr_crate = i["trait"].split("::")[0]
                    if tr_crate not in WORKSPACE:
                        for p in i["items"].values():
                            if p in self.bodies:
                                out.append(p)
                for a in t.get("args", []):
                    walk(a)
            elif k in ("ref", "ptr"):
                walk(t["to"])
            elif k in ("slice", "array"):
                walk(t["of"])
            elif k == "tuple":
                for e in t["elems"]:
                    walk(e)
        for tix in f.get("targs", []):
            walk(tix)
        return out

    def impls_for_self_path(self, path):
        if not hasattr(self, "_impls_by_path"):
            m = defaultdict(list)
            for i in self.impls:
                t = i["_types"][i["self"]]
                if t.get("k") == "adt":
                    m[t["path"]].append(i)
            self._impls_by_path = m
        return self._impls_by_path.get(path, [])

    def call_graph(self):
        """key -> list of (bb, term, [targets], [callback keys])"""
        if self._cg is None:
            cg = {}
            for k, b in self.bodies.items():
                edges = []
                for bi, t in b.calls():
                    tg = self.resolve_call(b, t)
                    cb = []
                    if any(x[0] != "local" for x in tg):
                        cb = self.callback_targets(b, t)
                    edges.append((bi, t, tg, cb))
                # closures constructed in the body are potential callees too (passed somewhere)
                cg[k] = edges
            self._cg = cg
        return self._cg

    def closures_built(self, body):
        out = []
        for bi, si, s in body.iter_stmts():
            if s["k"] == "assign" and s["rv"]["k"] == "aggregate" and s["rv"].get("agg") == "closure":
                key = s["rv"].get("key") or s["rv"]["closure"]
                if key in self.bodies:
                    out.append(key)
                elif s["rv"]["closure"] in self.bodies:
                    out.append(s["rv"]["closure"])
        return out

    def reach(self, roots, follow_callbacks=True, follow_closures=True):
        """bodies reachable from roots; returns {key: (parent_key, bb) witness}."""
        cg = self.call_graph()
        seen = {}
        q = deque()
        for r in roots:
            if r in self.bodies and r not in seen:
                seen[r] = None
                q.append(r)
        while q:
            k = q.popleft()
            b = self.bodies[k]
            nxt = []
            for bi, t, tg, cb in cg[k]:
                for x in tg:
                    if x[0] == "local":
                        nxt.append((x[1], bi))
                if follow_callbacks:
                    for c in cb:
                        nxt.append((c, bi))
            if follow_closures:
                for c in self.closures_built(b):
                    nxt.append((c, None))
            for n, bi in nxt:
                if n not in seen and n in self.bodies:
                    seen[n] = (k, bi)
                    q.append(n)
        return seen

    def path_to(self, seen, key):
        p = [key]
        while seen.get(p[-1]) is not None:
            p.append(seen[p[-1]][0])
        return p[::-1]

    def ext_callees(self, keys):
        """external callees called from the given bodies: {full: [(caller key, bb)]}"""
        cg = self.call_graph()
        out = defaultdict(list)
        for k in keys:
            for bi, t, tg, cb in cg[k]:
                for x in tg:
                    if x[0] == "ext":
                        out[x[1]].append((k, bi))
                    elif x[0] == "unknown":
                        out["<unknown: %s>" % x[1]].append((k, bi))
                # external function items handed to a callee as generic arguments (callbacks)
                b = self.bodies[k]
                for name in self.fn_item_args(b, t):
                    out[name].append((k, bi))
        return out

    def fn_item_args(self, body, term):
        f = term["func"]
        if "indirect" in f:
            return []
        out, seen = [], set()

        def walk(tix):
            if tix in seen:
                return
            seen.add(tix)
            t = body.ty(tix)
            k = t.get("k")
            if k == "fndef":
                if (t.get("key") or t["path"]) not in self.bodies:
                    out.append(t["full"])
            elif k == "adt":
                for a in t.get("args", []):
                    walk(a)
            elif k in ("ref", "ptr"):
                walk(t["to"])
            elif k in ("slice", "array"):
                walk(t["of"])
            elif k == "tuple":
                for e in t["elems"]:
                    walk(e)
        for tix in f.get("targs", []):
            walk(tix)
        # function items passed as plain arguments
        for a in term.get("args", []):
            if a["k"] == "const" and "fn" in a and a.get("fn_def") not in self.bodies:
                out.append(a["fn"])
        return out


def strip_lifetimes(s):
    s = re.sub(r"<'[a-z_]+>", "", s)
    s = re.sub(r"'[a-z_]+,\s*", "", s)
    s = re.sub(r"&'[a-z_]+ ", "&", s)
    return s


# --------------------------------------------------------------------------------------------
# value origins: trace a local / operand back through single definitions


class Origin:
    """A small term language describing where a value comes from."""
    __slots__ = ("k", "a")

    def __init__(self, k, *a):
        self.k = k
        self.a = a

    def __repr__(self):
        if not self.a:
            return self.k
        return "%s(%s)" % (self.k, ", ".join(repr(x) for x in self.a))

    def __eq__(self, o):
        return isinstance(o, Origin) and self.k == o.k and self.a == o.a

    def __hash__(self):
        return hash((self.k, self.a))

    def walk(self):
        yield self
        for x in self.a:
            if isinstance(x, Origin):
                yield from x.walk()
            elif isinstance(x, tuple):
                for y in x:
                    if isinstance(y, Origin):
                        yield from y.walk()


def O(k, *a):
    return Origin(k, *a)


class Origins:
    """Origin resolver for one body. Terms:
       param(i) | const(v) | fnconst(path) | static(path) | call(callee, bb, args...) | field(base, name)
       | deref(base) | ref(base) | discr(base) | variant(base, name) | agg(adt::variant | tuple | array | closure, ops...)
       | bin(op, a, b) | un(op, a) | cast(kind, a) | index(base, idx) | multi(local, n_defs) | unknown(reason)
    """

    def __init__(self, prog, body, max_depth=40):
        self.prog = prog
        self.body = body
        self.defs = body.defs()
        self.max_depth = max_depth
        self._memo = {}

    def callee_name(self, term):
        f = term["func"]
        if "indirect" in f:
            return "<indirect>"
        res = f.get("res")
        if res is not None:
            if res.get("kind") == "virtual":
                return "virtual " + res["def"]
            if not res.get("key") and res.get("crate") in WORKSPACE and res.get("def") in self.prog.bodies:
                return res["def"]
            return res.get("key") or res["full"]
        return f["full"]

    def local(self, l, depth=0):
        if l in self._memo:
            return self._memo[l]
        if depth > self.max_depth:
            return O("unknown", "depth")
        self._memo[l] = O("unknown", "cycle")
        r = self._local(l, depth)
        self._memo[l] = r
        return r

    def _local(self, l, depth):
        b = self.body
        ds = self.defs.get(l, [])
        partial = self.defs.get(("partial", l), [])
        if b.is_arg(l) and not ds:
            return O("param", l)
        if len(ds) == 1 and not partial:
            kind, bi, si, s = ds[0]
            if kind == "call":
                return O("call", self.callee_name(s), bi, tuple(self.operand(a, depth + 1) for a in s["args"]))
            return self.rvalue(s["rv"], depth + 1)
        if len(ds) > 1 and not partial and all(d[0] == "stmt" and d[3]["rv"]["k"] == "copy_for_deref" for d in ds):
            # a deref temporary re-loaded from the same place several times (Derefer pass)
            os_ = [self.rvalue(d[3]["rv"], depth + 1) for d in ds]
            if all(o == os_[0] for o in os_):
                return os_[0]
        if len(ds) == 0 and partial:
            return O("partial", l, len(partial))
        if len(ds) == 0:
            return O("unknown", "no def of _%d" % l)
        return O("multi", l, len(ds) + len(partial))

    def place(self, pl, depth=0):
        base = self.local(pl["l"], depth)
        for p in pl["p"]:
            k = p["k"]
            if k == "deref":
                if base.k == "ref":
                    base = base.a[0]
                else:
                    base = O("deref", base)
            elif k == "field":
                if base.k == "agg" and not str(base.a[0]).startswith("closure") and p["i"] < len(base.a[1]):
                    base = base.a[1][p["i"]]
                else:
                    base = O("field", base, p["name"])
            elif k == "downcast":
                base = O("variant", base, p["name"])
            elif k == "index":
                base = O("index", base, self.local(p["l"], depth + 1))
            elif k == "cidx":
                base = O("index", base, O("const", p["off"]))
            else:
                base = O("proj", base, k)
        return base

    def operand(self, op, depth=0):
        k = op["k"]
        if k in ("copy", "move"):
            return self.place(op["pl"], depth)
        if k == "const":
            if "fn" in op:
                return O("fnconst", op["fn"])
            v = op.get("v", {})
            if "int" in v:
                return O("const", v["int"])
            if "bool" in v:
                return O("const", v["bool"])
            if "str" in v:
                return O("const", v["str"])
            if "static" in v:
                return O("static", v["static"])
            if "bytes" in v:
                return O("const", "0x" + v["bytes"])
            if "zst" in v:
                return O("const", "zst:" + self.body.ty(op["ty"])["s"])
            if "unevaluated" in v:
                return O("const", "item:" + op.get("item", "?"))
            return O("const", repr(v))
        return O("unknown", "operand")

    def rvalue(self, rv, depth=0):
        k = rv["k"]
        if k == "use":
            return self.operand(rv["op"], depth)
        if k == "copy_for_deref":
            return self.place(rv["pl"], depth)
        if k == "ref":
            return O("ref", self.place(rv["pl"], depth))
        if k == "rawptr":
            return O("ref", self.place(rv["pl"], depth))
        if k == "discr":
            return O("discr", self.place(rv["pl"], depth))
        if k == "cast":
            tt = self.body.ty(rv["ty"])
            bits = tt.get("bits") if tt.get("k") == "int" else None
            return O("cast", rv["kind"], self.operand(rv["op"], depth), bits)
        if k == "binop":
            return O("bin", rv["op"], self.operand(rv["a"], depth), self.operand(rv["b"], depth))
        if k == "unop":
            return O("un", rv["op"], self.operand(rv["a"], depth))
        if k == "aggregate":
            agg = rv["agg"]
            if agg == "adt":
                name = "%s::%s" % (rv["adt"], rv["vname"])
            elif agg == "closure":
                name = "closure:" + (rv.get("key") or rv["closure"])
            else:
                name = agg
            return O("agg", name, tuple(self.operand(o, depth) for o in rv["ops"]))
        if k == "repeat":
            return O("agg", "repeat", (self.operand(rv["op"], depth),))
        return O("unknown", k)


def const_int(o):
    """integer value of a constant origin: plain scalar, or a promoted constant in memory (little endian)"""
    o = strip(o)
    if isinstance(o, Origin) and o.k == "const":
        v = o.a[0]
        if isinstance(v, bool):
            return int(v)
        if isinstance(v, int):
            return v
        if isinstance(v, str):
            m = re.match(r"^\{'mem': '([0-9a-f]*)', 'len': (\d+)\}$", v)
            if m and m.group(1) and int(m.group(2)) <= 16:
                return int.from_bytes(bytes.fromhex(m.group(1)), "little")
            m = re.match(r"^0x([0-9a-f]+)$", v)
    return None


def strip(o):
    """peel refs/derefs/casts/copies that do not change identity"""
    while isinstance(o, Origin) and o.k in ("ref", "deref"):
        o = o.a[0]
    return o


def build_program(config="dev", repo=None, use_cache=True):
    from facts import extract
    facts, meta = extract(repo=repo, config=config, use_cache=use_cache)
    p = Program(facts)
    p.extract_meta = meta
    return p
