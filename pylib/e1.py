"""E1 - reachability, ownership and effect rules over the resolved program."""
import re
from collections import defaultdict
from mir import Origins, Origin, O, strip, short_span, WORKSPACE


# --------------------------------------------------------------------------------------------
# uses of a local inside a body

def operand_places(op):
    if op["k"] in ("copy", "move"):
        yield op["pl"], op["k"]


def rvalue_ops_fixed(rv):
    k = rv["k"]
    if k in ("use", "repeat", "cast"):
        return [rv["op"]]
    if k == "unop":
        return [rv["a"]]
    if k == "binop":
        return [rv["a"], rv["b"]]
    if k == "aggregate":
        return list(rv["ops"])
    return []


def rvalue_places(rv):
    """places read by an rvalue: (place, how) how in copy|move|ref|refmut|discr|len"""
    k = rv["k"]
    for op in rvalue_ops_fixed(rv):
        for pl, how in operand_places(op):
            yield pl, how
    if k == "ref":
        yield rv["pl"], ("refmut" if rv["mut"] else "ref")
    elif k == "rawptr":
        yield rv["pl"], ("refmut" if "Mut" in rv.get("kind", "") else "ref")
    elif k == "discr":
        yield rv["pl"], "discr"
    elif k == "copy_for_deref":
        yield rv["pl"], "copy"


def place_locals(pl):
    yield pl["l"]
    for p in pl["p"]:
        if p["k"] == "index":
            yield p["l"]


class Use:
    __slots__ = ("kind", "bb", "si", "node", "how", "place", "argi")

    def __init__(self, kind, bb, si, node, how, place, argi=None):
        self.kind = kind      # 'stmt' | 'call_arg' | 'call_dest' | 'switch' | 'drop' | 'assert' | 'assign_to'
        self.bb = bb
        self.si = si
        self.node = node
        self.how = how
        self.place = place
        self.argi = argi

    def __repr__(self):
        return "Use(%s bb%d %s)" % (self.kind, self.bb, self.how)


def all_place_uses(body):
    """Yield every occurrence of a place in the body."""
    for bi, b in enumerate(body.blocks):
        for si, s in enumerate(b["stmts"]):
            if s["k"] == "assign":
                yield Use("assign_to", bi, si, s, "write", s["pl"])
                for pl, how in rvalue_places(s["rv"]):
                    yield Use("stmt", bi, si, s, how, pl)
            elif s["k"] == "set_discr":
                yield Use("assign_to", bi, si, s, "write", s["pl"])
        t = b["term"]
        k = t["k"]
        if k in ("call", "tailcall"):
            for i, a in enumerate(t["args"]):
                for pl, how in operand_places(a):
                    yield Use("call_arg", bi, None, t, how, pl, i)
            if "indirect" in t["func"]:
                for pl, how in operand_places(t["func"]["indirect"]):
                    yield Use("call_arg", bi, None, t, how, pl, -1)
            if k == "call":
                yield Use("call_dest", bi, None, t, "write", t["dest"])
        elif k == "switch":
            for pl, how in operand_places(t["op"]):
                yield Use("switch", bi, None, t, how, pl)
        elif k == "drop":
            yield Use("drop", bi, None, t, "drop", t["pl"])
        elif k == "assert":
            for pl, how in operand_places(t["cond"]):
                yield Use("assert", bi, None, t, how, pl)


def uses_of_local(body, l):
    return [u for u in all_place_uses(body) if l in set(place_locals(u.place))]


# --------------------------------------------------------------------------------------------
# field accesses across the program

def field_accesses(prog, adt_variant, field, keys=None):
    """All occurrences of a place projecting through `field` of `adt_variant` ("path::Variant").
    Returns list of dict(body, bb, how, use, consumer) where consumer is the callee receiving a
    reference made from that place (if the occurrence is `&place`/`&mut place` whose only use is a call arg)."""
    out = []
    for k, b in prog.bodies.items():
        if keys is not None and k not in keys:
            continue
        if b.mono and b.defp in prog.bodies and prog.bodies[b.defp] is not b:
            pass
        og = None
        for u in all_place_uses(b):
            hit = None
            for i, p in enumerate(u.place["p"]):
                if p["k"] == "field" and p["name"] == field and p.get("of") == adt_variant:
                    hit = i
                    break
            if hit is None:
                continue
            last = (hit == len(u.place["p"]) - 1)
            rec = {"body": k, "bb": u.bb, "how": u.how, "use": u, "whole": last, "consumers": [],
                   "where": short_span((u.node.get("span") if isinstance(u.node, dict) else None) or b.span)}
            if u.kind == "stmt" and u.how in ("ref", "refmut") and not u.node["pl"]["p"]:
                rec["consumers"] = consumers_of(prog, b, u.node["pl"]["l"])
            elif u.kind == "call_arg":
                if og is None:
                    og = Origins(prog, b)
                rec["consumers"] = [("call", og.callee_name(u.node), u.argi)]
            out.append(rec)
    return out


def consumers_of(prog, body, l, depth=0, seen=None):
    """Where does the value in local `l` go? Follows copies/moves/reborrows within the body.
    Returns list of ('call', callee, argi) | ('return',) | ('field_store', place) | ('other', descr)"""
    seen = seen if seen is not None else set()
    if l in seen or depth > 12:
        return []
    seen.add(l)
    og = Origins(prog, body)
    out = []
    for u in uses_of_local(body, l):
        if u.kind == "call_arg":
            out.append(("call", og.callee_name(u.node), u.argi))
        elif u.kind == "stmt":
            dest = u.node["pl"]
            rv = u.node["rv"]
            if u.place["l"] != l:
                continue
            if dest["p"]:
                out.append(("field_store", dest))
            elif dest["l"] == 0:
                out.append(("return",))
            elif rv["k"] in ("use", "ref", "copy_for_deref", "cast", "rawptr", "aggregate", "discr", "binop", "unop"):
                sub = consumers_of(prog, body, dest["l"], depth + 1, seen)
                if rv["k"] in ("binop", "unop", "discr") and not sub:
                    out.append(("other", rv["k"]))
                out.extend(sub if sub else ([("dead",)] if rv["k"] in ("use", "ref", "copy_for_deref") else []))
            else:
                out.append(("other", rv["k"]))
        elif u.kind == "switch":
            out.append(("switch",))
        elif u.kind in ("drop", "assign_to", "call_dest", "assert"):
            if u.kind == "assert":
                out.append(("other", "assert"))
    return out


# --------------------------------------------------------------------------------------------
# aggregate (construction) sites

def construct_sites(prog, adt, keys=None):
    out = []
    for k, b in prog.bodies.items():
        if keys is not None and k not in keys:
            continue
        for bi, si, s in b.iter_stmts():
            if s["k"] == "assign" and s["rv"]["k"] == "aggregate" and s["rv"].get("agg") == "adt" and s["rv"]["adt"] == adt:
                out.append({"body": k, "bb": bi, "si": si, "stmt": s, "where": short_span(s["span"])})
    return out


def call_sites(prog, callee_pred, keys=None):
    """all call sites whose resolved target satisfies callee_pred(name)"""
    out = []
    cg = prog.call_graph()
    for k, edges in cg.items():
        if keys is not None and k not in keys:
            continue
        for bi, t, tg, cb in edges:
            for x in tg:
                name = x[1]
                if callee_pred(name):
                    out.append({"body": k, "bb": bi, "term": t, "target": x, "where": short_span(t["span"])})
    return out


# --------------------------------------------------------------------------------------------
# classification of external callees (effects)

PURE_PREFIXES = [
    # formatting / allocation / core data manipulation
    r"core::fmt::", r"std::fmt::", r"alloc::fmt::", r"std::fmt::", r"alloc::", r"std::alloc",
    r"core::(bool|option|result|slice|iter|ops|cmp|clone|convert|num|mem|ptr|array|str|char|marker|default|hash|borrow|any|panic|panicking|hint|intrinsics|ub_checks|cell|alloc)::",
    r"std::(bool|option|result|slice|iter|ops|cmp|clone|convert|num|mem|ptr|array|str|char|marker|default|hash|borrow|any|vec|string|boxed|panic|rt|hint|intrinsics|collections)::",
    r"std::net::(SocketAddr|SocketAddrV4|SocketAddrV6|IpAddr|Ipv4Addr|Ipv6Addr)", r"core::net::",
    r"std::time::Duration", r"core::time::Duration",
    r"std::sync::atomic::",
    r"byteorder::", r"smallvec::", r"crc::", r"hmac::", r"sha1::", r"sha2::", r"md5::", r"digest::", r"crypto_common::",
    r"generic_array::", r"block_buffer::", r"subtle::", r"typenum::", r"thiserror::",
    r"tracing::", r"tracing_core::", r"tracing_attributes::",
    r"arbitrary::",      # feature `arbitrary`: derive(Arbitrary) input generators (consume a caller-supplied byte buffer)
    r"drop_glue<",
]
INSTANT_OK = re.compile(
    r"^<std::time::Instant as (std|core)::(ops::(Add|Sub|AddAssign|SubAssign)(<.*>)?|cmp::(PartialOrd|PartialEq|Ord|Eq)|clone::Clone|fmt::Debug|hash::Hash)>::"
    r"|^std::time::Instant::(checked_add|checked_sub|duration_since|checked_duration_since|saturating_duration_since)$")

FORBIDDEN = [
    (r"std::time::Instant::(now|elapsed)", "reads the wall clock"),
    (r"std::time::SystemTime", "reads the wall clock"),
    (r"std::time::UNIX_EPOCH", "reads the wall clock"),
    (r"\bstd::env::", "reads the process environment"),
    (r"\bstd::fs::", "file system access"),
    (r"\bstd::io::", "I/O"),
    (r"\bstd::os::", "OS access"),
    (r"std::net::(TcpStream|TcpListener|UdpSocket|ToSocketAddrs|lookup_host)", "network I/O"),
    (r"\bstd::process::", "process state"),
    (r"\bstd::thread::", "thread identity / scheduling"),
    (r"\brand::", "random numbers"), (r"\brand_core::", "random numbers"), (r"\bgetrandom::", "random numbers"),
    (r"\brand_chacha::", "random numbers"),
    (r"std::thread::LocalKey", "thread-local state"),
    (r"std::(collections::)?hash(_map)?::RandomState::new", "ambient random hash keys used explicitly"),
    (r"std::sync::(Mutex|RwLock|Condvar|mpsc|Once|OnceLock|LazyLock|Barrier)", "shared synchronisation state"),
]


def classify_ext(name):
    """-> ('forbidden', why) | ('instant_ok',) | ('pure',) | ('unclassified',)"""
    inner = name
    for pat, why in FORBIDDEN:
        if re.search(pat, inner):
            # a forbidden *type* appearing only as a generic argument of an allowed function (e.g.
            # tracing::field::debug::<&Instant>) is not an effect; test the callee path itself
            head = callee_head(inner)
            if re.search(pat, head):
                return ("forbidden", why)
    head = callee_head(inner)
    if head.startswith("std::time::Instant::") or head.startswith("<std::time::Instant as"):
        if INSTANT_OK.search(inner):
            return ("instant_ok",)
        return ("forbidden", "Instant operation other than arithmetic/comparison")
    for p in PURE_PREFIXES:
        if re.match(r"^<?(&mut |&|\[)?" + p, head) or re.search(r" as " + p, head) or re.match("^" + p, head):
            return ("pure",)
    # <T as Trait>::m with both T and Trait from allowed families
    m = re.match(r"^<(.+) as ([^>]+(<.*>)?)>::", head)
    if m:
        tr = m.group(2)
        for p in PURE_PREFIXES:
            if re.match("^" + p, tr):
                return ("pure",)
    return ("unclassified",)


def callee_head(full):
    """strip the trailing generic argument list `::<...>` of the function itself (keeps the Self type)"""
    depth = 0
    # find the last "::<" at depth 0 that closes at end of string
    if full.endswith(">"):
        i = len(full) - 1
        depth = 0
        while i >= 0:
            c = full[i]
            if c == ">":
                depth += 1
            elif c == "<":
                depth -= 1
                if depth == 0:
                    break
            i -= 1
        if i >= 2 and full[i - 2:i] == "::":
            return full[:i - 2]
    return full
