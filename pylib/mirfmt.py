"""Compact text rendering of extracted MIR (reports and development)."""


def fmt_place(b, pl):
    s = "_%d" % pl["l"]
    for p in pl["p"]:
        k = p["k"]
        if k == "deref":
            s = "(*%s)" % s
        elif k == "field":
            s = "%s.%s" % (s, p["name"])
        elif k == "downcast":
            s = "(%s as %s)" % (s, p["name"])
        elif k == "index":
            s = "%s[_%d]" % (s, p["l"])
        elif k == "cidx":
            s = "%s[%s%d]" % (s, "-" if p.get("from_end") else "", p["off"])
        elif k == "subslice":
            s = "%s[%d..%s%d]" % (s, p.get("from", 0), "-" if p.get("from_end") else "", p.get("to", 0))
        else:
            s = "%s.<%s>" % (s, k)
    return s


def fmt_op(b, op):
    k = op["k"]
    if k in ("copy", "move"):
        return ("" if k == "copy" else "move ") + fmt_place(b, op["pl"])
    if k == "const":
        if "fn" in op:
            return "fn " + op["fn"]
        v = op.get("v", {})
        for key in ("int", "bool", "str", "static", "bytes"):
            if key in v:
                return "const %r" % (v[key],)
        if "zst" in v:
            return "zst"
        return "const %s" % (str(v)[:60])
    return "?" + k


def fmt_rv(b, rv):
    k = rv["k"]
    if k == "use":
        return fmt_op(b, rv["op"])
    if k == "copy_for_deref":
        return "deref_copy " + fmt_place(b, rv["pl"])
    if k == "ref":
        return ("&mut " if rv["mut"] else "&") + fmt_place(b, rv["pl"])
    if k == "rawptr":
        return "&raw " + fmt_place(b, rv["pl"])
    if k == "discr":
        return "discr(%s)" % fmt_place(b, rv["pl"])
    if k == "cast":
        return "%s as %s [%s]" % (fmt_op(b, rv["op"]), b.ty(rv["ty"])["s"], rv["kind"])
    if k == "binop":
        return "%s(%s, %s)" % (rv["op"], fmt_op(b, rv["a"]), fmt_op(b, rv["b"]))
    if k == "unop":
        return "%s(%s)" % (rv["op"], fmt_op(b, rv["a"]))
    if k == "aggregate":
        agg = rv["agg"]
        name = "%s::%s" % (rv["adt"], rv["vname"]) if agg == "adt" else agg
        return "%s{%s}" % (name, ", ".join(fmt_op(b, o) for o in rv["ops"]))
    if k == "repeat":
        return "[%s; %s]" % (fmt_op(b, rv["op"]), rv.get("count"))
    if k == "len":
        return "len(%s)" % fmt_place(b, rv["pl"])
    return "<%s %s>" % (k, {x: y for x, y in rv.items() if x not in ("k",)})


def fmt_term(b, t):
    k = t["k"]
    if k == "goto":
        return "goto bb%d" % t["t"]
    if k == "switch":
        return "switch %s [%s, else bb%d]" % (fmt_op(b, t["op"]), ", ".join("%s->bb%d" % (v, x) for v, x in t["targets"]), t["otherwise"])
    if k == "call" or k == "tailcall":
        f = t["func"]
        name = "<indirect>" if "indirect" in f else (f.get("res") or {}).get("key") or (f.get("res") or {}).get("full") or f["full"]
        return "%s = %s(%s) -> %s" % (fmt_place(b, t["dest"]) if k == "call" else "ret", name,
                                     ", ".join(fmt_op(b, a) for a in t["args"]),
                                     "bb%s" % t.get("t"))
    if k == "assert":
        m = t["msg"]
        return "assert(%s == %s, %s %s) -> bb%d" % (fmt_op(b, t["cond"]), t["expected"], m["kind"],
                                                   " ".join("%s=%s" % (x, fmt_op(b, m[x]) if isinstance(m[x], dict) else m[x]) for x in m if x != "kind"), t["t"])
    if k == "drop":
        return "drop(%s) -> bb%d" % (fmt_place(b, t["pl"]), t["t"])
    return k


def fmt_body(b, blocks=None):
    out = ["fn %s  [%s] args=%d  %s" % (b.key, b.kind, b.arg_count, b.loc())]
    for i, l in enumerate(b.locals):
        out.append("    let _%d: %s%s" % (i, b.ty(l["ty"])["s"], ("  // " + l["name"]) if l.get("name") else ""))
    reach = b.reachable()
    for bi, blk in enumerate(b.blocks):
        if blocks is not None and bi not in blocks:
            continue
        if bi not in reach or blk.get("cleanup"):
            continue
        out.append("  bb%d:" % bi)
        for s in blk["stmts"]:
            if s["k"] == "assign":
                out.append("      %s = %s" % (fmt_place(b, s["pl"]), fmt_rv(b, s["rv"])))
            elif s["k"] == "set_discr":
                out.append("      discr(%s) = %s" % (fmt_place(b, s["pl"]), s["variant"]))
            elif s["k"] in ("storage_live", "storage_dead", "nop"):
                continue
            else:
                out.append("      <%s>" % s["k"])
        t = blk["term"]
        out.append("      %s    // %s" % (fmt_term(b, t), b.loc(t.get("span"))))
    return "\n".join(out)
