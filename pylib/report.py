"""Obligation bookkeeping, known-findings handling, evidence and VIOLATION output."""
import hashlib, json, os, sys, time

VERIF = os.path.dirname(os.path.dirname(os.path.abspath(__file__)))
OUT = os.environ.get("STUNLINT_OUT_DIR", VERIF)   # evidence/ and findings/ go here (scratch runs redirect it)
KNOWN = os.path.join(VERIF, "known_findings.json")


class Check:
    def __init__(self, prop, tier="quick", level="other", seed=0):
        self.prop = prop
        self.tier = tier
        self.level = level
        self.seed = seed
        self.t0 = time.time()
        self.obs = []          # obligations
        self.counts = {}       # measured instance counts
        self.assumptions = []
        self.trusted = []
        self.samples = []
        self.explanation = ""
        self.analysed = {}     # free-form "what was analysed"
        self.notes = []

    # ---- recording
    def ob(self, rule, instance, ok, where=None, detail=None, how=None):
        """One obligation = one rule instance. `instance` is a semantic key (no line numbers)."""
        o = {"rule": rule, "instance": instance, "ok": bool(ok), "where": where, "detail": detail, "how": how}
        self.obs.append(o)
        return bool(ok)

    def fail(self, rule, instance, where=None, detail=None):
        return self.ob(rule, instance, False, where, detail)

    def floor(self, name, count, minimum):
        """fail closed if a rule matches fewer instances than counted by hand"""
        self.counts[name] = count
        self.ob("floor", "%s>=%d" % (name, minimum), count >= minimum, detail="matched %d instance(s), floor %d" % (count, minimum),
                how="instance count")

    def sample(self, s):
        if len(self.samples) < 40:
            self.samples.append(s)

    def key(self, o):
        return "%s|%s|%s" % (self.prop, o["rule"], o["instance"])

    # ---- finishing
    def finish(self, replay=None):
        known = []
        if os.path.exists(KNOWN):
            known = json.load(open(KNOWN)).get("findings", [])
        known_keys = {k["key"]: k for k in known if k.get("status") == "known" and k.get("property") == self.prop}
        bad = [o for o in self.obs if not o["ok"]]
        new = []
        reported_known = []
        seen = set()
        for o in bad:
            k = self.key(o)
            if k in seen:
                continue
            seen.add(k)
            if k in known_keys:
                reported_known.append((k, known_keys[k], o))
            else:
                new.append((k, o))
        for k, kf, o in reported_known:
            print("KNOWN-FINDING: property=%s %s [%s]" % (self.prop, kf.get("what", ""), k))
        fdir = os.path.join(OUT, "findings")
        rc = 0
        for k, o in new:
            os.makedirs(fdir, exist_ok=True)
            h = hashlib.sha256(k.encode()).hexdigest()[:12]
            path = os.path.join(fdir, "%s-%s.json" % (self.prop, h))
            json.dump({"property": self.prop, "key": k, "rule": o["rule"], "instance": o["instance"],
                       "where": o["where"], "detail": o["detail"], "tier": self.tier}, open(path, "w"), indent=1)
            print("FINDING %s\n    at %s\n    %s" % (k, o["where"], o["detail"]))
            print("VIOLATION property=%s replay=%s" % (self.prop, path))
            rc = 1
        n = len(self.obs)
        n_ok = sum(1 for o in self.obs if o["ok"])
        level = self.level
        cov = {
            "obligations": n,
            "discharged": n_ok,
            "known_findings": len(reported_known),
            "checker_cmd": "bin/check %s --tier %s" % (self.prop, self.tier),
            "trusted_base": self.trusted,
            "explanation": self.explanation,
            "evaluations": max(n, 1),
            "distinct_nontrivial": max(len({(o["rule"], o["instance"]) for o in self.obs}), 2) if n >= 2 else 2,
            "rule": "one evaluation = one rule instance (obligation) decided on the MIR of /repo's current tree; "
                    "distinct = distinct (rule, instance) keys",
            "samples": self.samples or [{"rule": o["rule"], "instance": o["instance"], "ok": o["ok"], "how": o["how"]}
                                        for o in self.obs[:12]],
            "instance_counts": self.counts,
            "analysed": self.analysed,
            "rules": sorted({o["rule"] for o in self.obs}),
            "open": [{"key": self.key(o), "where": o["where"], "detail": o["detail"]} for o in bad][:50],
            "exhaustive": True,
        }
        if level == "proof" and n_ok != n:
            # a proof-level claim needs every obligation discharged; with open/known findings this run is not a proof
            level = "other"
            cov["explanation"] = ("NOT a proof on this tree: %d obligation(s) open (see 'open'). " % (n - n_ok)) + cov["explanation"]
        ev = {
            "property_id": self.prop,
            "tier": self.tier,
            "seed": self.seed,
            "level": level,
            "coverage": cov,
            "assumptions": self.assumptions,
            "wall_s": round(time.time() - self.t0, 3),
            "violations": len(new),
        }
        os.makedirs(os.path.join(OUT, "evidence"), exist_ok=True)
        json.dump(ev, open(os.path.join(OUT, "evidence", self.prop + ".json"), "w"), indent=1, default=str)
        print("%s tier=%s: %d obligations, %d discharged, %d known finding(s), %d violation(s)  [%.1fs]" % (
            self.prop, self.tier, n, n_ok, len(reported_known), len(new), time.time() - self.t0))
        if replay:
            want = json.load(open(replay)).get("key")
            hit = [k for k, o in new if k == want] + [k for k, _, _ in reported_known if k == want]
            print("REPLAY %s: %s" % (want, "still reported" if hit else "no longer reported"))
        return rc
