"""E3 - decision-table extraction by a guided walk over the MIR control-flow graph.

A *behaviour* of a (loop-free region of a) body under an oracle is the ordered tuple of tracked events
on the path the oracle selects, followed by a terminal.  At a switch whose discriminant the oracle does
not recognise (tracing level checks, drop flags, ...) every arm must produce the same behaviour;
otherwise an unrecognised condition guards a tracked effect and the walk fails closed, naming the switch.
"""
from mir import Origins, Origin, O, strip, short_span


class Unrecognised(Exception):
    def __init__(self, body, bb, origin, behaviours):
        self.body = body
        self.bb = bb
        self.origin = origin
        self.behaviours = behaviours
        Exception.__init__(self, "unrecognised condition %r at bb%d (%s) guards tracked effects: %r" % (
            origin, bb, short_span(body.term(bb)["span"]), behaviours))


class Walker:
    def __init__(self, prog, body, oracle, call_event=None, track_locals=None, stop=None, write_event=None,
                 mut_arg_event=True, rewrite=None):
        """oracle(origin, term, body) -> switch value (int) or None when untracked.
        call_event(name, arg_origins, term, origins) -> event or None.
        track_locals: set of local indices whose whole-assignments are events ('set', l, origin).
        stop: dict bb -> terminal label: walking stops *on entry* to these blocks.
        write_event(place_origin, value_origin, stmt) -> event or None for projected-place writes."""
        self.prog = prog
        self.b = body
        self.og = Origins(prog, body)
        self.oracle = oracle
        self.call_event = call_event or (lambda *a: None)
        self.track_locals = track_locals or set()
        self.stop = stop or {}
        self.write_event = write_event
        self.mut_arg_event = mut_arg_event
        self.rw = rewrite or (lambda o: o)
        self.memo = {}
        self.cut = set()      # blocks treated as loop re-entry points (terminal ('loop', bb))
        self.onstack = set()
        self.consulted = []   # (bb, origin, value) tracked decisions seen, for reporting
        self.untracked = 0

    def run(self, start=0, env=None):
        return self.walk(start, tuple(sorted((env or {}).items(), key=lambda kv: kv[0])))

    def _stmt_events(self, bb):
        ev = []
        for s in self.b.blocks[bb]["stmts"]:
            if s["k"] == "assign":
                pl = s["pl"]
                if not pl["p"]:
                    if pl["l"] in self.track_locals:
                        ev.append(("set", pl["l"], self.rw(self.og.rvalue(s["rv"]))))
                elif self.write_event is not None:
                    e = self.write_event(self.rw(self.og.place(pl)), self.rw(self.og.rvalue(s["rv"])), s)
                    if e is not None:
                        ev.append(e)
            elif s["k"] == "set_discr" and self.write_event is not None:
                e = self.write_event(self.rw(self.og.place(s["pl"])), O("const", "variant#%d" % s["variant"]), s)
                if e is not None:
                    ev.append(e)
        return ev

    def _call_events(self, bb, t):
        name = self.og.callee_name(t)
        args = tuple(self.rw(self.og.operand(a)) for a in t["args"])
        e = self.call_event(name, args, t, self.og)
        if e is None and self.mut_arg_event:
            # a workspace callee receiving `&mut <workspace ADT>` is an effect unless the spec names it
            for a in t["args"]:
                if a["k"] in ("move", "copy"):
                    ty = self.b.place_ty(a["pl"])
                    if ty.get("k") == "ref" and ty.get("mut"):
                        to = self.b.ty(ty["to"])
                        if to.get("k") == "adt" and to["path"].split("::")[0] in ("stun_types", "stun_proto") \
                                and not name.startswith(("tracing", "core::fmt", "std::fmt")):
                            e = ("mutcall", name, args)
                            break
        ev = []
        if e is not None:
            ev.append(e)
        if t["k"] == "call" and not t["dest"]["p"] and t["dest"]["l"] in self.track_locals:
            ev.append(("set", t["dest"]["l"], O("call", name, bb, args)))
        return ev

    def walk(self, bb, env=()):
        if bb in self.stop:
            return (("stop", self.stop[bb]),)
        key = (bb, env)
        if key in self.memo:
            return self.memo[key]
        if key in self.onstack or bb in self.cut:
            return (("loop", bb),)
        self.onstack.add(key)
        try:
            res = self._walk(bb, env)
        finally:
            self.onstack.discard(key)
        self.memo[key] = res
        return res

    def _env_update(self, env, evs):
        d = dict(env)
        for e in evs:
            if e[0] == "set":
                d[e[1]] = e[2]
        return tuple(sorted(d.items(), key=lambda kv: kv[0]))

    def _from_env(self, o, env):
        """resolve a switch on a tracked multi-definition local from its last assignment on this path"""
        d = dict(env)
        s = strip(o)
        if s.k == "discr":
            x = strip(s.a[0])
            if x.k == "multi" and x.a[0] in d:
                v = strip(d[x.a[0]])
                if v.k == "agg" and "::" in str(v.a[0]):
                    adt, vname = str(v.a[0]).rsplit("::", 1)
                    a = self.prog.adts.get(adt)
                    if a:
                        for var in a["variants"]:
                            if var["name"] == vname and var["discr"] is not None:
                                return int(var["discr"])
        if s.k == "multi" and s.a[0] in d:
            v = strip(d[s.a[0]])
            if v.k == "const" and isinstance(v.a[0], bool):
                return 1 if v.a[0] else 0
        return None

    def _walk(self, bb, env):
        b = self.b
        sev = self._stmt_events(bb)
        ev = tuple(sev)
        env = self._env_update(env, sev)
        t = b.term(bb)
        k = t["k"]
        if k == "return":
            return ev + (("return",),)
        if k == "unreachable":
            return ev + (("unreachable",),)
        if k in ("resume", "terminate"):
            return ev + (("unwind",),)
        if k in ("goto", "drop", "assert"):
            return ev + self.walk(t["t"], env)
        if k in ("call", "tailcall"):
            cevl = self._call_events(bb, t)
            cev = tuple(cevl)
            env = self._env_update(env, cevl)
            if k == "tailcall" or t["t"] is None:
                return ev + cev + (("diverge", self.og.callee_name(t)),)
            return ev + cev + self.walk(t["t"], env)
        if k == "switch":
            succs = b.succs(bb)
            if len(succs) == 1:
                return ev + self.walk(succs[0], env)
            o = self.rw(self.og.operand(t["op"]))
            v = self._from_env(o, env)
            if v is None:
                v = self.oracle(o, t, b)
            if v is not None:
                self.consulted.append((bb, o, v))
                tgt = t["otherwise"]
                for val, tb in t["targets"]:
                    if val == v:
                        tgt = tb
                return ev + (("decide", _short(o), v),) + self.walk(tgt, env)
            self.untracked += 1
            outs = {}
            for s in succs:
                r = self.walk(s, env)
                if r and r[-1] == ("unreachable",) and len(r) == 1:
                    continue
                outs.setdefault(r, []).append(s)
            if len(outs) == 1:
                return ev + next(iter(outs))
            if len(outs) == 0:
                return ev + (("unreachable",),)
            raise Unrecognised(b, bb, o, list(outs))
        return ev + (("other", k),)


def _short(o):
    s = repr(o)
    return s if len(s) < 160 else s[:157] + "..."


def events_only(beh):
    return tuple(e for e in beh if e[0] not in ("decide",))


def has_call(beh, pred):
    return [e for e in beh if e[0] in ("call", "mutcall") and pred(e[1])]


# --------------------------------------------------------------------------------------------
# origin matchers

def is_call_to(o, pat):
    o = strip(o)
    import re
    return isinstance(o, Origin) and o.k == "call" and re.search(pat, o.a[0]) is not None


def mentions(o, pred):
    return any(pred(x) for x in o.walk())


def field_of(o, name):
    """o == field(<anything>, name) after stripping refs"""
    o = strip(o)
    return isinstance(o, Origin) and o.k == "field" and o.a[1] == name


def instrumented_body(prog, key):
    """`#[tracing::instrument(ret|err)]` moves the function body into `<fn>::{closure#0}`, invoked
    immediately.  Returns (body, upvar_map) for the body that actually holds the function's logic;
    upvar_map: {'upvar<i>': Origin in terms of the parent's parameters}."""
    b = prog.bodies[key]
    ck = key + "::{closure#0}"
    if ck not in prog.bodies:
        return b, {}
    og = Origins(prog, b)
    for bi, t in b.calls():
        if og.callee_name(t) == ck:
            a0 = og.operand(t["args"][0])
            a0 = strip(a0)
            if a0.k == "agg" and str(a0.a[0]).startswith("closure:"):
                ups = {("upvar%d" % i): strip_keep(u) for i, u in enumerate(a0.a[1])}
                cb = prog.bodies[ck]
                # the closure must carry the logic: the parent only wraps it with span/return-value tracing
                return cb, ups
    return b, {}


def strip_keep(o):
    return o


def resolve_upvars(o, ups, closure_param=1):
    """rewrite field(deref(param(1)),'upvarN') / field(param(1),'upvarN') in closure-body origins into parent terms"""
    if not isinstance(o, Origin):
        return o
    if o.k == "field" and isinstance(o.a[1], str) and o.a[1].startswith("upvar"):
        base = strip(o.a[0])
        if base.k == "param" and base.a[0] == closure_param and o.a[1] in ups:
            return ups[o.a[1]]
    new = []
    for x in o.a:
        if isinstance(x, Origin):
            new.append(resolve_upvars(x, ups, closure_param))
        elif isinstance(x, tuple):
            new.append(tuple(resolve_upvars(y, ups, closure_param) if isinstance(y, Origin) else y for y in x))
        else:
            new.append(x)
    return Origin(o.k, *new)


# --------------------------------------------------------------------------------------------
# pattern matching on origins (refs/derefs are transparent)

import re as _re


def param_index(body, name):
    for i in range(1, body.arg_count + 1):
        if body.locals[i]["name"] == name:
            return i
    return None


def pm(o, pat, body=None):
    """pattern forms:
       ('any',) | ('param', name_or_index) | ('const', value) | ('call', regex, [argpats] | None)
       | ('field', basepat, name) | ('variant', basepat, name) | ('agg', regex, [pats] | None)
       | ('discr', pat) | ('bin', op, a, b) | ('cast', pat) | ('fn', predicate)"""
    o = strip(o)
    k = pat[0]
    if k == "any":
        return True
    if not isinstance(o, Origin):
        return False
    while o.k == "cast" and k != "cast" and str(o.a[0]).startswith("PointerCoercion"):
        o = strip(o.a[1])
    if k == "fn":
        return bool(pat[1](o))
    if k == "param":
        want = pat[1]
        if isinstance(want, str):
            want = param_index(body, want)
        return o.k == "param" and o.a[0] == want
    if k == "const":
        return o.k == "const" and o.a[0] == pat[1]
    if k == "call":
        if o.k != "call" or not _re.search(pat[1], o.a[0]):
            return False
        if len(pat) > 2 and pat[2] is not None:
            args = o.a[2]
            if len(args) != len(pat[2]):
                return False
            return all(pm(a, p, body) for a, p in zip(args, pat[2]))
        return True
    if k == "field":
        return o.k == "field" and o.a[1] == pat[2] and pm(o.a[0], pat[1], body)
    if k == "variant":
        return o.k == "variant" and o.a[1] == pat[2] and pm(o.a[0], pat[1], body)
    if k == "agg":
        if o.k != "agg" or not _re.search(pat[1], str(o.a[0])):
            return False
        if len(pat) > 2 and pat[2] is not None:
            if len(o.a[1]) != len(pat[2]):
                return False
            return all(pm(a, p, body) for a, p in zip(o.a[1], pat[2]))
        return True
    if k == "discr":
        return o.k == "discr" and pm(o.a[0], pat[1], body)
    if k == "cast":
        if o.k == "cast":
            return pm(o.a[1], pat[1], body)
        return pm(o, pat[1], body)
    if k == "bin":
        return o.k == "bin" and o.a[0] == pat[1] and pm(o.a[1], pat[2], body) and pm(o.a[2], pat[3], body)
    raise ValueError("bad pattern %r" % (pat,))


def ev_match(e, pat, body=None):
    """event patterns: ('call', regex, [argpats]|None) | ('set', local, pat) | ('write', placepat, valpat) | ('return',)"""
    if e[0] in ("call", "mutcall") and pat[0] == "call":
        if not _re.search(pat[1], e[1]):
            return False
        if len(pat) > 2 and pat[2] is not None:
            if len(e[2]) != len(pat[2]):
                return False
            return all(pm(a, p, body) for a, p in zip(e[2], pat[2]))
        return True
    if e[0] == "set" and pat[0] == "set":
        return e[1] == pat[1] and pm(e[2], pat[2], body)
    if e[0] == "write" and pat[0] == "write":
        return pm(e[1], pat[1], body) and pm(e[2], pat[2], body)
    if e[0] == pat[0] and len(e) == 1 and len(pat) == 1:
        return True
    return False


def beh_match(beh, pats, body=None):
    """exact sequence match of the behaviour's events (decisions removed) against event patterns.
    Returns (ok, explanation)."""
    evs = events_only(beh)
    if len(evs) != len(pats):
        return False, "expected %d events, got %d: %s" % (len(pats), len(evs), show(evs))
    for i, (e, p) in enumerate(zip(evs, pats)):
        if not ev_match(e, p, body):
            return False, "event %d %s does not match %r; all: %s" % (i, show((e,)), p, show(evs))
    return True, show(evs)


def show(evs):
    out = []
    for e in evs:
        if e[0] in ("call", "mutcall"):
            out.append("%s %s%s" % (e[0], _re.sub(r"<[^<>]*>", "", e[1]).split("::")[-1], _trunc(repr(e[2]), 140)))
        elif e[0] == "set":
            out.append("_%d := %s" % (e[1], _trunc(repr(e[2]), 140)))
        elif e[0] == "write":
            out.append("%s := %s" % (_trunc(repr(e[1]), 90), _trunc(repr(e[2]), 90)))
        else:
            out.append(repr(e))
    return " ; ".join(out)


def _trunc(s, n):
    return s if len(s) <= n else s[:n - 3] + "..."
