"""Content tracking: which bytes flow into which sink.

Byte sequences carry a content description (`Seq.src`):
    (id, off)                         the window starting at `off` of an identified immutable content
    ("cat", a, len_a, b)              concatenation
    ("patch", s, lo, hi, d)           s with the bytes [lo, hi) replaced by d = ("be", nbytes, value Lin | None) | ("src", s2)
Copies keep the description; writes through `&mut` sub-slices of an owned container patch it.  Hash / MAC / CRC objects
of the external crates are accumulators of such streams; their outputs are identified contents described in
`Interp.contents`; comparisons (`verify_slice`) fork on the verdict and leave an event on the path's trace.
`segments` normalises a description into a list of pieces for comparison with a specification."""
import re
from absint.lin import Lin
from absint.values import *
from absint.interp import ISIZE_MAX, int_range, event
from absint.models import M, OPTION, RESULT
from absint.models_std2 import first


# ------------------------------------------------------------------------------------------------ normal form

REG = {"contents": {}}       # the running interpreter's content registry (set by Interp users through `use_registry`)


def use_registry(it):
    REG["contents"] = it.contents


def segments(st, src, length):
    """-> list of ('win', id, off Lin, len Lin) | ('be', nbytes, value) | ('?',) pieces, or None"""
    if src is None:
        return None
    if src[0] == "cellbyte":
        v = st.cells.get(src[1])
        return [("be", 1, v.e if isinstance(v, Num) else None)]
    if src[0] == "cat":
        a = segments(st, src[1], src[2])
        b = segments(st, src[3], length - src[2])
        if a is None or b is None:
            return None
        return merge(st, a + b)
    if src[0] == "patch":
        base = segments(st, src[1], length)
        if base is None:
            return None
        return merge(st, splice(st, base, src[2], src[3], src[4]))
    if src[0] == "zeros":
        return [("zero", length)]
    if src[0] == "sub":
        base = segments(st, src[1], src[2])
        if base is None:
            return None
        return merge(st, cut(st, base, src[3], src[3] + length))
    return [("win", src[0], src[1], length)]


def cut(st, segs, lo, hi):
    """the part [lo, hi) of the concatenation of segs"""
    out = []
    pos = Lin.const(0)
    for s in segs:
        ln = seg_len(s)
        if ln is None:
            return [("?",)]
        end = pos + ln
        if st.sys.entails_ge(lo - end) or st.sys.entails_ge(pos - hi):
            pass
        elif st.sys.entails_ge(pos - lo) and st.sys.entails_ge(hi - end):
            out.append(s)
        elif s[0] in ("win", "zero"):
            a = lo if st.sys.entails_ge(lo - pos) else pos if st.sys.entails_ge(pos - lo) else None
            b = hi if st.sys.entails_ge(end - hi) else end if st.sys.entails_ge(hi - end) else None
            if a is None or b is None:
                return [("?",)]
            out.append(("win", s[1], s[2] + (a - pos), b - a) if s[0] == "win" else ("zero", b - a))
        else:
            return [("?",)]
        pos = end
    return out


def merge(st, segs):
    """drop empty pieces, fuse adjacent windows of the same content, recognise the big-endian bytes of a number"""
    segs = [norm_piece(st, s) for s in segs]
    out = []
    for s in segs:
        if s[0] == "be" and s[1] == 1 and out and out[-1][0] == "bepart" and s[2] is not None:
            pass
        if s[0] == "bepart":
            # byte k of the n-byte number E: fuse k = 0 .. n-1 in order into be(n, E)
            if s[2] == 0:
                out.append(("bepart", s[1], 0, s[3], s[4]))
            elif out and out[-1][0] == "bepart" and out[-1][1] == s[1] and out[-1][2] == s[2] - 1:
                out[-1] = ("bepart", s[1], s[2], s[3], s[4])
            else:
                out.append(("?",))
                continue
            if out[-1][2] == out[-1][3] - 1:
                out[-1] = ("be", out[-1][3], out[-1][4])
            continue
        if s[0] == "win" and st.sys.entails_eq(s[3]):
            continue
        if s[0] == "zero":
            if st.sys.entails_eq(s[1]):
                continue
            if out and out[-1][0] == "zero":
                out[-1] = ("zero", out[-1][1] + s[1])
                continue
        if out and s[0] == "win" and out[-1][0] == "win" and out[-1][1] == s[1] and st.sys.entails_eq(out[-1][2] + out[-1][3] - s[2]):
            out[-1] = ("win", s[1], out[-1][2], out[-1][3] + s[3])
        else:
            out.append(s)
    return out


def norm_piece(st, s):
    """single bytes that are byte k of the big-endian bytes of a known number, and windows covering such bytes"""
    C = REG["contents"]
    if s[0] == "be" and s[1] == 1 and isinstance(s[2], Lin) and len(s[2].t) == 1 and s[2].c == 0:
        nm = next(iter(s[2].t))
        loc = C.get("bytes", {}).get(nm)
        if loc is not None:
            d = C.get(loc[0])
            k = st.sys.const_value(loc[1])
            if d and d[0] == "int" and k is not None:
                return ("bepart", loc[0], int(k), d[1], d[2])
    if s[0] == "win":
        d = C.get(s[1])
        if d and d[0] == "int" and st.sys.entails_eq(s[2]) and st.sys.entails_eq(s[3] - d[1]):
            return ("be", d[1], d[2])
    return s


def seg_len(s):
    if s[0] == "bepart":
        return Lin.const(1)
    if s[0] == "win":
        return s[3]
    if s[0] == "be":
        return Lin.const(s[1])
    if s[0] == "zero":
        return s[1]
    if s[0] == "le":
        return Lin.const(s[1])
    return None       # an unknown piece: positions after it are not comparable


def splice(st, segs, lo, hi, d):
    """replace [lo, hi) of the concatenation of segs by d; positions must be comparable with the piece boundaries"""
    out = []
    pos = Lin.const(0)
    done = False
    new = (("le", d[1]) if len(d) > 3 and d[3] == "le" else ("be", d[1], d[2])) if d[0] == "be" and d[1] else (("?",) if d[0] == "be" else ("zero", hi - lo) if d[0] == "zero" else None)
    for s in segs:
        ln = seg_len(s)
        if ln is None:
            return [("?",)]
        end = pos + ln
        if done or st.sys.entails_ge(lo - end):
            out.append(s)                       # wholly before the patch (or after it was placed)
        elif st.sys.entails_ge(pos - hi):
            out.append(s)
        elif s[0] in ("win", "zero") and st.sys.entails_ge(lo - pos) and st.sys.entails_ge(end - hi):
            out.append(("win", s[1], s[2], lo - pos) if s[0] == "win" else ("zero", lo - pos))
            if new is not None:
                out.append(new)
            else:
                sub = segments(st, d[1], hi - lo)
                out += sub if sub is not None else [("?",)]
            out.append(("win", s[1], s[2] + (hi - pos), end - hi) if s[0] == "win" else ("zero", end - hi))
            done = True
        else:
            return [("?",)]
        pos = end
    if not done:
        return [("?",)]
    return out


def content_segments(st, v):
    """pieces of a sequence value (through its view or copy provenance)"""
    if not isinstance(v, Seq):
        return None
    return segments(st, v.content(), v.len)


def show_segments(segs):
    if segs is None:
        return "unknown"
    out = []
    for s in segs:
        if s[0] == "win":
            out.append("%s[%r .. +%r]" % (s[1], s[2], s[3]))
        elif s[0] == "be":
            out.append("be%d(%r)" % (s[1] * 8, s[2]))
        elif s[0] == "zero":
            out.append("zeros[%r]" % (s[1],))
        elif s[0] == "le":
            out.append("le%d(..)" % (s[1] * 8))
        else:
            out.append("?")
    return " ++ ".join(out) or "empty"


# ------------------------------------------------------------------------------------------------ owned containers

def container_of(c, ref):
    """(cell, path, Seq) of an owned byte container behind a reference"""
    n = 0
    while isinstance(ref, Ref) and n < 6:
        v = c.it.load(c.st, ref.cell, ref.path)
        if isinstance(v, Seq):
            return ref.cell, ref.path, v
        ref = v
        n += 1
    return None


def cell_view_id(it, cell, path):
    key = "@%s%s" % (cell, "".join(".%s" % (p[1],) for p in path))
    it.contents[key] = ("container", cell, tuple(path))
    return key


def patch_container(it, st, view, lo, hi, d):
    """a write of [lo, hi) through a `&mut` window of an owned container: its content description is patched"""
    info = it.contents.get(view[0])
    if not info or info[0] != "container":
        return False
    cell, path = info[1], info[2]
    v = it.load(st, cell, path)
    if not isinstance(v, Seq):
        return False
    base = v.content() or ("unknown:%s" % view[0], Lin.const(0))
    a, b = view[1] + lo, view[1] + hi
    it.store(st, cell, path, Seq(v.len, v.elem, None, None, ("patch", base, a, b, d)))
    return True


@first(r"^<std::vec::Vec<u8> as std::ops::DerefMut>::deref_mut$|^std::vec::Vec::<u8>::as_mut_slice$|^<std::vec::Vec<u8> as std::convert::AsMut<\[u8\]>>::as_mut$|^<std::vec::Vec<u8> as std::borrow::BorrowMut<\[u8\]>>::borrow_mut$")
def vec_deref_mut(c):
    """`&mut v[..]` of an owned byte vector: a window that remembers its container, so that writes through it patch the
    container's content"""
    got = container_of(c, c.args[0])
    if got is None or not c.it.track_content:
        src = c.deref(c.args[0])
        return [(c.st, Seq(c.seq_len(c.args[0]), None, None, src.view if isinstance(src, Seq) else None, src.src if isinstance(src, Seq) else None))]
    cell, path, v = got
    if v.view is not None:
        return [(c.st, Seq(v.len, None, None, v.view, None))]
    return [(c.st, Seq(v.len, None, None, (cell_view_id(c.it, cell, path), Lin.const(0)), None))]


# ------------------------------------------------------------------------------------------------ string building

@first(r"^<std::string::String as std::ops::Add<&str>>::add$")
def string_add(c):
    a, b = c.deref(c.args[0]), c.deref(c.args[1])
    la, lb = c.seq_len(c.args[0]), c.seq_len(c.args[1])
    sa = a.content() if isinstance(a, Seq) else None
    sb = b.content() if isinstance(b, Seq) else None
    src = ("cat", sa, la, sb) if sa is not None and sb is not None else None
    return [(c.st, Seq(la + lb, None, None, None, src))]


@first(r"^std::string::String::push_str$|^<std::string::String as std::ops::AddAssign<&str>>::add_assign$")
def string_push_str(c):
    got = container_of(c, c.args[0])
    b = c.deref(c.args[1])
    lb = c.seq_len(c.args[1])
    if got is None:
        c.havoc_mut_args()
        return [(c.st, Struct())]
    cell, path, a = got
    sa, sb = a.content(), (b.content() if isinstance(b, Seq) else None)
    src = ("cat", sa, a.len, sb) if sa is not None and sb is not None else None
    c.it.store(c.st, cell, path, Seq(a.len + lb, None, None, None, src))
    return [(c.st, Struct())]


# ------------------------------------------------------------------------------------------------ digests

DIGM = r"<sha2::digest::core_api::CoreWrapper<(?P<core>.*)> as (?:hmac::Mac|sha2::Digest|sha2::digest::Digest|sha1::Digest|md5::Digest|sha2::digest::Mac|sha2::digest::Update|sha2::digest::FixedOutput|sha2::digest::KeyInit)>::"
DIG = r"<sha2::digest::core_api::CoreWrapper<.*> as (?:hmac::Mac|sha2::Digest|sha2::digest::Digest|sha1::Digest|md5::Digest|sha2::digest::Mac|sha2::digest::Update|sha2::digest::FixedOutput|sha2::digest::KeyInit)>::"
OUT_LEN = {"md5": 16, "sha1": 20, "sha256": 32, "hmac-sha1": 20, "hmac-sha256": 32}


def algo_of(name):
    m = re.match(DIGM, name)
    core = m.group("core") if m else name
    h = "sha256" if "Sha256" in core else "sha1" if "Sha1" in core else "md5" if "Md5" in core else "sha512" if "Sha512" in core else "hash"
    return ("hmac-" + h) if "hmac::HmacCore" in core else h


def empty_stream():
    return Seq(Lin.const(0), None, None, None, ("empty", Lin.const(0)))


def as_seq(c, v):
    v = c.deref(v)
    n = 0
    while isinstance(v, Struct) and len(v.f) == 1 and n < 4:
        v = next(iter(v.f.values()))
        n += 1
    return v if isinstance(v, Seq) else None


@first(r"^" + DIG + r"new_from_slice$")
def mac_new(c):
    key = as_seq(c, c.args[0])
    d = Term("digest", algo_of(c.name), key if key is not None else TOP, empty_stream())
    s_err = c.st.copy()
    return [(c.st, Enum(RESULT, {0: Struct({0: d})})), (s_err, Enum(RESULT, {1: Struct({0: Struct()})}))]


@first(r"^" + DIG + r"new$")
def digest_new(c):
    return [(c.st, Term("digest", algo_of(c.name), TOP, empty_stream()))]


def appended(c, d, data):
    stream = d.a[2]
    ds = as_seq(c, data)
    ln = ds.len if ds is not None else c.it.fresh_num(c.st, 0, ISIZE_MAX, "fed_len").e
    sa = stream.content() if isinstance(stream, Seq) else None
    sb = ds.content() if ds is not None else None
    if sa is not None and sa[0] == "empty":
        src = sb
    else:
        src = ("cat", sa, stream.len, sb) if sa is not None and sb is not None else None
    return Term("digest", d.a[0], d.a[1], Seq((stream.len if isinstance(stream, Seq) else Lin.const(0)) + ln, None, None, None, src))


@first(r"^" + DIG + r"update(::<.*>)?$")
def digest_update(c):
    r = c.args[0]
    d = c.deref(r)
    if isinstance(d, Term) and d.op == "digest" and isinstance(r, Ref):
        c.it.store(c.st, r.cell, r.path, appended(c, d, c.args[1]))
        return [(c.st, Struct())]
    c.havoc_mut_args()
    return [(c.st, Struct())]


@first(r"^" + DIG + r"chain_update(::<.*>)?$|^" + DIG + r"chain(::<.*>)?$")
def digest_chain(c):
    d = c.deref(c.args[0])
    if isinstance(d, Term) and d.op == "digest":
        return [(c.st, appended(c, d, c.args[1]))]
    return [(c.st, c.top_ret())]


def output_of(c, d):
    """the output of a finished digest: an identified content"""
    algo = d.a[0]
    cid = "out:%s/%d.%d" % (c.fr.id, c.bb, c.part)
    c.it.contents[cid] = ("digest", algo, d.a[1], d.a[2])
    n = OUT_LEN.get(algo)
    ln = Lin.const(n) if n else c.it.fresh_num(c.st, 0, 64, "digest_len").e
    return Seq(ln, None, None, None, (cid, Lin.const(0)))


@first(r"^" + DIG + r"(finalize|finalize_fixed|finalize_reset)$")
def digest_finalize(c):
    d = c.deref(c.args[0])
    if isinstance(d, Term) and d.op == "digest":
        event(c.st, "digest", d.a[0], d.a[1], d.a[2])
        return [(c.st, output_of(c, d))]
    return [(c.st, c.top_ret())]


@first(r"^" + DIG + r"(verify_slice|verify|verify_truncated_left|verify_truncated_right)$")
def mac_verify(c):
    d = c.deref(c.args[0])
    tag = as_seq(c, c.args[1])
    how = c.name.rsplit("::", 1)[1]
    if not (isinstance(d, Term) and d.op == "digest"):
        d = Term("digest", algo_of(c.name), TOP, TOP)
    s_ok, s_err = c.st, c.st.copy()
    event(s_ok, "mac-verify", d.a[0], d.a[1], d.a[2], tag if tag is not None else TOP, how, True)
    event(s_err, "mac-verify", d.a[0], d.a[1], d.a[2], tag if tag is not None else TOP, how, False)
    return [(s_ok, Enum(RESULT, {0: Struct({0: Struct()})})), (s_err, Enum(RESULT, {1: Struct({0: Struct()})}))]


@first(r"^sha2::digest::CtOutput::<.*>::into_bytes$|^<sha2::digest::CtOutput<.*> as std::convert::Into<.*>>::into$")
def ct_into_bytes(c):
    return [(c.st, c.args[0])]


@first(r"^<(sha2::digest::)?generic_array::GenericArray<u8, .*> as (std::ops::Deref|std::convert::AsRef<\[u8\]>|std::borrow::Borrow<\[u8\]>)>::(deref|as_ref|borrow)$"
       r"|^(sha2::digest::)?generic_array::GenericArray::<u8, .*>::as_slice$"
       r"|^<(sha2::digest::)?generic_array::GenericArray<u8, .*> as std::convert::Into<\[u8; \d+\]>>::into$"
       r"|^<\[u8; \d+\] as std::convert::From<(sha2::digest::)?generic_array::GenericArray<u8, .*>>>::from$"
       r"|^<(sha2::digest::)?generic_array::GenericArray<u8, .*> as std::clone::Clone>::clone$")
def generic_array_view(c):
    v = as_seq(c, c.args[0])
    if v is not None:
        return [(c.st, Seq(v.len, None, None, v.view, v.src))]
    return [(c.st, c.top_ret())]


@first(r"^crc::crc32::<impl crc::Crc<u32>>::checksum$")
def crc_checksum(c):
    data = as_seq(c, c.args[1])
    cid = "crc:%s/%d.%d" % (c.fr.id, c.bb, c.part)
    c.it.contents[cid] = ("crc", c.deref(c.args[0]), data)
    event(c.st, "crc", data if data is not None else TOP, cid)
    v = Lin.var(cid)
    c.st.sys.add_range(v, 0, (1 << 32) - 1)
    return [(c.st, Num(v))]


# ------------------------------------------------------------------------------------------------ integers as bytes

@first(r"^core::num::<impl (u16|u32|u64|u128)>::to_be_bytes$")
def int_to_be_bytes(c):
    """the big-endian bytes of a number: an identified content `be<bits>:<the number>` (equal numbers, equal bytes)"""
    bits = int(re.search(r"impl u(\d+)>", c.name).group(1))
    v = c.args[0]
    src = None
    if isinstance(v, Num):
        cid = "be%d:%r" % (bits, c.st.sys.reduce(v.e))
        src = (cid, Lin.const(0))
        c.it.contents[cid] = ("int", bits // 8, v.e)
    return [(c.st, Seq(Lin.const(bits // 8), None, None, None, src))]


@first(r"^core::num::<impl (u16|u32|u64|u128)>::from_be_bytes$")
def int_from_be_bytes(c):
    bits = int(re.search(r"impl u(\d+)>", c.name).group(1))
    v = c.deref(c.args[0])
    w = v.content() if isinstance(v, Seq) else None
    if w is None and isinstance(v, Seq) and is_listed(v.items) and len(v.items.f) == bits // 8:
        # an array assembled from single bytes: when they are consecutive bytes of one identified content, this is a
        # read of that content
        reg = c.it.contents.get("bytes", {})
        locs = []
        for i in sorted(v.items.f):
            x = v.items.f[i]
            nm = next(iter(x.e.t)) if isinstance(x, Num) and len(x.e.t) == 1 and x.e.c == 0 and list(x.e.t.values()) == [1] else None
            locs.append(reg.get(nm))
        if all(l is not None for l in locs) and len({l[0] for l in locs}) == 1 and all(c.st.sys.entails_eq(locs[i][1] - locs[0][1] - i) for i in range(len(locs))):
            w = (locs[0][0], locs[0][1])
    if w is not None and w[0] not in ("cat", "patch", "sub"):
        m = re.match(r"^be(\d+):(.*)$", str(w[0]))
        if m and int(m.group(1)) == bits and c.st.sys.entails_eq(w[1]):
            pass
        name = "rd%d@%s+%r" % (bits, w[0], c.st.sys.reduce(w[1]))
        e = Lin.var(name)
        c.st.sys.add_range(e, 0, (1 << bits) - 1)
        c.it.purefun[name] = set(w[1].t)
        if c.it.byte_defs and not str(w[0]).startswith("@"):
            define_over_bytes(c, e, w, bits // 8)
        if c.it.track_content:
            c.st.cells["ghost:rd:%s:%d:%s:%d" % (c.fr.body.key, c.bb, w[0], bits // 8)] = Struct({0: Num(e), 1: Num(w[1])})
        return [(c.st, Num(e))]
    return [(c.st, c.top_ret())]


# ------------------------------------------------------------------------------------------------ comparing byte strings

BYTES_EQ = (r"^std::cmp::impls::<impl std::cmp::PartialEq(<.*>)? for &(mut )?\[u8(; \d+)?\]>::(eq|ne)$"
            r"|^std::array::equality::<impl std::cmp::PartialEq(<.*>)? for \[u8; \d+\]>::(eq|ne)$"
            r"|^core::slice::cmp::<impl std::cmp::PartialEq(<\[u8\]>)? for \[u8\]>::(eq|ne)$"
            r"|^std::vec::partial_eq::<impl std::cmp::PartialEq(<.*>)? for std::vec::Vec<u8>>::(eq|ne)$")


@first(BYTES_EQ)
def bytes_eq(c):
    """equality of two byte strings: in content-tracking mode the outcome is decided once per path and leaves an event"""
    a, b = as_seq(c, c.args[0]), as_seq(c, c.args[1])
    ne = c.name.endswith("::ne")
    if not c.it.track_content or a is None or b is None:
        return [(c.st, TOP)]
    if a.content() is not None and a.content() == b.content() and c.st.sys.entails_eq(a.len - b.len):
        return [(c.st, Cond("const", not ne))]
    s_eq, s_ne = c.st, c.st.copy()
    event(s_eq, "bytes-eq", a, b, True)
    event(s_ne, "bytes-eq", a, b, False)
    out = []
    s_eq.sys.add_eq(a.len - b.len)
    if not s_eq.sys.bottom:
        out.append((s_eq, Cond("const", not ne)))
    out.append((s_ne, Cond("const", ne)))
    return out


# ------------------------------------------------------------------------------------------------ membership in a short list

def known_eq(st, a, b):
    """True / False when the two scalar(-newtype) values are known equal / different, else None"""
    n = 0
    while isinstance(a, Struct) and len(a.f) == 1 and isinstance(b, Struct) and len(b.f) == 1 and n < 3:
        a, b = next(iter(a.f.values())), next(iter(b.f.values()))
        n += 1
    if not (isinstance(a, Num) and isinstance(b, Num)):
        return None
    if st.sys.entails_eq(a.e - b.e):
        return True
    s2 = st.sys.copy()
    s2.add_eq(a.e - b.e)
    if s2.bottom or not s2.feasible():
        return False
    return None


@first(r"^core::slice::<impl \[.*\]>::contains$")
def slice_contains(c):
    """x in list, for a list whose elements are known one by one"""
    lst = c.deref(c.args[0])
    x = c.deref(c.args[1])
    if isinstance(lst, Seq) and isinstance(lst.items, Empty):
        return [(c.st, Cond("const", False))]
    if not (isinstance(lst, Seq) and is_listed(lst.items)):
        return [(c.st, TOP)]
    res = [known_eq(c.st, lst.items.f[i], x) for i in sorted(lst.items.f)]
    if any(r is True for r in res):
        return [(c.st, Cond("const", True))]
    if all(r is False for r in res):
        return [(c.st, Cond("const", False))]
    if not c.it.track_content:
        return [(c.st, TOP)]
    # compare element by element, front to back; a comparison the path does not decide forks it
    def scalar(v):
        n = 0
        while isinstance(v, Struct) and len(v.f) == 1 and n < 3:
            v = next(iter(v.f.values()))
            n += 1
        return v if isinstance(v, Num) else None
    xs = scalar(x)
    out, states = [], [c.st]
    for i in sorted(lst.items.f):
        es = scalar(lst.items.f[i])
        nxt = []
        for st in states:
            k = known_eq(st, lst.items.f[i], x)
            if k is True:
                out.append((st, Cond("const", True)))
            elif k is False:
                nxt.append(st)
            elif es is None or xs is None:
                return [(c.st, TOP)]
            else:
                s_eq, s_ne = st, st.copy()
                s_eq.sys.add_eq(es.e - xs.e)
                s_ne.sys.add_ne(es.e - xs.e)
                if not s_eq.sys.bottom and s_eq.sys.feasible():
                    event(s_eq, "decided", "%r == %r" % (es, xs), True)
                    out.append((s_eq, Cond("const", True)))
                event(s_ne, "decided", "%r == %r" % (es, xs), False)
                nxt.append(s_ne)
        states = nxt
    for st in states:
        out.append((st, Cond("const", False)))
    return out



def byte_var(c, w, k):
    """the variable of byte k of the window w = (content id, offset)"""
    off_ = w[1] + k
    nm = "rd8@%s+%r" % (w[0], c.st.sys.reduce(off_))
    v = Lin.var(nm)
    c.st.sys.add_range(v, 0, 255)
    c.it.purefun[nm] = set(off_.t)
    c.it.contents.setdefault("bytes", {})[nm] = (w[0], off_)
    c.st.cells["ghost:q:" + nm] = Num(v)
    return v


def bytes_of_window(c, seq, nbytes):
    """the first `nbytes` bytes of a composed content, one linear expression per byte (None when some byte is not known):
    bytes of an identified window are its byte variables, a big-endian number of up to 8 bytes is split into named byte variables
    tied to it (E = sum byte_j * 256^(m-1-j)), zeros are 0"""
    from absint.interp import hash_str
    w = seq.content() if isinstance(seq, Seq) else None
    if w is None:
        return None
    if w[0] == "sub":
        # a sub-window: take the bytes of the whole and slice (a window boundary may fall inside a number's bytes)
        lo_ = c.st.sys.const_value(w[3])
        if lo_ is None:
            return None
        inner = bytes_of_window(c, Seq(w[2], None, None, None, w[1]), int(lo_) + nbytes)
        return inner[int(lo_):] if inner is not None else None
    segs = segments(c.st, w, seq.len)
    if segs is None:
        return None
    out = []
    for sg in segs:
        if len(out) >= nbytes:
            break
        if sg[0] == "be" and sg[2] is not None and sg[1] <= 8:
            m = sg[1]
            hx = hash_str("%r|%d" % (c.st.sys.reduce(sg[2]), m)) & 0xffffffffffff
            bs = []
            acc = Lin.const(0)
            for j in range(m):
                nm = "byte%d_%x" % (j, hx)
                v = Lin.var(nm)
                c.st.sys.add_range(v, 0, 255)
                c.it.purefun[nm] = set(sg[2].t)
                bs.append(v)
                acc = acc + v.scale(1 << (8 * (m - 1 - j)))
            c.st.sys.add_eq(sg[2] - acc)
            out += bs
        elif sg[0] == "zero":
            n_ = c.st.sys.const_value(sg[1])
            if n_ is None:
                return None
            out += [Lin.const(0)] * int(min(n_, nbytes))
        elif sg[0] == "win" and not str(sg[1]).startswith(("orig:", "unknown", "@", "fill:")):
            n_ = c.st.sys.const_value(sg[3])
            if n_ is None:
                n_ = nbytes - len(out) if c.st.sys.entails_ge(sg[3] - (nbytes - len(out))) else None
            if n_ is None:
                return None
            for k in range(int(min(n_, nbytes - len(out)))):
                out.append(byte_var(c, (sg[1], sg[2]), k))
        else:
            return None
    return out[:nbytes] if len(out) >= nbytes else None


def define_over_bytes(c, e, w, n):
    """e is the big-endian number in the n bytes of window w: tie it to the byte variables (up to 8 bytes exactly; a 16-byte
    number as 2^96 * its first four bytes + an opaque 96-bit rest)"""
    if n <= 8:
        acc = Lin.const(0)
        for k in range(n):
            acc = acc + byte_var(c, w, k).scale(1 << (8 * (n - 1 - k)))
        c.st.sys.add_eq(e - acc)
    elif n == 16:
        hi = Lin.const(0)
        for k in range(4):
            hi = hi + byte_var(c, w, k).scale(1 << (8 * (3 - k)))
        rest = Lin.var("rd96@%s+%r" % (w[0], c.st.sys.reduce(w[1] + 4)))
        c.st.sys.add_range(rest, 0, (1 << 96) - 1)
        c.st.cells["ghost:q:" + next(iter(rest.t))] = Num(rest)
        c.st.sys.add_eq(e - hi.scale(1 << 96) - rest)


# ------------------------------------------------------------------------------------------------ joining strings

@first(r"^alloc::str::<impl \[.*\]>::join::<.*>$|^std::slice::<impl \[.*\]>::join::<.*>$|^alloc::slice::<impl \[.*\]>::join::<.*>$|^std::str::<impl \[.*\]>::join::<.*>$")
def slice_join(c):
    """`[a, b, c].join(sep)` over a short list of strings / byte strings: the concatenation with the separator in between"""
    lst = c.deref(c.args[0])
    sep = c.deref(c.args[1])
    if not (isinstance(lst, Seq) and is_listed(lst.items) and isinstance(sep, Seq)):
        return [(c.st, c.top_ret())]
    parts = [c.deref(lst.items.f[i]) for i in sorted(lst.items.f)]
    if not parts or not all(isinstance(p, Seq) for p in parts):
        return [(c.st, c.top_ret())]
    acc_len, acc_src = parts[0].len, parts[0].content()
    for p in parts[1:]:
        for q in (sep, p):
            qs = q.content()
            acc_src = ("cat", acc_src, acc_len, qs) if acc_src is not None and qs is not None else None
            acc_len = acc_len + q.len
    return [(c.st, Seq(acc_len, None, None, None, acc_src))]


@first(r"^core::slice::<impl \[.*\]>::binary_search$")
def slice_binary_search(c):
    """binary_search over a list whose elements are known one by one.  std's contract: on a list in ascending order the answer
    is Ok(i) with list[i] == x when there is such an element and Err(insertion point) otherwise; on any other list the answer
    is unspecified.  The path forks on the order of neighbouring elements; on an unordered list both answers are handed out and
    the event `binary-search-unordered` is left on the trace, so a rule sees that the answer rests on an order nobody established."""
    lst = c.deref(c.args[0])
    x = c.deref(c.args[1])

    def scalar(v):
        n = 0
        while isinstance(v, Struct) and len(v.f) == 1 and n < 3:
            v = next(iter(v.f.values()))
            n += 1
        return v if isinstance(v, Num) else None
    ok = lambda i: Enum(RESULT, {0: Struct({0: Num(Lin.const(i))})})
    err = lambda i: Enum(RESULT, {1: Struct({0: Num(Lin.const(i))})})
    if isinstance(lst, Seq) and isinstance(lst.items, Empty):
        return [(c.st, err(0))]
    xs = scalar(x)
    es = [scalar(lst.items.f[i]) for i in sorted(lst.items.f)] if isinstance(lst, Seq) and is_listed(lst.items) else None
    if not c.it.track_content or es is None or xs is None or any(e is None for e in es) or len(es) > 4:
        st = c.st
        i = c.it.fresh_num(st, 0, None, "bs_i")
        if isinstance(lst, Seq):
            st.sys.add_ge(lst.len - i.e)
        event(st, "binary-search-unknown-list")
        return [(st, Enum(RESULT, {0: Struct({0: i})})), (st.copy(), Enum(RESULT, {1: Struct({0: i})}))]
    n = len(es)
    out = []
    # unordered somewhere: unspecified answer
    for i in range(n - 1):
        st = c.st.copy()
        st.sys.add_ge(es[i].e - es[i + 1].e - 1)
        if st.sys.bottom or not st.sys.feasible():
            continue
        event(st, "binary-search-unordered", i)
        j = c.it.fresh_num(st, 0, n, "bs_i")
        out.append((st, Enum(RESULT, {0: Struct({0: j})})))
        st2 = st.copy()
        out.append((st2, Enum(RESULT, {1: Struct({0: j})})))
    # ascending
    base = c.st.copy()
    for i in range(n - 1):
        base.sys.add_ge(es[i + 1].e - es[i].e)
    if not (base.sys.bottom or not base.sys.feasible()):
        for i in range(n):
            st = base.copy()
            st.sys.add_eq(es[i].e - xs.e)
            if not (st.sys.bottom or not st.sys.feasible()):
                out.append((st, ok(i)))
        for p in range(n + 1):
            st = base.copy()
            if p > 0:
                st.sys.add_ge(xs.e - es[p - 1].e - 1)
            if p < n:
                st.sys.add_ge(es[p].e - xs.e - 1)
            if not (st.sys.bottom or not st.sys.feasible()):
                out.append((st, err(p)))
    return out
