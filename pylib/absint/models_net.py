"""std::net addresses as records of numbers (content-tracking mode, opt-in through `Interp.net_records`).

A socket address is what its public API lets a program observe: family, address bits, port (and flow / scope for V6).
    Ipv4Addr     Struct{0: Num(bits, 32)}                     tag "ipv4"
    Ipv6Addr     Struct{0: Num(bits, 128)}                    tag "ipv6"
    IpAddr       Enum{0: {0: Ipv4Addr}, 1: {0: Ipv6Addr}}
    SocketAddrV4 Struct{0: Ipv4Addr, 1: Num(port)}            tag "sockv4"
    SocketAddrV6 Struct{0: Ipv6Addr, 1: Num(port), 2: Num(flowinfo), 3: Num(scope_id)}   tag "sockv6"
    SocketAddr   Enum{0: {0: SocketAddrV4}, 1: {0: SocketAddrV6}}
`octets()` are the big-endian bytes of the address bits; `From<[u8; N]>` reads them back; the integer conversions are the
bits themselves.  Xor of two numbers is an uninterpreted, commutative function named after its operands with the one law
that matters here: (a ^ k) ^ k = a."""
import re
from absint.lin import Lin
from absint.values import *
from absint.models_std2 import first

IP4, IP6, IPA = "std::net::Ipv4Addr", "std::net::Ipv6Addr", "std::net::IpAddr"
SA4, SA6, SA = "std::net::SocketAddrV4", "std::net::SocketAddrV6", "std::net::SocketAddr"
NET_PATHS = (IP4, IP6, IPA, SA4, SA6, SA)


def top_net(it, st, path, hint):
    """materialise an arbitrary value of a std::net type"""
    def num(bits, what):
        return it.fresh_num(st, 0, (1 << bits) - 1, "%s_%s" % (hint, what))
    if path == IP4:
        return Struct({0: num(32, "ip4")}, tag="ipv4")
    if path == IP6:
        return Struct({0: num(128, "ip6")}, tag="ipv6")
    if path == SA4:
        return Struct({0: top_net(it, st, IP4, hint), 1: num(16, "port4")}, tag="sockv4")
    if path == SA6:
        return Struct({0: top_net(it, st, IP6, hint), 1: num(16, "port6"), 2: num(32, "flow"), 3: num(32, "scope")}, tag="sockv6")
    if path == IPA:
        return Enum(IPA, {0: Struct({0: top_net(it, st, IP4, hint)}), 1: Struct({0: top_net(it, st, IP6, hint)})})
    if path == SA:
        return Enum(SA, {0: Struct({0: top_net(it, st, SA4, hint)}), 1: Struct({0: top_net(it, st, SA6, hint)})})
    return TOP


def on(c):
    return getattr(c.it, "net_records", False)


def passthrough(fn):
    """a net model applies only when the interpreter runs with address records"""
    def w(c):
        if not on(c):
            return c.it.models.lookup_after(c.name, w)(c)
        r = fn(c)
        if r is None:
            return c.it.models.lookup_after(c.name, w)(c)
        return r
    w.__name__ = fn.__name__
    w.__doc__ = fn.__doc__
    return w


def tmp_ref(c, v, what):
    cell = "%s/%d.%d:net_%s" % (c.fr.id, c.bb, c.part, what)
    c.st.cells[cell] = v
    return Ref(cell)


def val(c, a):
    v = c.deref(a) if isinstance(a, (Ref, RefAny)) else a
    return v


@first(r"^std::net::SocketAddrV[46]::(ip|port|flowinfo|scope_id)$")
@passthrough
def sockv_get(c):
    v = val(c, c.args[0])
    if not (isinstance(v, Struct) and v.tag in ("sockv4", "sockv6")):
        return None
    what = c.name.rsplit("::", 1)[-1]
    if what == "ip":
        return [(c.st, tmp_ref(c, v.get(0), "ip"))]
    return [(c.st, v.get({"port": 1, "flowinfo": 2, "scope_id": 3}[what]))]


@first(r"^std::net::SocketAddr::(ip|port|is_ipv4|is_ipv6)$")
@passthrough
def sock_get(c):
    v = val(c, c.args[0])
    if not (isinstance(v, Enum) and v.adt == SA):
        return None
    what = c.name.rsplit("::", 1)[-1]
    out = []
    for vi, pay in v.v.items():
        st2 = c.st.copy() if len(v.v) > 1 else c.st
        inner = pay.get(0)
        if what == "ip":
            r = Enum(IPA, {vi: Struct({0: inner.get(0)})})
        elif what == "port":
            r = inner.get(1)
        else:
            r = Cond("const", (vi == 0) == (what == "is_ipv4"))
        if isinstance(c.args[0], Ref) and len(v.v) > 1:
            c.it.store(st2, c.args[0].cell, c.args[0].path, v.only(vi))
        out.append((st2, r))
    return out


@first(r"^std::net::(Ipv4Addr|Ipv6Addr)::(octets|to_bits)$|^core::net::ip_addr::<impl std::convert::From<std::net::Ipv[46]Addr> for u(32|128)>::from$"
       r"|^<u(32|128) as std::convert::From<std::net::Ipv[46]Addr>>::from$")
@passthrough
def ip_bits(c):
    v = val(c, c.args[0])
    if not (isinstance(v, Struct) and v.tag in ("ipv4", "ipv6") and isinstance(v.get(0), Num)):
        return None
    bits = 32 if v.tag == "ipv4" else 128
    e = v.get(0).e
    if c.name.endswith("::octets"):
        cid = "be%d:%r" % (bits, c.st.sys.reduce(e))
        c.it.contents[cid] = ("int", bits // 8, e)
        return [(c.st, Seq(Lin.const(bits // 8), None, None, None, (cid, Lin.const(0))))]
    return [(c.st, Num(e))]


def number_of_bytes(c, seq, nbytes):
    """the number whose big-endian bytes are the content of `seq` (None when the content is not one known number)"""
    from absint.models_content import segments, cut
    w = seq.content() if isinstance(seq, Seq) else None
    if w is None:
        return None
    segs = segments(c.st, w, seq.len)
    if segs is None:
        return None
    part = cut(c.st, segs, Lin.const(0), Lin.const(nbytes))
    if len(part) == 1 and part[0][0] == "be" and part[0][1] == nbytes and part[0][2] is not None:
        return part[0][2]
    if len(part) == 1 and part[0][0] == "win" and not str(part[0][1]).startswith(("orig:", "unknown")):
        # a window of an identified content: the number read there (same naming as byteorder reads)
        name = "rd%d@%s+%r" % (nbytes * 8, part[0][1], c.st.sys.reduce(part[0][2]))
        e = Lin.var(name)
        c.st.sys.add_range(e, 0, (1 << (8 * nbytes)) - 1)
        c.it.purefun[name] = set(part[0][2].t)
        c.it.contents.setdefault("reads", {})[name] = (part[0][1], part[0][2], nbytes)
        return e
    return None


@first(r"^<std::net::Ipv[46]Addr as std::convert::From<(\[u8; (4|16)\]|u32|u128)>>::from$|^std::net::Ipv[46]Addr::from_bits$"
       r"|^core::net::ip_addr::<impl std::convert::From<(\[u8; (4|16)\]|u32|u128)> for std::net::Ipv[46]Addr>::from$")
@passthrough
def ip_from(c):
    v6 = "Ipv6Addr" in c.name
    bits = 128 if v6 else 32
    a = val(c, c.args[0])
    if isinstance(a, Num):
        return [(c.st, Struct({0: a}, tag="ipv6" if v6 else "ipv4"))]
    if isinstance(a, Seq):
        e = number_of_bytes(c, a, bits // 8)
        if e is None:
            e = c.it.fresh_num(c.st, 0, (1 << bits) - 1, "ipbits").e
        return [(c.st, Struct({0: Num(e)}, tag="ipv6" if v6 else "ipv4"))]
    return None


@first(r"^std::net::SocketAddr::new$")
@passthrough
def sock_new(c):
    ip, port = val(c, c.args[0]), c.args[1]
    if not (isinstance(ip, Enum) and ip.adt == IPA):
        return None
    out = []
    for vi, pay in ip.v.items():
        st2 = c.st.copy() if len(ip.v) > 1 else c.st
        a = pay.get(0)
        if vi == 0:
            sv = Struct({0: a, 1: port}, tag="sockv4")
        else:
            sv = Struct({0: a, 1: port, 2: Num(Lin.const(0)), 3: Num(Lin.const(0))}, tag="sockv6")
        out.append((st2, Enum(SA, {vi: Struct({0: sv})})))
    return out


@first(r"^std::net::SocketAddrV4::new$")
@passthrough
def sockv4_new(c):
    return [(c.st, Struct({0: val(c, c.args[0]), 1: c.args[1]}, tag="sockv4"))]


@first(r"^std::net::SocketAddrV6::new$")
@passthrough
def sockv6_new(c):
    return [(c.st, Struct({0: val(c, c.args[0]), 1: c.args[1], 2: c.args[2], 3: c.args[3]}, tag="sockv6"))]


@first(r"^<std::net::(SocketAddr|SocketAddrV4|SocketAddrV6|IpAddr|Ipv4Addr|Ipv6Addr) as std::clone::Clone>::clone$")
@passthrough
def net_clone(c):
    v = val(c, c.args[0])
    if isinstance(v, (Struct, Enum)):
        return [(c.st, v)]
    return None


# ------------------------------------------------------------------------------------------------ xor as a named function

def xor_num(it, st, a, b, bits):
    """a ^ b for two numbers of `bits` bits: constants fold; x ^ 0 = x; (x ^ k) ^ k = x; otherwise a variable named after
    the (unordered) operands, registered so that it can be undone"""
    from absint.interp import hash_str
    ca, cb = st.sys.const_value(a), st.sys.const_value(b)
    if ca is not None and cb is not None:
        return Lin.const(int(ca) ^ int(cb))
    if ca is not None and int(ca) == 0:
        return b
    if cb is not None and int(cb) == 0:
        return a
    reg = it.contents.setdefault("xors", {})
    ra, rb = st.sys.reduce(a), st.sys.reduce(b)
    for x, y in ((ra, rb), (rb, ra)):
        if len(x.t) == 1 and x.c == 0 and list(x.t.values()) == [1]:
            ops = reg.get(next(iter(x.t)))
            if ops is not None:
                for i in (0, 1):
                    if ops[i] == repr(y):
                        return ops[2 + (1 - i)]          # the other operand
    ka, kb = sorted([repr(ra), repr(rb)])
    name = "xor%d_%x" % (bits, hash_str(ka + "^" + kb) & 0xffffffffffff)
    e = Lin.var(name)
    st.sys.add_range(e, 0, (1 << bits) - 1)
    reg[name] = (repr(ra), repr(rb), ra, rb)
    it.purefun[name] = set(ra.t) | set(rb.t)
    return e
