"""Models of external (non-workspace) callees for the E2 interpreter (DESIGN 2.5).

Each model receives a CallCtx and returns a list of (state, return value) - or None for "total function,
unknown result of the declared type, &mut arguments become unknown".  A model records the callee's panic
preconditions as obligations.  An external callee without a model is reported (fail closed)."""
import re
from absint.lin import Lin
from absint.values import *
from absint.interp import ISIZE_MAX, USIZE_MAX, int_range


def _name(full):
    return full


class Models:
    def __init__(self):
        self.exact = {}
        self.rx = []
        self.names = {}

    def add(self, pattern, fn, doc=""):
        self.rx.append((re.compile(pattern), fn))
        self.names[fn.__name__] = doc

    def lookup(self, name):
        if name in self.exact:
            return self.exact[name]
        for r, fn in self.rx:
            if r.search(name):
                self.exact[name] = fn
                return fn
        self.exact[name] = None
        return None

    def lookup_after(self, name, fn):
        """the next model matching `name` after `fn` in precedence order (delegation from a specialised model)"""
        seen = False
        for r, f_ in self.rx:
            if f_ is fn:
                seen = True
                continue
            if seen and r.search(name):
                return f_
        return self.default

    @staticmethod
    def default(c):
        c.havoc_mut_args()
        for a in c.args:
            c.escape(a)
        return None


M = Models()


def model(pattern, doc=""):
    def deco(fn):
        M.add(pattern, fn, doc)
        return fn
    return deco


# ------------------------------------------------------------------------------------------- helpers

def ret_enum(c, adt, idx, payload=None):
    return Enum(adt, {idx: Struct({0: payload} if payload is not None else {})})


OPTION, RESULT, CFLOW, BOUND = "std::option::Option", "std::result::Result", "std::ops::ControlFlow", "std::ops::Bound"


def range_bounds(c, rng_val, kind, st=None):
    """(start Lin|None, end_exclusive Lin|None) from a Range* struct value"""
    st = st or c.st
    it = c.it
    v = c.deref(rng_val, st)

    def fld(i):
        x = v.get(i) if isinstance(v, Struct) else TOP
        return it.as_num(st, x, {"k": "int", "bits": 64, "signed": False})
    if kind == "Range":
        return fld(0), fld(1)
    if kind == "RangeFrom":
        return fld(0), None
    if kind == "RangeTo":
        return None, fld(0)
    if kind == "RangeFull":
        return None, None
    if kind == "RangeInclusive":
        return fld(0), fld(1) + 1
    if kind == "RangeToInclusive":
        return None, fld(0) + 1
    return None, None


# ------------------------------------------------------------------------------------------- total / opaque

TOTAL = [
    r"^core::fmt::", r"^std::fmt::", r"^alloc::fmt::", r"^<.* as std::fmt::(Debug|Display|LowerHex|UpperHex|Write)>::",
    r"^std::fmt::format$",
    r"^tracing::", r"^tracing_core::", r"^<tracing", r"^<tracing_core",
    r"^std::hint::must_use",
    r"^crc::", r"^<crc::",
    r"^<.*(sha1|sha2|md5|hmac|digest)::.* as .*(Digest|Mac|Update|FixedOutput|KeyInit)>::", r"^(sha1|sha2|md5|hmac|digest)::",
    r"^<(sha2::digest::)?generic_array::GenericArray<.*> as ", r"generic_array::",
    r"^std::net::", r"^core::net::", r"^<std::net::.* as ", r"^<core::net::",
    r"^core::hash::", r"^<.* as std::hash::Hash(er)?>::", r"^std::hash::",
    r"^drop_glue<", r"^std::mem::drop", r"^core::mem::drop",
    r"^<std::io::Error", r"^std::error::Error::",
    r"^std::time::Duration::", r"^<std::time::(Duration|Instant) as ", r"^std::time::Instant::(checked_|saturating_|duration_since)",
    r"^rand::", r"^<rand",
]


def socketaddr_ip(c):
    v = c.deref(c.args[0])
    if isinstance(v, Enum) and len(v.v) == 1 and v.adt.endswith("SocketAddr"):
        return [(c.st, Enum("std::net::IpAddr", {next(iter(v.v)): Struct({0: TOP})}))]
    if isinstance(v, Enum) and v.adt.endswith("SocketAddr") and isinstance(c.args[0], Ref):
        out = []
        for i in sorted(v.v):
            s2 = c.st.copy()
            c.it.store(s2, c.args[0].cell, c.args[0].path, v.only(i))
            out.append((s2, Enum("std::net::IpAddr", {i: Struct({0: TOP})})))
        return out
    return None


M.add(r"^std::net::SocketAddr::ip$|^core::net::socket_addr::SocketAddr::ip$", socketaddr_ip, "ip() of a V4/V6 socket address is a V4/V6 ip address")


def total_unknown(c):
    """total external function: no panic; result unknown of its type; &mut pointees unknown; closures escape"""
    return Models.default(c)


for p in TOTAL:
    M.add(p, total_unknown, "total, opaque")


@model(r"^<tracing::Level as std::cmp::PartialOrd<.*>>::(le|lt|ge|gt)$|^<tracing::level_filters::LevelFilter as ")
def tracing_cmp(c):
    return [(c.st, TOP)]


# ------------------------------------------------------------------------------------------- panics

@model(r"^core::panicking::(panic|panic_fmt|panic_nounwind|panic_explicit|unreachable_display|panic_display|assert_failed.*|panic_const::.*|panic_bounds_check)$|^std::rt::begin_panic|^std::rt::panic_fmt|^core::panicking::panic_cold")
def panics(c):
    # reaching a panic with a feasible state is a violation
    feas = c.st.sys.feasible()
    c.oblige(not feas, "panic-call", "explicit panic / unreachable!() / failed debug_assert is not reachable",
             None if not feas else "a feasible state reaches %s" % c.name.split("::")[-1])
    return []


@model(r"^core::option::(unwrap_failed|expect_failed)$|^core::result::unwrap_failed$|^core::slice::index::slice_.*_fail|^core::str::slice_error_fail")
def panics2(c):
    return panics(c)


# ------------------------------------------------------------------------------------------- lengths

@model(r"^core::slice::<impl \[.*\]>::len$|^std::vec::Vec::<.*>::len$|^std::string::String::len$|^core::str::<impl str>::len$|^smallvec::SmallVec::<.*>::len$|^std::collections::VecDeque::<.*>::len$")
def seq_len(c):
    return [(c.st, Num(c.seq_len(c.args[0])))]


@model(r"^core::slice::<impl \[.*\]>::is_empty$|^std::vec::Vec::<.*>::is_empty$|^std::string::String::is_empty$|^core::str::<impl str>::is_empty$|^smallvec::SmallVec::<.*>::is_empty$")
def seq_is_empty(c):
    ln = c.seq_len(c.args[0])
    return [(c.st, c.it.simplify_cond(c.st, Cond("cmp", "eq", ln, Lin.const(0))))]


@model(r"^<std::vec::Vec<.*> as std::ops::Deref(Mut)?>::deref(_mut)?$|^std::vec::Vec::<.*>::as_(mut_)?slice$|^std::string::String::as_(bytes|str|mut_str)$"
       r"|^<std::string::String as std::ops::Deref(Mut)?>::deref|^<smallvec::SmallVec<.*> as std::ops::Deref(Mut)?>::deref|^std::array::<impl \[.*\]>::as_(mut_)?slice$"
       r"|^<std::boxed::Box<\[.*\]> as std::ops::Deref|^<std::boxed::Box<.*> as std::convert::AsRef|^<std::vec::Vec<.*> as std::convert::AsRef<\[.*\]>>::as_ref"
       r"|^core::str::<impl str>::as_bytes$|^<\[.*\] as std::convert::AsRef<\[.*\]>>::as_ref$|^<std::string::String as std::convert::AsRef<(str|\[u8\])>>::as_ref$"
       r"|^<std::string::String as std::borrow::Borrow<str>>::borrow$|^<std::vec::Vec<.*> as std::borrow::Borrow(Mut)?<\[.*\]>>::borrow")
def seq_view(c):
    src = c.deref(c.args[0])
    items = src.items if isinstance(src, Seq) and (is_listed(src.items) or isinstance(src.items, Empty)) and "mut" not in c.name.rsplit("::", 1)[-1] else None
    return [(c.st, Seq(c.seq_len(c.args[0]), None, items, src.view if isinstance(src, Seq) else None, src.src if isinstance(src, Seq) else None))]


@model(r"^std::slice::<impl \[.*\]>::to_vec$|^std::slice::<impl \[.*\]>::into_vec|^std::str::<impl str>::to_owned$|^std::str::<impl std::borrow::ToOwned for str>::to_owned$|^std::slice::<impl std::borrow::ToOwned for \[.*\]>::to_owned$|^<str as std::borrow::ToOwned>::to_owned$|^<\[.*\] as std::borrow::ToOwned>::to_owned$"
       r"|^<std::vec::Vec<.*> as std::clone::Clone>::clone$|^<std::boxed::Box<\[.*\]> as std::clone::Clone>::clone$|^<std::string::String as std::clone::Clone>::clone$"
       r"|^std::vec::Vec::<.*>::into_boxed_slice$|^<std::string::String as std::convert::Into<std::vec::Vec<u8>>>::into$|^std::string::String::into_bytes$"
       r"|^<smallvec::SmallVec<.*> as std::clone::Clone>::clone$|^<std::string::String as std::convert::From<&str>>::from$|^<str as std::string::ToString>::to_string$"
       r"|^std::string::String::from_utf8_unchecked|^<std::vec::Vec<.*> as std::convert::From<&\[.*\]>>::from$|^<std::boxed::Box<\[.*\]> as std::convert::From<(&\[.*\]|std::vec::Vec<.*>)>>::from$"
       r"|^std::array::<impl std::clone::Clone for \[.*\]>::clone$|^<\[.*; \d+\] as std::clone::Clone>::clone$|^std::slice::<impl \[.*\]>::into_boxed")
def seq_copy(c):
    src = c.deref(c.args[0])
    items = src.items if isinstance(src, Seq) and isinstance(src.items, Struct) and src.items.tag == "elems" else None
    return [(c.st, Seq(c.seq_len(c.args[0]), None, items, None, src.content() if isinstance(src, Seq) else None))]


@model(r"^<&\[u8\] as std::convert::Into<std::boxed::Box<\[u8\]>>>::into$|^<std::vec::Vec<u8> as std::convert::Into<std::boxed::Box<\[u8\]>>>::into$|^<&str as std::convert::Into<std::string::String>>::into$")
def seq_into(c):
    src = c.deref(c.args[0])
    return [(c.st, Seq(c.seq_len(c.args[0]), None, None, None, src.content() if isinstance(src, Seq) else None))]


@model(r"^std::vec::from_elem::<")
def vec_from_elem(c):
    n = c.num(c.args[1], 1)
    if c.it.track_content and c.it.is_zero_value(c.st, c.args[0]):
        return [(c.st, Seq(n, None, None, None, ("zeros",)))]
    return [(c.st, Seq(n))]


@model(r"^std::vec::Vec::<.*>::(new|with_capacity)$|^smallvec::SmallVec::<.*>::(new|with_capacity)$|^std::string::String::(new|with_capacity)$|^<std::vec::Vec<.*> as std::default::Default>::default$")
def vec_new(c):
    if c.it.track_content and "Vec::<u8>" in c.name:
        return [(c.st, Seq(Lin.const(0), None, EMPTY, None, ("zeros",)))]       # no bytes yet: the empty content
    return [(c.st, Seq(Lin.const(0), None, EMPTY))]


def _set_len(c, ref, newlen, add_item=None, keep_items=False):
    if isinstance(ref, Ref):
        cur = c.it.load(c.st, ref.cell, ref.path)
        items = None
        if isinstance(cur, Seq):
            n0 = c.st.sys.const_value(cur.len)
            listed = isinstance(cur.items, Struct) and cur.items.tag == "elems"
            if add_item is not None and n0 is not None and n0 < 32 and (listed or (n0 == 0 and isinstance(cur.items, Empty))) \
                    and isinstance(add_item, Num) and add_item.e.is_const():
                # a short list of constants stays a list
                f = dict(cur.items.f) if listed else {}
                f[n0] = add_item
                items = Struct(f, tag="elems")
            elif listed:
                items = None
            elif add_item is not None:
                items = weak_join(cur.items, add_item)
            elif keep_items:
                items = cur.items
        c.it.store(c.st, ref.cell, ref.path, Seq(newlen, cur.elem if isinstance(cur, Seq) else None, items))


@model(r"^std::vec::Vec::<.*>::push$|^smallvec::SmallVec::<.*>::push$|^std::string::String::push$")
def vec_push(c):
    ln = c.seq_len(c.args[0])
    for a in c.args[1:]:
        c.escape(a)
    if c.name.startswith("std::string::String::push"):
        n = c.it.fresh_num(c.st, 0, ISIZE_MAX, "len")
        c.st.sys.add_le(ln + 1, n.e)
        c.st.sys.add_le(n.e, ln + 4)
        _set_len(c, c.args[0], n.e)
    else:
        cur0 = c.deref(c.args[0]) if c.it.track_content else None
        _set_len(c, c.args[0], ln + 1, add_item=c.args[1] if len(c.args) > 1 else None)
        if isinstance(cur0, Seq) and cur0.content() is not None and isinstance(c.args[0], Ref) and len(c.args) > 1 and isinstance(c.args[1], Num) \
                and "Vec::<u8>" in c.name:
            # a byte vector with known content stays known: one more byte
            bc = "pushbyte:%s/%d.%d" % (c.fr.id, c.bb, c.part)
            c.st.cells[bc] = c.args[1]
            now = c.it.load(c.st, c.args[0].cell, c.args[0].path)
            if isinstance(now, Seq):
                c.it.store(c.st, c.args[0].cell, c.args[0].path, Seq(now.len, now.elem, now.items, None, ("cat", cur0.content(), cur0.len, ("cellbyte", bc))))
        if c.it.track_content and isinstance(c.args[0], Ref):
            from absint.interp import event
            a0 = c.args[0]
            event(c.st, "push", "%s%s" % (a0.cell.rsplit(":", 1)[-1], "".join(".%s" % (p[1],) for p in a0.path)), c.args[1] if len(c.args) > 1 else TOP)
    return [(c.st, Struct())]


@model(r"^std::vec::Vec::<.*>::resize$")
def vec_resize(c):
    n = c.num(c.args[1], 1)
    cur0 = c.deref(c.args[0]) if c.it.track_content else None
    _set_len(c, c.args[0], n)
    if isinstance(cur0, Seq) and cur0.content() is not None and isinstance(c.args[0], Ref) and len(c.args) > 2 and c.it.is_zero_value(c.st, c.args[2]) \
            and c.st.sys.entails_ge(n - cur0.len):
        c.it.store(c.st, c.args[0].cell, c.args[0].path, Seq(n, None, None, None, ("cat", cur0.content(), cur0.len, ("zeros",))))
    elif isinstance(cur0, Seq) and cur0.content() is not None and isinstance(c.args[0], Ref) and len(c.args) > 2 and c.st.sys.entails_ge(n - cur0.len):
        # grown with a fill byte that is not known to be zero: the new bytes are some other content
        c.it.store(c.st, c.args[0].cell, c.args[0].path, Seq(n, None, None, None, ("cat", cur0.content(), cur0.len, ("fill:%s/%d" % (c.fr.id, c.bb), Lin.const(0)))))
    return [(c.st, Struct())]


@model(r"^std::vec::Vec::<.*>::split_off$")
def vec_split_off(c):
    ln = c.seq_len(c.args[0])
    at = c.num(c.args[1], 1)
    c.require_ge(ln - at, "split_off", "at <= len")
    cur = c.deref(c.args[0])
    cp = cur.content() if isinstance(cur, Seq) else None
    if isinstance(c.args[0], Ref):
        c.it.store(c.st, c.args[0].cell, c.args[0].path, Seq(at, None, cur.items if isinstance(cur, Seq) else None, None, src_window(cp, ln, Lin.const(0))))
        c.it.note_mutation(c.st, c.args[0], "split_off")
    return [(c.st, Seq(ln - at, None, None, None, src_window(cp, ln, at)))]


@model(r"^std::vec::Vec::<.*>::drain::<std::ops::(RangeTo|Range|RangeFrom|RangeFull)<usize>>$")
def vec_drain(c):
    ln = c.seq_len(c.args[0])
    km = re.search(r"drain::<std::ops::(\w+)<usize>>$", c.name)
    lo, hi = range_bounds(c, c.args[1], km.group(1))
    lo = lo if lo is not None else Lin.const(0)
    hi = hi if hi is not None else ln
    c.require_ge(hi - lo, "drain:order", "drain: start <= end")
    c.require_ge(ln - hi, "drain:end", "drain: end <= len")
    cur = c.deref(c.args[0])
    cp = cur.content() if isinstance(cur, Seq) else None
    front = c.st.sys.entails_eq(lo)
    if isinstance(c.args[0], Ref):
        newsrc = src_window(cp, ln, hi) if front else None
        c.it.store(c.st, c.args[0].cell, c.args[0].path, Seq(ln - hi + lo, None, None, None, newsrc))
        c.it.note_mutation(c.st, c.args[0], "drain")
    return [(c.st, Iter(hi - lo, False, "drain", None, Seq(Lin.const(0), None, None, None, src_window(cp, ln, lo))))]


@model(r"^<std::vec::Drain<.*> as std::iter::Iterator>::collect::<std::vec::Vec<.*>>$")
def drain_collect(c):
    v = c.args[0]
    if isinstance(v, Iter) and v.kind == "drain":
        sr = v.items.src if isinstance(v.items, Seq) else None
        return [(c.st, Seq(v.len, None, None, None, sr))]
    return [(c.st, c.top_ret())]


@model(r"^std::vec::Vec::<.*>::truncate$")
def vec_truncate(c):
    ln = c.seq_len(c.args[0])
    n = c.it.fresh_num(c.st, 0, ISIZE_MAX, "len")
    c.st.sys.add_le(n.e, ln)
    c.st.sys.add_le(n.e, c.num(c.args[1], 1))
    _set_len(c, c.args[0], n.e)
    return [(c.st, Struct())]


@model(r"^std::vec::Vec::<.*>::clear$|^std::string::String::clear$")
def vec_clear(c):
    _set_len(c, c.args[0], Lin.const(0))
    return [(c.st, Struct())]


@model(r"^<std::vec::Vec<.*> as std::iter::Extend<.*>>::extend::<|^std::vec::Vec::<.*>::extend_from_slice$|^std::string::String::push_str$|^<std::string::String as std::ops::Add<&str>>::add$|^<std::string::String as std::ops::AddAssign<&str>>::add_assign$")
def vec_extend(c):
    ln = c.seq_len(c.args[0])
    n = c.it.fresh_num(c.st, 0, ISIZE_MAX, "len")
    c.st.sys.add_le(ln, n.e)
    other = c.deref(c.args[1]) if len(c.args) > 1 else None
    cat = None
    if isinstance(other, Seq):
        c.st.sys.add_eq(n.e - ln - other.len)
        cur = c.deref(c.args[0])
        if isinstance(cur, Seq) and cur.content() is not None and other.content() is not None:
            cat = ("cat", cur.content(), cur.len, other.content())
    for a in c.args[1:]:
        c.escape(a)
    if "ops::Add<" in c.name:
        return [(c.st, Seq(n.e))]
    if isinstance(c.args[0], Ref):
        c.it.store(c.st, c.args[0].cell, c.args[0].path, Seq(n.e, None, None, None, cat))
        c.it.note_mutation(c.st, c.args[0], "extend")
    return [(c.st, Struct())]


@model(r"^core::num::<impl u(8|16|32|64|128|size)>::to_(be|le|ne)_bytes$")
def to_bytes(c):
    t = c.ret_ty()
    return [(c.st, Seq(Lin.const(t.get("len", 0))))]


@model(r"^core::num::<impl u(8|16|32|64|128|size)>::from_(be|le|ne)_bytes$")
def from_bytes_int(c):
    return None


@model(r"^core::num::<impl u(8|16|32|64|128|size)>::(checked_sub|checked_add|saturating_sub|saturating_add|min|max|abs_diff)$|^std::cmp::(min|max)::<u(8|16|32|64|128|size)>$|^std::cmp::Ord::(min|max)$|^<u(8|16|32|64|128|size) as std::cmp::Ord>::(min|max)$")
def int_arith_helpers(c):
    if len(c.args) < 2:
        return None
    t = c.arg_ty(0)
    rng = int_range(t)
    if rng is None:
        return None
    a, b = c.num(c.args[0], 0), c.num(c.args[1], 1)
    op = c.name.rsplit("::", 1)[1].split("<")[0] if not c.name.startswith("std::cmp::m") else c.name.split("::")[2]
    lo, hi = rng
    st = c.st
    if op == "checked_sub":
        s1 = st.copy(); s1.sys.add_ge(a - b)
        s2 = st; s2.sys.add_ge(b - a - 1)
        out = []
        if not s1.sys.bottom and c.it.feasible_wrt(s1, set(a.t) | set(b.t)):
            out.append((s1, Enum(OPTION, {1: Struct({0: Num(a - b)})})))
        if not s2.sys.bottom and c.it.feasible_wrt(s2, set(a.t) | set(b.t)):
            out.append((s2, Enum(OPTION, {0: Struct()})))
        return out
    if op == "checked_add":
        s1 = st.copy(); s1.sys.add_ge(Lin.const(hi) - a - b)
        s2 = st; s2.sys.add_ge(a + b - hi - 1)
        out = []
        if not s1.sys.bottom and c.it.feasible_wrt(s1, set(a.t) | set(b.t)):
            out.append((s1, Enum(OPTION, {1: Struct({0: Num(a + b)})})))
        if not s2.sys.bottom and c.it.feasible_wrt(s2, set(a.t) | set(b.t)):
            out.append((s2, Enum(OPTION, {0: Struct()})))
        return out
    r = c.it.fresh_num(st, lo, hi, op)
    if op == "saturating_sub":
        st.sys.add_le(r.e, a); st.sys.add_ge(r.e - a + b)
        if st.sys.entails_ge(a - b):
            return [(st, Num(a - b))]
    elif op == "saturating_add":
        st.sys.add_ge(r.e - a); st.sys.add_le(r.e, a + b)
    elif op == "min":
        st.sys.add_le(r.e, a); st.sys.add_le(r.e, b)
        if st.sys.entails_ge(b - a):
            return [(st, Num(a))]
        if st.sys.entails_ge(a - b):
            return [(st, Num(b))]
    elif op == "max":
        st.sys.add_ge(r.e - a); st.sys.add_ge(r.e - b)
        if st.sys.entails_ge(a - b):
            return [(st, Num(a))]
        if st.sys.entails_ge(b - a):
            return [(st, Num(b))]
    elif op == "abs_diff":
        st.sys.add_le(r.e, a + b)
    return [(st, r)]


@model(r"^core::num::<impl [ui](8|16|32|64|128|size)>::(pow|wrapping_.*|saturating_.*|checked_.*|overflowing_.*|leading_zeros|trailing_zeros|count_ones|swap_bytes|to_be|to_le|from_be|from_le|min|max|abs_diff|rotate_left|rotate_right)$")
def int_misc(c):
    if c.name.endswith("::pow"):
        # dev profile: overflow in pow panics
        base = c.st.sys.const_value(c.num(c.args[0], 0))
        e = c.num(c.args[1], 1)
        t = c.ret_ty()
        lo, hi = int_range(t)
        if base is not None and base >= 0:
            # largest exponent without overflow
            k = 0
            while base > 1 and (int(base) ** (k + 1)) <= hi:
                k += 1
            if base <= 1:
                return None
            c.require_ge(Lin.const(k) - e, "overflow:pow", "%d.pow(e) does not overflow: e <= %d" % (base, k))
            ev = c.st.sys.const_value(e)
            if ev is not None and 0 <= ev <= k:
                return [(c.st, Num(Lin.const(int(base) ** int(ev))))]
            return None
        c.oblige(False, "overflow:pow", "pow with a non-constant base", "base not constant")
    return None


# ------------------------------------------------------------------------------------------- indexing

IDX = re.compile(r"^(core::slice::index::<impl std::ops::Index(Mut)?<(?P<idx>.*)> for \[(?P<elem>.*)\]>|<std::vec::Vec<(?P<velem>.*)> as std::ops::Index(Mut)?<(?P<vidx>.*)>>|std::array::<impl std::ops::Index(Mut)?<(?P<aidx>.*)> for \[.*; \d+\]>|<smallvec::SmallVec<.*> as std::ops::Index(Mut)?<(?P<sidx>.*)>>|core::str::traits::<impl std::ops::Index(Mut)?<(?P<stridx>.*)> for str>)::index(_mut)?$")


@model(IDX.pattern)
def index(c):
    m = IDX.match(c.name)
    idx = m.group("idx") or m.group("vidx") or m.group("aidx") or m.group("sidx") or m.group("stridx")
    ln = c.seq_len(c.args[0])
    km = re.match(r"^std::ops::(Range|RangeFrom|RangeTo|RangeFull|RangeInclusive|RangeToInclusive)(<.*>)?$", idx)
    if km:
        kind = km.group(1)
        lo, hi = range_bounds(c, c.args[1], kind)
        what = "%s index" % kind
        src = c.deref(c.args[0])
        vw = src.view if isinstance(src, Seq) else None
        cp = src.src if isinstance(src, Seq) else None
        if vw is None and isinstance(src, Seq) and c.it.track_content and re.search(r"IndexMut<", c.name) and isinstance(c.args[0], Ref):
            from absint.models_content import container_of, cell_view_id
            got = container_of(c, c.args[0])
            if got is not None:
                vw = (cell_view_id(c.it, got[0], got[1]), Lin.const(0))
        def sub(n_, o_):
            items = None
            if isinstance(src, Seq) and is_listed(src.items):
                a_, k_ = c.st.sys.const_value(o_), c.st.sys.const_value(n_)
                if a_ is not None and k_ is not None and all((int(a_) + i) in src.items.f for i in range(int(k_))):
                    items = Struct({i: src.items.f[int(a_) + i] for i in range(int(k_))}, tag="elems")
            return Seq(n_, None, items, (vw[0], vw[1] + o_) if vw is not None else None, src_window(cp, ln, o_) if vw is None else None)
        if m.group("stridx"):
            # a str may only be cut at a char boundary: 0 and len always are one; any other offset is one only for text the
            # program knows nothing about (an offset that is neither is an obligation nobody can discharge here)
            for b_ in (lo, hi):
                if b_ is not None and not (c.st.sys.entails_eq(b_) or c.st.sys.entails_eq(ln - b_)):
                    c.oblige(False, "index:char-boundary", "str %s: the offset is a char boundary" % what,
                             "offset %r of a str of length %r: only 0 and len are known to be char boundaries" % (c.st.sys.reduce(b_), c.st.sys.reduce(ln)))
        if lo is not None and hi is not None:
            c.require_ge(hi - lo, "index:order", "%s: start <= end" % what)
            c.require_ge(ln - hi, "index:end", "%s: end <= len" % what)
            return [(c.st, sub(hi - lo, lo))]
        if lo is not None:
            c.require_ge(ln - lo, "index:start", "%s: start <= len" % what)
            return [(c.st, sub(ln - lo, lo))]
        if hi is not None:
            c.require_ge(ln - hi, "index:end", "%s: end <= len" % what)
            return [(c.st, sub(hi, Lin.const(0)))]
        return [(c.st, sub(ln, Lin.const(0)))]
    if idx == "usize":
        i = c.num(c.args[1], 1)
        c.require_ge(ln - i - 1, "index:elem", "element index < len")
        rt = c.ret_ty()
        et = c.fr.body.ty(rt["to"]) if rt.get("k") == "ref" else rt
        sv0 = c.deref(c.args[0])
        if c.it.track_content and isinstance(sv0, Seq) and int_range(et) == (0, 255):
            from absint.models_content import container_of, cell_view_id, patch_container
            cur = None
            w_ = sv0.content()
            if src_atom(w_) and not str(w_[0]).startswith("@"):
                # a byte of an identified content: one variable per (content, offset)
                off_ = w_[1] + i
                nm_ = "rd8@%s+%r" % (w_[0], c.st.sys.reduce(off_))
                cur = Num(Lin.var(nm_))
                c.st.sys.add_range(cur.e, 0, 255)
                c.it.purefun[nm_] = set(off_.t)
                c.it.contents.setdefault("bytes", {})[nm_] = (w_[0], off_)
            if re.search(r"IndexMut<", c.name):
                got = container_of(c, c.args[0]) if isinstance(c.args[0], Ref) else None
                if got is not None and got[2].view is None:
                    # `v[i] = x` on an owned byte container: the byte written is whatever the element cell holds afterwards
                    cell = "wb:%s/%d.%d" % (c.fr.id, c.bb, c.part)
                    c.st.cells[cell] = cur if cur is not None else TOP
                    patch_container(c.it, c.st, (cell_view_id(c.it, got[0], got[1]), Lin.const(0)), i, i + 1, ("src", ("cellbyte", cell)))
                    return [(c.st, Ref(cell))]
            elif cur is not None:
                if rt.get("k") == "ref":
                    cell = "%s/%d.%d:elem" % (c.fr.id, c.bb, c.part)
                    c.st.cells[cell] = cur
                    return [(c.st, Ref(cell))]
                return [(c.st, cur)]
        ev = c.it.element_value(c.st, sv0, i, et)
        if ev is not None:
            if rt.get("k") == "ref":
                cell = "%s/%d.%d:elem" % (c.fr.id, c.bb, c.part)
                c.st.cells[cell] = ev
                return [(c.st, Ref(cell))]
            return [(c.st, ev)]
        return [(c.st, c.top_ret())]
    c.oblige(False, "index:unknown", "index kind %s" % idx, "unmodelled index type")
    return None


GETR = re.compile(r"^core::slice::<impl \[.*\]>::get(_mut)?::<(?P<idx>.*)>$")


@model(GETR.pattern)
def slice_get(c):
    """checked indexing: Some(sub-slice / element) iff in bounds"""
    m = GETR.match(c.name)
    idx = m.group("idx")
    ln = c.seq_len(c.args[0])
    src = c.deref(c.args[0])
    km = re.match(r"^std::ops::(Range|RangeFrom|RangeTo|RangeFull|RangeInclusive|RangeToInclusive)(<.*>)?$", idx)
    none = Enum(OPTION, {0: Struct()})
    if km:
        lo, hi = range_bounds(c, c.args[1], km.group(1))
        lo0 = lo if lo is not None else Lin.const(0)
        hi0 = hi if hi is not None else ln
        s_ok = c.st.copy()
        s_ok.sys.add_ge(hi0 - lo0)
        s_ok.sys.add_ge(ln - hi0)
        out = []
        vs = set(ln.t) | set(hi0.t) | set(lo0.t)
        if not s_ok.sys.bottom and c.it.feasible_wrt(s_ok, vs):
            vw = src.view if isinstance(src, Seq) else None
            cp = src.src if isinstance(src, Seq) and vw is None else None
            sub = Seq(hi0 - lo0, None, None, (vw[0], vw[1] + lo0) if vw else None, src_window(cp, ln, lo0))
            out.append((s_ok, Enum(OPTION, {1: Struct({0: sub})})))
        if not (c.st.sys.entails_ge(hi0 - lo0) and c.st.sys.entails_ge(ln - hi0)):
            s_no = c.st.copy()
            if c.st.sys.entails_ge(hi0 - lo0):
                s_no.sys.add_ge(hi0 - ln - 1)      # out of bounds at the end
            if not s_no.sys.bottom and c.it.feasible_wrt(s_no, vs):
                out.append((s_no, none))
        return out
    if idx == "usize":
        i = c.num(c.args[1], 1)
        s_ok = c.st.copy()
        s_ok.sys.add_ge(ln - i - 1)
        s_no = c.st.copy()
        s_no.sys.add_ge(i - ln)
        out = []
        if not s_ok.sys.bottom and c.it.feasible_wrt(s_ok, set(ln.t) | set(i.t)):
            ev = None
            at = c.arg_ty(0)
            if at.get("k") in ("ref", "ptr"):
                at = c.fr.body.ty(at["to"])
            if at.get("k") in ("slice", "array"):
                ev = c.it.element_value(s_ok, src, i, c.fr.body.ty(at["of"]))
            if ev is not None:
                cell = "%s/%d.%d:elem" % (c.fr.id, c.bb, c.part)
                s_ok.cells[cell] = ev
                out.append((s_ok, Enum(OPTION, {1: Struct({0: Ref(cell)})})))
            else:
                r = c.top_ret(s_ok)
                out.append((s_ok, r.only(1) if isinstance(r, Enum) and 1 in r.v else r))
        if not s_no.sys.bottom and c.it.feasible_wrt(s_no, set(ln.t) | set(i.t)):
            out.append((s_no, none))
        return out
    return [(c.st, c.top_ret())]


@model(r"^core::slice::<impl \[.*\]>::(copy_from_slice|clone_from_slice)$")
def copy_from_slice(c):
    a, b = c.seq_len(c.args[0]), c.seq_len(c.args[1])
    ok = c.st.sys.entails_eq(a - b)
    c.oblige(ok, "copy_from_slice:len", "destination and source lengths are equal",
             None if ok else "cannot show %r == %r" % (c.st.sys.reduce(a), c.st.sys.reduce(b)))
    c.st.sys.add_eq(a - b)
    dst = c.deref(c.args[0])
    if isinstance(dst, Seq) and dst.view is not None and str(dst.view[0]).startswith("@"):
        from absint.models_content import patch_container
        sv = c.deref(c.args[1])
        patch_container(c.it, c.st, dst.view, Lin.const(0), a, ("src", sv.content() if isinstance(sv, Seq) and sv.content() is not None else ("unknown:copy", Lin.const(0))))
        return [(c.st, Struct())]
    c.it.record_write(c.st, dst, Lin.const(0), a, "data")
    return [(c.st, Struct())]


@model(r"^core::slice::<impl \[.*\]>::split_at(_mut)?$")
def split_at(c):
    ln = c.seq_len(c.args[0])
    mid = c.num(c.args[1], 1)
    c.require_ge(ln - mid, "split_at", "mid <= len")
    src = c.deref(c.args[0])
    vw = src.view if isinstance(src, Seq) else None
    cp = src.src if isinstance(src, Seq) and vw is None else None
    return [(c.st, Struct({0: Seq(mid, None, None, vw, src_window(cp, ln, Lin.const(0))), 1: Seq(ln - mid, None, None, (vw[0], vw[1] + mid) if vw else None, src_window(cp, ln, mid))}))]


@model(r"^core::slice::<impl \[.*\]>::(fill|reverse|sort|sort_unstable|swap_with_slice)$")
def slice_fill(c):
    if c.name.endswith("::fill"):
        d = c.deref(c.args[0])
        if isinstance(d, Seq):
            c.it.record_write(c.st, d, Lin.const(0), d.len, "zero" if c.it.is_zero_value(c.st, c.deref(c.args[1])) else "data")
    return [(c.st, Struct())]


@model(r"^core::slice::<impl \[.*\]>::(contains|starts_with|ends_with)$|^core::slice::<impl \[.*\]>::(first|last|iter\(\))$")
def slice_query(c):
    return [(c.st, c.top_ret())]


@model(r"^core::slice::<impl \[.*\]>::(iter|iter_mut)$|^<&(mut )?std::vec::Vec<.*> as std::iter::IntoIterator>::into_iter$|^<&(mut )?\[.*\] as std::iter::IntoIterator>::into_iter$")
def slice_iter(c):
    src = c.deref(c.args[0])
    if c.it.track_content and ("iter_mut" in c.name or "<&mut " in c.name) and isinstance(src, Seq):
        # the elements may be written through the iterator: whatever was known about the bytes is forgotten now
        a0 = c.args[0]
        if isinstance(a0, Ref):
            cur = c.it.load(c.st, a0.cell, a0.path)
            if isinstance(cur, Seq) and (cur.items is not None or cur.src is not None) and cur.view is None:
                c.it.store(c.st, a0.cell, a0.path, Seq(cur.len, cur.elem, None, None, None))
        if src.view is not None and str(src.view[0]).startswith("@"):
            from absint.models_content import patch_container
            patch_container(c.it, c.st, src.view, Lin.const(0), src.len, ("be", 0, None))
        src = Seq(src.len, src.elem, None, src.view, None)
    if isinstance(src, Seq) and c.it.track_content and (isinstance(src.items, Empty) or c.st.sys.entails_eq(src.len)):
        return [(c.st, Iter(Lin.const(0), False, "iter", None, Struct({}, tag="elems")))]
    if isinstance(src, Seq) and c.it.byte_defs and "iter_mut" not in c.name and src_atom(src.content()) and not str(src.content()[0]).startswith("@"):
        n_ = c.st.sys.const_value(src.len)
        at_ = c.arg_ty(0)
        at_ = c.fr.body.ty(at_["to"]) if at_.get("k") in ("ref", "ptr") else at_
        if n_ is not None and 0 < n_ <= 16 and at_.get("k") in ("slice", "array") and int_range(c.fr.body.ty(at_["of"])) == (0, 255):
            # a short window of an identified content: its bytes one by one
            from absint.models_content import byte_var
            refs = {}
            for i in range(int(n_)):
                cell = "%s/%d.%d:ib%d" % (c.fr.id, c.bb, c.part, i)
                c.st.cells[cell] = Num(byte_var(c, src.content(), i))
                refs[i] = Ref(cell)
            return [(c.st, Iter(src.len, False, "iter", None, Struct(refs, tag="elems")))]
    if isinstance(src, Seq) and is_listed(src.items) and c.it.track_content and "iter_mut" not in c.name:
        # a short list whose elements are known one by one: the iterator hands out references to them, in order
        refs = {}
        for i in sorted(src.items.f):
            cell = "%s/%d.%d:it%d" % (c.fr.id, c.bb, c.part, i)
            c.st.cells[cell] = src.items.f[i]
            refs[i] = Ref(cell)
        return [(c.st, Iter(src.len, False, "iter", None, Struct(refs, tag="elems")))]
    return [(c.st, Iter(c.seq_len(c.args[0])))]


@model(r"^core::slice::<impl \[.*\]>::chunks_exact(_mut)?$|^core::slice::<impl \[.*\]>::chunks(_mut)?$")
def chunks(c):
    n = c.num(c.args[1], 1)
    c.require_ge(n - 1, "chunks:size", "chunk size is not zero")
    exact = "chunks_exact" in c.name
    return [(c.st, Iter(c.seq_len(c.args[0]), False, "chunks", n if exact else None, Seq(n) if exact else None))]


@model(r"^<std::slice::Iter(Mut)?<.*> as std::iter::Iterator>::enumerate$|^<std::slice::ChunksExact<.*> as std::iter::Iterator>::enumerate$")
def iter_enumerate(c):
    v = c.deref(c.args[0])
    if isinstance(v, Iter):
        return [(c.st, Iter(v.len, True, v.kind, v.chunk))]
    return None


@model(r"^<std::slice::(Iter|IterMut|ChunksExact|Chunks)(Mut)?<.*> as std::iter::Iterator>::zip::<")
def iter_zip(c):
    a, b = c.deref(c.args[0]), c.deref(c.args[1])
    if isinstance(a, Iter) and isinstance(b, Iter):
        ia = summ(a.items) if isinstance(summ(a.items), V) and not isinstance(a.items, Empty) else TOP
        ib = summ(b.items) if isinstance(summ(b.items), V) and not isinstance(b.items, Empty) else TOP
        return [(c.st, Iter(a.len, False, "zip", None, Struct({0: ia, 1: ib})))]
    for x in c.args:
        c.escape(x)
    return [(c.st, c.top_ret())]


@model(r"^<std::iter::Zip<.*> as std::iter::Iterator>::next$")
def zip_next(c):
    v = c.deref(c.args[0])
    none = Enum(OPTION, {0: Struct()})
    if isinstance(v, Iter) and isinstance(v.items, V):
        return [(c.st, none), (c.st.copy(), Enum(OPTION, {1: Struct({0: v.items})}))]
    c.havoc_mut_args()
    return [(c.st, c.top_ret())]


@model(r"^<(std::iter::Enumerate<)?std::slice::(Iter|IterMut|ChunksExact|Chunks)(Mut)?<.*>>? as std::iter::IntoIterator>::into_iter$|^<std::iter::Enumerate<.*> as std::iter::IntoIterator>::into_iter$|^<std::iter::(Map|Filter|Rev|Take|Skip|Zip|Cloned|Copied)<.*> as std::iter::IntoIterator>::into_iter$|^<std::vec::IntoIter<.*> as std::iter::IntoIterator>::into_iter$|^<std::ops::Range<.*> as std::iter::IntoIterator>::into_iter$")
def into_iter_id(c):
    return [(c.st, c.args[0])]


@model(r"^<(std::iter::Enumerate<)?std::slice::(Iter|IterMut|ChunksExact|Chunks)(Mut)?<.*>>? as std::iter::Iterator>::next$")
def std_iter_next(c):
    v = c.deref(c.args[0])
    none = Enum(OPTION, {0: Struct()})
    if isinstance(v, Iter) and v.enumerated:
        st2 = c.st.copy()
        i = c.it.fresh_num(st2, 0, None, "i")
        st2.sys.add_ge(v.len - i.e - 1)
        rt = c.ret_ty()
        # Some((i, elem))
        return [(c.st, none), (st2, Enum(OPTION, {1: Struct({0: Struct({0: i, 1: TOP})})}))]
    if isinstance(v, Iter) and not v.enumerated and is_listed(v.items) and isinstance(c.args[0], Ref) and not v.maps:
        # an explicit list of elements: handed out one by one, in order
        idx = sorted(v.items.f)
        if not idx:
            c.st.cells["ghost:listed"] = Num(Lin.const(0))
            return [(c.st, none)]
        rest = Iter(Lin.const(len(idx) - 1), False, v.kind, None, Struct({i: v.items.f[i] for i in idx[1:]}, tag="elems"))
        c.it.store(c.st, c.args[0].cell, c.args[0].path, rest)
        from absint.interp import event
        event(c.st, "next", idx[0])
        c.st.cells["ghost:listed"] = Num(Lin.const(1))
        return [(c.st, Enum(OPTION, {1: Struct({0: v.items.f[idx[0]]})}))]
    if isinstance(v, Iter) and is_listed(v.items):
        v = Iter(v.len, v.enumerated, v.kind, v.chunk, summ(v.items), v.maps)
    if isinstance(v, Iter) and not v.enumerated and v.kind in ("iter", "vec") and isinstance(c.args[0], Ref) and not v.maps:
        # exact-size iterator: Some consumes one item, None means exhausted
        st2 = c.st.copy()
        st2.sys.add_ge(v.len - 1)
        c.st.sys.add_eq(v.len)
        out = []
        if not c.st.sys.bottom and c.it.feasible_wrt(c.st, v.len.t):
            out.append((c.st, none))
        if not st2.sys.bottom and c.it.feasible_wrt(st2, v.len.t):
            c.it.store(st2, c.args[0].cell, c.args[0].path, Iter(v.len - 1, False, v.kind, None, v.items))
            item = v.items if isinstance(v.items, V) and not isinstance(v.items, Empty) else None
            if item is None:
                r = c.top_ret(st2)
                item = r.v[1].get(0) if isinstance(r, Enum) and 1 in r.v else TOP
            out.append((st2, Enum(OPTION, {1: Struct({0: item})})))
        return out
    st2 = c.st.copy()
    if isinstance(v, Iter) and v.chunk is not None:
        return [(c.st, none), (st2, Enum(OPTION, {1: Struct({0: Seq(v.chunk)})}))]
    if isinstance(v, Iter) and isinstance(v.items, V) and not isinstance(v.items, Empty) and not v.maps:
        return [(c.st, none), (st2, Enum(OPTION, {1: Struct({0: v.items})}))]
    r = c.top_ret(st2)
    some = r.only(1) if isinstance(r, Enum) else TOP
    return [(c.st, none), (st2, some if some is not None else TOP)]


# ------------------------------------------------------------------------------------------- byteorder

@model(r"^<byteorder::(BigEndian|LittleEndian) as byteorder::ByteOrder>::(read|write)_(u|i)(16|24|32|48|64|128)$")
def byteorder_rw(c):
    m = re.search(r"::(read|write)_[ui](\d+)$", c.name)
    n = int(m.group(2)) // 8
    ln = c.seq_len(c.args[0])
    c.require_ge(ln - n, "byteorder:%s" % m.group(1), "buffer holds at least %d bytes" % n)
    if m.group(1) == "read":
        d = c.deref(c.args[0])
        w = d.content() if isinstance(d, Seq) else None
        if src_atom(w):
            # the same bytes read twice give the same number: one variable per (buffer, offset, width)
            name = "rd%d@%s+%r" % (n * 8, w[0], c.st.sys.reduce(w[1]))
            t = c.ret_ty()
            lo_, hi_ = int_range(t)
            e = Lin.var(name)
            c.st.sys.add_range(e, lo_, hi_)
            c.it.purefun[name] = set(w[1].t)
            c.it.contents.setdefault("reads", {})[name] = (w[0], w[1], n)
            if c.it.byte_defs and not str(w[0]).startswith("@"):
                from absint.models_content import define_over_bytes
                define_over_bytes(c, e, w, n)
            if c.it.track_content:
                # the value read and where it was read stay among the facts of the path
                # (one cell per read site: the latest read there; joins across loop iterations keep what they agree on)
                c.st.cells["ghost:rd:%s:%d:%s:%d" % (c.fr.body.key, c.bb, w[0], n)] = Struct({0: Num(e), 1: Num(w[1])})
            return [(c.st, Num(e))]
        if w is not None and c.it.track_content:
            # a composed content (patched / concatenated): the window read may be exactly the big-endian bytes of a number
            from absint.models_content import segments, cut
            segs = segments(c.st, w, d.len)
            if segs is not None:
                part = cut(c.st, segs, Lin.const(0), Lin.const(n))
                if len(part) == 1 and part[0][0] == "be" and part[0][1] == n and part[0][2] is not None:
                    if "BigEndian" in c.name:
                        return [(c.st, Num(part[0][2]))]
                    # the bytes of a big-endian number read the other way round: a named function of that number
                    from absint.interp import hash_str
                    nm_ = "bswap%d_%x" % (n * 8, hash_str("%r" % (c.st.sys.reduce(part[0][2]),)) & 0xffffffffffff)
                    e_ = Lin.var(nm_)
                    lo_, hi_ = int_range(c.ret_ty())
                    c.st.sys.add_range(e_, lo_, hi_)
                    c.it.purefun[nm_] = set(part[0][2].t)
                    return [(c.st, Num(e_))]
            if n <= 8 and "BigEndian" in c.name:
                # the window straddles several known pieces: the number is assembled from their bytes (a known function of them)
                from absint.models_content import bytes_of_window
                bs = bytes_of_window(c, d, n)
                if bs is not None:
                    acc = Lin.const(0)
                    for k_, bv in enumerate(bs):
                        acc = acc + bv.scale(1 << (8 * (n - 1 - k_)))
                    return [(c.st, Num(acc))]
        return [(c.st, c.top_ret())]
    dst = c.deref(c.args[0])
    if isinstance(dst, Seq) and dst.view is not None and str(dst.view[0]).startswith("@"):
        from absint.models_content import patch_container
        val = c.args[1] if len(c.args) > 1 else None
        le = "LittleEndian" in c.name and n > 1
        patch_container(c.it, c.st, dst.view, Lin.const(0), Lin.const(n), ("be", n, (val.e if isinstance(val, Num) else None) if not le else None, "le" if le else "be"))
        return [(c.st, Struct())]
    c.it.record_write(c.st, dst, Lin.const(0), Lin.const(n), "data")
    return [(c.st, Struct())]


# ------------------------------------------------------------------------------------------- Option / Result / Try

@model(r"^<std::result::Result<.*> as std::ops::Try>::branch$")
def result_branch(c):
    v = c.args[0]
    out = []
    if not isinstance(v, Enum):
        v = c.top_ret()
        return [(c.st, v)]
    vs = {}
    if 0 in v.v:
        vs[0] = Struct({0: v.v[0].get(0)})                        # Continue(val)
    if 1 in v.v:
        vs[1] = Struct({0: Enum(RESULT, {1: Struct({0: v.v[1].get(0)})})})   # Break(Err(e))
    return [(c.st, Enum(CFLOW, vs))]


@model(r"^<std::option::Option<.*> as std::ops::Try>::branch$")
def option_branch(c):
    v = c.args[0]
    if not isinstance(v, Enum):
        return [(c.st, c.top_ret())]
    vs = {}
    if 1 in v.v:
        vs[0] = Struct({0: v.v[1].get(0)})
    if 0 in v.v:
        vs[1] = Struct({0: Enum(OPTION, {0: Struct()})})
    return [(c.st, Enum(CFLOW, vs))]


FROM_RES = re.compile(r"^<std::result::Result<(?P<t>.*), (?P<f>[^,]*)> as std::ops::FromResidual<std::result::Result<std::convert::Infallible, (?P<e>.*)>>>::from_residual$")


@model(r"^<std::result::Result<.*> as std::ops::FromResidual<std::result::Result<std::convert::Infallible, .*>>>::from_residual$")
def result_from_residual(c):
    v = c.args[0]
    m = FROM_RES.match(c.name)
    same = bool(m) and m.group("f").strip() == m.group("e").strip()
    if isinstance(v, Enum) and 1 in v.v and same:
        return [(c.st, Enum(RESULT, {1: Struct({0: v.v[1].get(0)})}))]
    r = c.top_ret()
    if isinstance(r, Enum):
        r = r.only(1) or r
    return [(c.st, r)]


@model(r"^<std::option::Option<.*> as std::ops::FromResidual<std::option::Option<std::convert::Infallible>>>::from_residual$")
def option_from_residual(c):
    return [(c.st, Enum(OPTION, {0: Struct()}))]


@model(r"^std::result::Result::<.*>::(unwrap|expect)$|^std::option::Option::<.*>::(unwrap|expect)$")
def unwrap(c):
    v = c.args[0]
    is_res = c.name.startswith("std::result::Result")
    good, bad = (0, 1) if is_res else (1, 0)
    what = "Ok" if is_res else "Some"
    if isinstance(v, Enum):
        ok = bad not in v.v or not c.st.sys.feasible()
        c.oblige(ok, "unwrap", "value is %s" % what, None if ok else "the %s variant is possible here" % ("Err" if is_res else "None"))
        if good in v.v:
            return [(c.st, v.v[good].get(0))]
        return []
    c.oblige(False, "unwrap", "value is %s" % what, "value unknown")
    r = c.top_ret()
    return [(c.st, r)]


@model(r"^std::result::Result::<.*>::(unwrap_err|expect_err)$")
def unwrap_err(c):
    v = c.args[0]
    if isinstance(v, Enum):
        ok = 0 not in v.v
        c.oblige(ok, "unwrap_err", "value is Err", None if ok else "Ok possible")
        if 1 in v.v:
            return [(c.st, v.v[1].get(0))]
        return []
    c.oblige(False, "unwrap_err", "value is Err", "value unknown")
    return None


@model(r"^std::result::Result::<.*>::(is_ok|is_err)$|^std::option::Option::<.*>::(is_some|is_none)$")
def is_variant(c):
    v = c.deref(c.args[0])
    want = {"is_ok": 0, "is_err": 1, "is_some": 1, "is_none": 0}[c.name.rsplit("::", 1)[1]]
    if isinstance(v, Enum):
        if set(v.v) == {want}:
            return [(c.st, Cond("const", True))]
        if want not in v.v:
            return [(c.st, Cond("const", False))]
        if isinstance(c.args[0], Ref):
            d = DiscrOf(c.args[0].cell, c.args[0].path, v.adt)
            return [(c.st, Cond("discr", d, c.it.variant_discr(v.adt, want)))]
    return [(c.st, TOP)]


@model(r"^std::result::Result::<.*>::map_err::<")
def map_err(c):
    v, f = c.args[0], c.args[1]
    out = []
    if not isinstance(v, Enum):
        c.escape(f)
        return None
    if 0 in v.v:
        out.append((c.st.copy() if 1 in v.v else c.st, Enum(RESULT, {0: v.v[0]})))
    if 1 in v.v:
        res = c.call_closure(c.st, f, [v.v[1].get(0)], "me")
        if res is None:
            c.escape(f)
            r = c.top_ret()
            out.append((c.st, r.only(1) if isinstance(r, Enum) else r))
        else:
            for st2, ret in res:
                out.append((st2, Enum(RESULT, {1: Struct({0: ret})})))
    return out


@model(r"^std::result::Result::<.*>::map::<|^std::option::Option::<.*>::map::<")
def map_ok(c):
    v, f = c.args[0], c.args[1]
    is_res = c.name.startswith("std::result::Result")
    good, bad = (0, 1) if is_res else (1, 0)
    adt = RESULT if is_res else OPTION
    if not isinstance(v, Enum):
        c.escape(f)
        return None
    out = []
    if bad in v.v:
        out.append((c.st.copy() if good in v.v else c.st, Enum(adt, {bad: v.v[bad]})))
    if good in v.v:
        res = c.call_closure(c.st, f, [v.v[good].get(0)], "mp")
        if res is None:
            c.escape(f)
            r = c.top_ret()
            out.append((c.st, r.only(good) if isinstance(r, Enum) else r))
        else:
            for st2, ret in res:
                out.append((st2, Enum(adt, {good: Struct({0: ret})})))
    return out


@model(r"^std::result::Result::<.*>::and_then::<|^std::option::Option::<.*>::and_then::<")
def and_then(c):
    v, f = c.args[0], c.args[1]
    is_res = c.name.startswith("std::result::Result")
    good, bad = (0, 1) if is_res else (1, 0)
    adt = RESULT if is_res else OPTION
    if not isinstance(v, Enum):
        c.escape(f)
        return None
    out = []
    if bad in v.v:
        out.append((c.st.copy() if good in v.v else c.st, Enum(adt, {bad: v.v[bad]})))
    if good in v.v:
        res = c.call_closure(c.st, f, [v.v[good].get(0)], "at")
        if res is None:
            c.escape(f)
            out.append((c.st, c.top_ret()))
        else:
            out.extend(res)
    return out


@model(r"^std::option::Option::<.*>::ok_or::<")
def ok_or(c):
    v, e = c.args[0], c.args[1]
    if not isinstance(v, Enum):
        return None
    vs = {}
    if 1 in v.v:
        vs[0] = Struct({0: v.v[1].get(0)})
    if 0 in v.v:
        vs[1] = Struct({0: e})
    return [(c.st, Enum(RESULT, vs))]


@model(r"^std::option::Option::<.*>::filter::<")
def option_filter(c):
    v, f = c.args[0], c.args[1]
    if not isinstance(v, Enum):
        c.escape(f)
        return None
    out = []
    if 0 in v.v:
        out.append((c.st.copy() if 1 in v.v else c.st, Enum(OPTION, {0: Struct()})))
    if 1 in v.v:
        cell = "%s/%d.%d:flt" % (c.fr.id, c.bb, c.part)
        c.st.cells[cell] = v.v[1].get(0)
        res = c.call_closure(c.st, f, [Ref(cell)], "fl")
        if res is None:
            c.escape(f)
            out.append((c.st, Enum(OPTION, {0: Struct(), 1: v.v[1]})))
        else:
            for st2, ret in res:
                out.append((st2, Enum(OPTION, {0: Struct(), 1: v.v[1]})))
    return out


@model(r"^std::option::Option::<.*>::ok_or_else::<|^std::option::Option::<.*>::unwrap_or_else::<|^std::result::Result::<.*>::unwrap_or_else::<|^std::option::Option::<.*>::(map_or|map_or_else)::<|^std::result::Result::<.*>::(map_or|map_or_else|or_else)::<")
def hof_opaque(c):
    for a in c.args[1:]:
        c.escape(a)
    return None


@model(r"^std::result::Result::<.*>::ok$")
def result_ok(c):
    v = c.args[0]
    if not isinstance(v, Enum):
        return None
    vs = {}
    if 0 in v.v:
        vs[1] = Struct({0: v.v[0].get(0)})
    if 1 in v.v:
        vs[0] = Struct()
    return [(c.st, Enum(OPTION, vs))]


@model(r"^std::option::Option::<.*>::(cloned|copied)$|^<std::option::Option<.*> as std::clone::Clone>::clone$|^<std::result::Result<.*> as std::clone::Clone>::clone$")
def option_cloned(c):
    v = c.deref(c.args[0])
    if isinstance(v, Enum):
        vs = {}
        for i, s in v.v.items():
            vs[i] = Struct({k: c.deref(x) if c.name.endswith(("cloned", "copied")) else x for k, x in s.f.items()})
        return [(c.st, Enum(v.adt, vs))]
    return None


@model(r"^std::option::Option::<.*>::(as_ref|as_mut|as_deref|take|unwrap_or|unwrap_or_default|or|and|filter|is_some_and|iter)$|^std::result::Result::<.*>::(as_ref|as_mut|unwrap_or|unwrap_or_default|err|iter)$")
def option_misc(c):
    v = c.args[0]
    if re.search(r"::unwrap_or$", c.name) and isinstance(v, Enum) and len(c.args) == 2:
        # one outcome per variant (the caller's states are kept apart by the variant of the option)
        out = []
        for i, s_ in sorted(v.v.items()):
            st_i = c.st if len(v.v) == 1 else c.st.copy()
            out.append((st_i, s_.get(0) if (i == 1) == (v.adt == OPTION) else c.args[1]))
        return out
    for a in c.args[1:]:
        c.escape(a)
    if c.name.endswith("::take"):
        c.havoc_mut_args()
    return [(c.st, c.top_ret())]


# ------------------------------------------------------------------------------------------- conversions

INTO = re.compile(r"^<(?P<t>.*) as std::convert::(?P<kind>Into|TryInto)<(?P<u>.*)>>::(into|try_into)$")


def _strip_lt(s):
    s = re.sub(r"'[a-z_0-9]+\s*", "", s)
    s = s.replace("<>", "")
    return re.sub(r"\s+", " ", s).strip()


@model(r"^<.* as std::convert::Into<.*>>::into$")
def into(c):
    m = INTO.match(c.name)
    t, u = _strip_lt(m.group("t")), _strip_lt(m.group("u"))
    # a workspace `impl From<T> for U`
    for path, i in c.it.prog.trait_method_impls("std::convert::From", "from"):
        if path in c.it.prog.bodies and _strip_lt(i["self_s"]) == u:
            mm = re.match(r"^<.* as std::convert::From<(.*)>>::from$", _strip_lt(path)) or \
                re.match(r"^.*<impl std::convert::From<(.*)> for .*>::from$", _strip_lt(path))
            if mm and mm.group(1) == t:
                return c.it.call_local(c.st, c.fr, c.bb, path, c.args, c.term, part=c.part)
    if t == u:
        return [(c.st, c.args[0])]
    ta, tr = c.arg_ty(0), c.ret_ty()
    if int_range(ta) is not None and int_range(tr) is not None:
        e = c.num(c.args[0], 0)
        if c.it.fits(c.st, e, tr):
            return [(c.st, Num(e))]
        return [(c.st, c.top_ret())]
    v = c.deref(c.args[0])
    if isinstance(v, Seq) and (u.startswith(("std::boxed::Box<[", "std::vec::Vec<", "std::string::String")) or u.startswith("&[")):
        return [(c.st, Seq(v.len, None, None, v.view if u.startswith("&[") else None, v.src if u.startswith("&[") else v.content()))]
    return None


@model(r"^std::convert::num::<impl std::convert::(From|TryFrom)<[ui](8|16|32|64|128|size)> for [ui](8|16|32|64|128|size)>::(from|try_from)$|^std::boxed::convert::<impl std::convert::From<.*> for std::boxed::Box<.*>>::from$|^<.* as std::convert::From<.*>>::from$|^std::convert::num::|^alloc::boxed::convert::")
def from_(c):
    ta, tr = c.arg_ty(0), c.ret_ty()
    if int_range(ta) is not None and int_range(tr) is not None:
        e = c.num(c.args[0], 0)
        if c.it.fits(c.st, e, tr):
            return [(c.st, Num(e))]
    v = c.deref(c.args[0])
    if isinstance(v, Seq) and tr.get("k") == "adt" and tr["path"] in ("std::boxed::Box", "std::vec::Vec", "std::string::String"):
        return [(c.st, Seq(v.len, None, None, None, v.content()))]
    if int_range(ta) is not None and tr.get("k") == "adt" and tr["path"] == "std::result::Result":
        args_ = tr.get("args", [])
        inner = c.fr.body.ty(args_[0]) if args_ else {}
        if int_range(inner) is not None:
            e = c.num(c.args[0], 0)
            if c.it.fits(c.st, e, inner):
                return [(c.st, Enum(RESULT, {0: Struct({0: Num(e)})}))]
            s_ok = c.st.copy()
            lo_, hi_ = int_range(inner)
            s_ok.sys.add_range(e, lo_, hi_)
            return [(s_ok, Enum(RESULT, {0: Struct({0: Num(e)})})), (c.st, Enum(RESULT, {1: Struct({0: TOP})}))]
    return None


TRY_ARR = re.compile(r"^<&(mut )?\[(?P<e>.*)\] as std::convert::TryInto<(&)?\[(?P<e2>.*); (?P<n>\d+)\]>>::try_into$|^<(&)?\[(?P<e3>.*); (?P<n2>\d+)\] as std::convert::TryFrom<&(mut )?\[.*\]>>::try_from$")


@model(r"^<.* as std::convert::TryInto<.*>>::try_into$|^<.* as std::convert::TryFrom<.*>>::try_from$")
def try_into(c):
    m = TRY_ARR.match(c.name)
    if m:
        n = int(m.group("n") or m.group("n2"))
        ln = c.seq_len(c.args[0])
        out = []
        s_ok = c.st.copy()
        s_ok.sys.add_eq(ln - n)
        if not s_ok.sys.bottom and c.it.feasible_wrt(s_ok, ln.t):
            rt = c.ret_ty()
            # Ok(&[T;N]) or Ok([T;N])
            cell = "%s/%d.%d:arr" % (c.fr.id, c.bb, c.part)
            sv_ = c.deref(c.args[0])
            okp = Seq(Lin.const(n), None, None, None, sv_.content() if isinstance(sv_, Seq) else None)     # the same bytes
            args = rt.get("args", [])
            inner = c.fr.body.ty(args[0]) if args else {}
            if inner.get("k") == "ref":
                s_ok.cells[cell] = okp
                okp = Ref(cell)
            out.append((s_ok, Enum(RESULT, {0: Struct({0: okp})})))
        if not c.st.sys.entails_eq(ln - n):
            s_err = c.st.copy()
            out.append((s_err, Enum(RESULT, {1: Struct({0: TOP})})))
        return out
    ta, tr = c.arg_ty(0), c.ret_ty()
    if int_range(ta) is not None:
        # integer TryFrom: Ok iff in range
        args = tr.get("args", [])
        inner = c.fr.body.ty(args[0]) if args else {}
        if int_range(inner) is not None:
            e = c.num(c.args[0], 0)
            if c.it.fits(c.st, e, inner):
                return [(c.st, Enum(RESULT, {0: Struct({0: Num(e)})}))]
            s_ok = c.st.copy()
            lo, hi = int_range(inner)
            s_ok.sys.add_range(e, lo, hi)
            return [(s_ok, Enum(RESULT, {0: Struct({0: Num(e)})})), (c.st, Enum(RESULT, {1: Struct({0: TOP})}))]
    return None


@model(r"^std::str::from_utf8$|^core::str::from_utf8$|^std::str::from_utf8_mut$")
def from_utf8(c):
    ln = c.seq_len(c.args[0])
    src = c.deref(c.args[0])
    cp = src.content() if isinstance(src, Seq) and c.it.track_content else None       # the str is the same bytes
    return [(c.st, Enum(RESULT, {0: Struct({0: Seq(ln, None, None, None, cp)}), 1: Struct({0: TOP})}))]


@model(r"^std::string::String::from_utf8$")
def string_from_utf8(c):
    ln = c.seq_len(c.args[0])
    src = c.deref(c.args[0])
    cp = src.content() if isinstance(src, Seq) and c.it.track_content else None
    return [(c.st, Enum(RESULT, {0: Struct({0: Seq(ln, None, None, None, cp)}), 1: Struct({0: TOP})}))]


@model(r"^std::string::String::from_utf8_lossy$|^<str as std::string::ToString>::to_string|^<.* as std::string::ToString>::to_string$")
def to_string(c):
    return [(c.st, c.top_ret())]


# ------------------------------------------------------------------------------------------- comparisons / clones of scalars

@model(r"^std::cmp::impls::<impl std::cmp::PartialEq for (u|i)(8|16|32|64|128|size)>::(eq|ne)$|^std::cmp::impls::<impl std::cmp::PartialEq for bool>::(eq|ne)$")
def int_eq(c):
    a, b = c.deref(c.args[0]), c.deref(c.args[1])
    if isinstance(a, Num) and isinstance(b, Num):
        cnd = c.it.simplify_cond(c.st, Cond("cmp", "eq", a.e, b.e))
        if c.name.endswith("::ne"):
            cnd = c.it.simplify_cond(c.st, Cond("not", cnd))
        return [(c.st, cnd)]
    return [(c.st, TOP)]


@model(r"^std::cmp::impls::<impl std::cmp::PartialOrd for (u|i)(8|16|32|64|128|size)>::(lt|le|gt|ge)$")
def int_ord(c):
    a, b = c.deref(c.args[0]), c.deref(c.args[1])
    if isinstance(a, Num) and isinstance(b, Num):
        op = c.name.rsplit("::", 1)[1]
        cnd = {"lt": Cond("cmp", "lt", a.e, b.e), "le": Cond("cmp", "le", a.e, b.e),
               "gt": Cond("cmp", "lt", b.e, a.e), "ge": Cond("cmp", "le", b.e, a.e)}[op]
        return [(c.st, c.it.simplify_cond(c.st, cnd))]
    return [(c.st, TOP)]


@model(r"^<stun_(types|proto)::.* as std::cmp::PartialEq(<.*>)?>::ne$")
def local_ne(c):
    """the provided `ne` of a workspace type: !eq"""
    m = re.match(r"^<(.*) as std::cmp::PartialEq(<.*>)?>::ne$", c.name)
    want = _strip_lt(m.group(1))
    for path, i in c.it.prog.trait_method_impls("std::cmp::PartialEq", "eq"):
        if path in c.it.prog.bodies and _strip_lt(i["self_s"]) == want:
            res = c.it.call_local(c.st, c.fr, c.bb, path, c.args, c.term, part=c.part)
            out = []
            for st2, ret in res:
                cnd = c.it.as_cond(ret)
                out.append((st2, c.it.simplify_cond(st2, Cond("not", cnd)) if cnd is not None else TOP))
            return out
    return [(c.st, TOP)]


@model(r"^std::cmp::impls::<impl std::cmp::(PartialEq|PartialOrd|Ord|Eq)(<.*>)? for .*>::|^std::array::equality::<impl std::cmp::PartialEq(<.*>)? for \[.*\]>::(eq|ne)$|^std::vec::partial_eq::<impl std::cmp::PartialEq(<.*>)? for .*>::(eq|ne)$"
       r"|^<std::boxed::Box<.*> as std::cmp::PartialEq>::(eq|ne)$|^core::slice::cmp::<impl std::cmp::PartialEq(<.*>)? for \[.*\]>::(eq|ne)$|^<std::string::String as std::cmp::PartialEq(<.*>)?>::(eq|ne)$"
       r"|^core::str::traits::<impl std::cmp::PartialEq for str>::(eq|ne)$|^<.* as std::cmp::(PartialEq|PartialOrd|Ord)(<.*>)?>::(eq|ne|cmp|partial_cmp|lt|le|gt|ge|max|min)$|^std::cmp::(max|min)::<")
def opaque_cmp(c):
    return [(c.st, c.top_ret())]


@model(r"^std::clone::impls::<impl std::clone::Clone for .*>::clone$|^<.* as std::clone::Clone>::clone$")
def clone_scalar(c):
    v = c.deref(c.args[0])
    if isinstance(v, (Num, Seq, Cond)):
        return [(c.st, v)]
    if isinstance(v, (Struct, Enum)):
        return [(c.st, v)]
    return [(c.st, c.top_ret())]


@model(r"^<&(usize|u8|u16|u32|u64|u128) as std::ops::(Add|Sub)<(&)?(usize|u8|u16|u32|u64|u128)>>::(add|sub)$|^<(usize|u8|u16|u32|u64|u128) as std::ops::(Add|Sub)<&(usize|u8|u16|u32|u64|u128)>>::(add|sub)$")
def ref_arith(c):
    a, b = c.num(c.args[0]), c.num(c.args[1])
    t = c.ret_ty()
    lo, hi = int_range(t)
    if c.name.endswith("::add"):
        e = a + b
        c.require_ge(Lin.const(hi) - e, "overflow:add", "no overflow in Add (through references)")
    else:
        e = a - b
        c.require_ge(e, "overflow:sub", "no overflow in Sub (through references)")
    return [(c.st, Num(e))]


# ------------------------------------------------------------------------------------------- ranges

@model(r"^std::ops::RangeInclusive::<.*>::new$")
def range_incl_new(c):
    return [(c.st, Struct({0: c.args[0], 1: c.args[1], 2: Cond("const", False)}))]


RB = re.compile(r"^<std::ops::(?P<kind>Range|RangeFrom|RangeTo|RangeFull|RangeInclusive|RangeToInclusive)(<.*>)? as std::ops::RangeBounds<.*>>::(?P<which>start|end)_bound$")


@model(RB.pattern)
def range_bound(c):
    m = RB.match(c.name)
    kind, which = m.group("kind"), m.group("which")
    r = c.args[0]

    def fld(i):
        if isinstance(r, Ref):
            return Ref(r.cell, r.path + (("f", i),))
        cell = "%s/%d.%d:rb%d" % (c.fr.id, c.bb, c.part, i)
        v = c.deref(r)
        c.st.cells[cell] = v.get(i) if isinstance(v, Struct) else TOP
        return Ref(cell)
    INC, EXC, UNB = 0, 1, 2
    if which == "start":
        if kind in ("Range", "RangeFrom", "RangeInclusive"):
            return [(c.st, Enum(BOUND, {INC: Struct({0: fld(0)})}))]
        return [(c.st, Enum(BOUND, {UNB: Struct()}))]
    if kind == "Range":
        return [(c.st, Enum(BOUND, {EXC: Struct({0: fld(1)})}))]
    if kind == "RangeTo":
        return [(c.st, Enum(BOUND, {EXC: Struct({0: fld(0)})}))]
    if kind == "RangeInclusive":
        v = c.deref(r)
        ex = v.get(2) if isinstance(v, Struct) else TOP
        if isinstance(ex, Cond) and ex.k == "const" and ex.a[0] is False:
            return [(c.st, Enum(BOUND, {INC: Struct({0: fld(1)})}))]
        return [(c.st, Enum(BOUND, {INC: Struct({0: fld(1)}), EXC: Struct({0: fld(1)})}))]
    if kind == "RangeToInclusive":
        return [(c.st, Enum(BOUND, {INC: Struct({0: fld(0)})}))]
    return [(c.st, Enum(BOUND, {UNB: Struct()}))]


@model(r"^std::ops::Range(Inclusive)?::<.*>::contains::<")
def range_contains(c):
    incl = "RangeInclusive" in c.name
    v = c.deref(c.args[0])
    x = c.deref(c.args[1])
    if isinstance(v, Struct) and isinstance(x, Num) and isinstance(v.get(0), Num) and isinstance(v.get(1), Num):
        lo, hi = v.get(0).e, v.get(1).e
        a = Cond("cmp", "le", lo, x.e)
        b = Cond("cmp", "le" if incl else "lt", x.e, hi)
        return [(c.st, c.it.simplify_cond(c.st, Cond("and", c.it.simplify_cond(c.st, a), c.it.simplify_cond(c.st, b))))]
    return [(c.st, TOP)]


# ------------------------------------------------------------------------------------------- iterator adaptors over workspace iterators

@model(r"^<std::vec::Vec<.*> as std::iter::IntoIterator>::into_iter$")
def vec_into_iter(c):
    v = c.deref(c.args[0])
    if isinstance(v, Seq):
        return [(c.st, Iter(v.len, False, "vec", None, v.items))]
    return None


@model(r"^<std::iter::Map<std::slice::Iter<.*>, .*> as std::iter::Iterator>::sum::<(usize|u64|u32)>$")
def slice_map_sum(c):
    """sum of f(x) over the elements of an input sequence: an uninterpreted but deterministic quantity, named after
    (what f computes, which sequence) so that two evaluations agree.  Only for f = `|a| a.padded_len()`."""
    v = c.args[0]
    if isinstance(v, Iter) and len(v.maps) == 1 and v.kind == "iter":
        f = c.deref(v.maps[0])
        # a function whose result is the same constant k for every element: the sum is exactly k * (number of elements)
        fk = f.key if isinstance(f, FnV) else (f.tag if isinstance(f, Struct) else None)
        fb = c.it.prog.bodies.get(fk) if fk else None
        if fb is not None and fb.arg_count in (1, 2):
            st_try = c.st.copy()
            ai = fb.arg_count        # the element is the last parameter (after a closure's environment)
            try:
                arg = c.it.top_of(st_try, fb, fb.locals[ai]["ty"], hint="elem", region_prefix="%s/%d.%d:sumelem" % (c.fr.id, c.bb, c.part))
                saved = dict(c.it.obligations)
                c2 = c.st
                c.st = st_try
                res = c.call_closure(st_try, v.maps[0], [arg], "sm")
                c.st = c2
                c.it.obligations = saved       # obligations of this trial evaluation are the per-element analysis' business
            except Exception:
                res = None
            if res:
                ks = {s2.sys.const_value(r.e) if isinstance(r, Num) else None for s2, r in res}
                if len(ks) == 1 and None not in ks:
                    k = int(next(iter(ks)))
                    return [(c.st, Num(v.len.scale(k)))]
        tag = f.tag if isinstance(f, Struct) else None
        body = c.it.prog.bodies.get(tag) if tag else None
        what = None
        if body is not None:
            from mir import Origins, strip
            og = Origins(c.it.prog, body)
            o = strip(og.local(0))
            if o.k == "call" and "AttributeExt>::padded_len" in o.a[0] and "param(2)" in repr(o.a[2][0]):
                what = "padded_len"
        if what and len(v.len.t) == 1 and v.len.c == 0:
            (lv, k_), = v.len.t.items()
            if k_ == 1 and re.search(r"_a\d+(_|$)", lv):
                name = "fS_%s_%s" % (what, lv)
                c.it.purefun[name] = {lv}
                e = Lin.var(name)
                c.st.sys.add_ge(e)
                # every padded_len() is at least 4 and a multiple of 4 (rule C03 padded-multiple-of-4): 4*len <= sum
                c.st.sys.add_ge(e - v.len.scale(4))
                c.it.assumed["sum-of-padded-len"] = "sum of padded_len() over a list is >= 4 * its length"
                return [(c.st, Num(e))]
    for a in c.args:
        c.escape(a)
    return [(c.st, c.top_ret())]


@model(r"^<std::vec::IntoIter<.*> as std::iter::Iterator>::map::<|^<std::slice::(Iter|IterMut|ChunksExact|Chunks)<.*> as std::iter::Iterator>::map::<")
def vec_iter_map(c):
    v = c.args[0]
    if isinstance(v, Iter) and (v.items is not None or c.name.startswith("<std::slice::")):
        return [(c.st, Iter(v.len, v.enumerated, v.kind, v.chunk, summ(v.items), v.maps + (c.args[1],)))]
    c.escape(c.args[1])
    return [(c.st, c.top_ret())]


@model(r"^<std::iter::Map<std::(vec::IntoIter|slice::(Iter|IterMut|ChunksExact|Chunks))<.*>, .*> as std::iter::Iterator>::collect::<std::vec::Vec<")
def vec_map_collect(c):
    v = c.args[0]
    if isinstance(v, Iter) and v.items is not None:
        if isinstance(v.items, Empty):
            return [(c.st, Seq(v.len, None, EMPTY))]
        # every element is covered by the summary: run the closures once on it, in context
        states = [(c.st, v.items)]
        for i, f in enumerate(v.maps):
            nxt = []
            for st_, item in states:
                res = c.call_closure(st_, f, [item], "m%d" % i)
                if res is None:
                    c.escape(f)
                    return [(c.st, c.top_ret())]
                nxt.extend(res)
            states = nxt
        out = []
        for st_, item in states:
            out.append((st_, Seq(v.len, None, item)))
        return out
    for a in c.args:
        c.escape(a)
    return [(c.st, c.top_ret())]


@model(r"^<std::iter::Map<std::(vec::IntoIter|slice::(Iter|IterMut|ChunksExact|Chunks))<.*>, .*> as std::iter::Iterator>::collect::<std::result::Result<std::vec::Vec<")
def vec_map_collect_result(c):
    """`iter.map(f).collect::<Result<Vec<_>, E>>()`: f is run once on the summary element, in context; the first Err is the result,
    otherwise Ok(vector of the Ok payloads, one per element)"""
    v = c.args[0]
    if isinstance(v, Iter) and v.items is not None:
        if isinstance(v.items, Empty):
            return [(c.st, Enum(RESULT, {0: Struct({0: Seq(v.len, None, EMPTY)})}))]
        st0 = c.st.copy()
        states = [(c.st, v.items)]
        for i, f in enumerate(v.maps):
            nxt = []
            for st_, item in states:
                res = c.call_closure(st_, f, [item], "mr%d" % i)
                if res is None:
                    c.escape(f)
                    return [(c.st, c.top_ret())]
                nxt.extend(res)
            states = nxt
        out = []
        oks = None
        n_ok = 0
        for st_, item in states:
            if not isinstance(item, Enum):
                return [(st0, c.top_ret())]
            if 1 in item.v:
                s_err = st_.copy() if 0 in item.v else st_
                s_err.sys.add_ge(v.len - 1)          # an element was there to fail on
                out.append((s_err, Enum(RESULT, {1: item.v[1]})))
            if 0 in item.v:
                n_ok += 1
                pay = item.v[0].get(0)
                oks = pay if oks is None else weak_join(oks, pay)
        if n_ok:
            out.append((st0, Enum(RESULT, {0: Struct({0: Seq(v.len, None, oks)})})))
        return out
    for a in c.args:
        c.escape(a)
    return [(c.st, c.top_ret())]


ATTRS_ITER = "stun_types::message::MessageAttributesIter"


@model(r"^<stun_types::message::MessageAttributesIter<.*> as std::iter::Iterator>::(map|filter|enumerate)(::<.*>)?$|^<std::iter::(Map|Filter)<(std::iter::(Map|Filter)<)*stun_types::message::MessageAttributesIter<.*> as std::iter::Iterator>::(map|filter|collect)(::<.*>)?$")
def attrs_iter_adaptor(c):
    """adaptors over the workspace attribute iterator: the number of items is bounded by the bytes left / 4
    (every Some advances the cursor by >= 4 below the length: rule C01 termination-iii)"""
    for a in c.args[1:]:
        c.escape(a)
    v = c.args[0]
    n = None
    if isinstance(v, Struct) and isinstance(v.get(0), Seq) and isinstance(v.get(1), Num):
        n = c.it.fresh_num(c.st, 0, None, "nattrs")
        # 4*n <= len - cursor + 3
        c.st.sys.add_ge(v.get(0).len - v.get(1).e + 3 - n.e.scale(4))
        c.it.assumed["attrs-iter-bound"] = "items yielded by MessageAttributesIter <= (len - cursor + 3) / 4 (needs termination-iii)"
        n = n.e
    elif isinstance(v, Iter):
        n = v.len
    if n is None:
        c.escape(v)
        c.havoc_mut_args()
        return [(c.st, c.top_ret())]
    if c.name.split("::")[-1].startswith("collect") or re.search(r"::collect::<", c.name):
        m = c.it.fresh_num(c.st, 0, None, "ncoll")
        c.st.sys.add_le(m.e, n)
        return [(c.st, Seq(m.e))]
    return [(c.st, Iter(n, False, "attrs"))]


@model(r"^<.* as std::iter::Iterator>::(find|any|all|position|map|filter|for_each|fold|collect|count|enumerate|take|skip|rev|zip|cloned|copied|sum|filter_map|find_map|last|nth|min|max|peekable|chain|flat_map|step_by)(::<.*>)?$|^<std::iter::(Map|Filter|Enumerate|Take|Skip|Rev|Zip|Cloned|Copied|FilterMap|Peekable|Chain)<.*> as std::iter::Iterator>::next$|^<std::vec::IntoIter<.*> as std::iter::Iterator>::next$|^<std::vec::Vec<.*> as std::iter::FromIterator<.*>>::from_iter")
def iter_adaptor(c):
    # total provided the closures and the underlying workspace iterator are panic-free and terminating: those
    # are analysed as entries of their own (escape), termination of MessageAttributesIter is rule C01-T3
    m = re.search(r" as std::iter::Iterator>::(\w+)(::<.*>)?$", c.name)
    op = m.group(1) if m else None
    v = c.args[0] if c.args else None
    if isinstance(v, Iter) and is_listed(v.items) and op not in ("copied", "cloned", "peekable"):
        v = Iter(v.len, v.enumerated, v.kind, v.chunk, summ(v.items), v.maps)
    if isinstance(v, Iter) and op in ("copied", "cloned", "rev", "peekable", "filter", "filter_map", "take", "skip", "take_while", "skip_while", "step_by",
                                      "collect", "count", "enumerate"):
        # adaptors over a sequence iterator with a known number of remaining items
        for a in c.args[1:]:
            c.escape(a)
        for f_ in v.maps:
            c.escape(f_)
        if op in ("copied", "cloned", "rev", "peekable"):
            return [(c.st, Iter(v.len, v.enumerated, v.kind, v.chunk, v.items, ()))]
        if op == "enumerate":
            return [(c.st, Iter(v.len, True, v.kind, v.chunk, v.items, ()))]
        if op in ("filter", "filter_map", "take", "skip", "take_while", "skip_while", "step_by"):
            n = c.it.fresh_num(c.st, 0, None, "nfilt")
            c.st.sys.add_le(n.e, v.len)
            return [(c.st, Iter(n.e, False, "attrs" if v.kind == "attrs" else "filtered", None, None, ()))]
        if op == "count":
            return [(c.st, Num(v.len))]
        if op == "collect":
            rt = c.ret_ty()
            if rt.get("k") == "adt" and rt["path"] in ("std::vec::Vec", "smallvec::SmallVec", "std::string::String", "std::boxed::Box"):
                if v.kind in ("filtered", "attrs") or v.maps:
                    n = c.it.fresh_num(c.st, 0, None, "ncoll")
                    c.st.sys.add_le(n.e, v.len)
                    return [(c.st, Seq(n.e))]
                return [(c.st, Seq(v.len, None, v.items if not v.maps else None))]
    for a in c.args:
        c.escape(a)
    c.havoc_mut_args()
    return [(c.st, c.top_ret())]


@model(r"^std::array::iter::<impl std::iter::IntoIterator for \[.*; (\d+)\]>::into_iter$|^<\[.*; \d+\] as std::iter::IntoIterator>::into_iter$")
def array_into_iter(c):
    v = c.deref(c.args[0])
    if isinstance(v, Seq):
        return [(c.st, Iter(v.len, False, "vec", None, v.items))]
    return [(c.st, c.top_ret())]


@model(r"^<std::array::IntoIter<.*> as std::iter::Iterator>::next$")
def array_iter_next(c):
    return std_iter_next(c)


@model(r"^<std::ops::Range<.*> as std::iter::Iterator>::next$")
def range_next(c):
    c.havoc_mut_args()
    return [(c.st, c.top_ret())]


@model(r"^std::mem::(swap|replace|take)::<|^core::mem::(swap|replace|take)::<")
def mem_swap(c):
    c.havoc_mut_args()
    return [(c.st, c.top_ret())]


@model(r"^std::intrinsics::|^core::intrinsics::|^std::ptr::|^core::ptr::|^std::mem::(size_of|align_of|discriminant)|^core::mem::(size_of|align_of|discriminant)")
def intrinsics(c):
    if re.search(r"discriminant_value", c.name):
        v = c.deref(c.args[0])
        if isinstance(v, Enum) and len(v.v) == 1:
            return [(c.st, Num(Lin.const(c.it.variant_discr(v.adt, next(iter(v.v))))))]
        if isinstance(v, Enum) and isinstance(c.args[0], Ref):
            return [(c.st, DiscrOf(c.args[0].cell, c.args[0].path, v.adt))]
    return [(c.st, c.top_ret())]


@model(r"^<.* as std::ops::Fn(Mut|Once)?<.*>>::call(_mut|_once)?$")
def fn_call(c):
    argv = c.args[1]
    tup = [argv.get(i) for i in sorted(argv.f)] if isinstance(argv, Struct) else []
    res = c.call_closure(c.st, c.args[0], tup, "fc")
    if res is None:
        c.escape(c.args[0])
        return None
    return res


@model(r"^std::collections::(HashMap|HashSet|BTreeMap|BTreeSet|hash_map::HashMap|hash_set::HashSet)::<|^<std::collections::|^std::collections::(hash_map|hash_set|btree_map|btree_set|btree)::")
def collections(c):
    c.havoc_mut_args()
    return [(c.st, c.top_ret())]


@model(r"^std::sync::atomic::|^<std::sync::atomic")
def atomics(c):
    return [(c.st, c.top_ret())]


@model(r"^<std::ops::ControlFlow<.*> as ")
def cflow(c):
    return [(c.st, c.top_ret())]


import absint.models_std2
import absint.models_content      # noqa: E402  (registers further models; needs M)
import absint.models_net          # noqa: E402  (std::net addresses as records; opt-in per interpreter)
