"""E2 - forward abstract interpreter over extracted MIR.

State = (cells: abstract memory, sys: linear constraint system).  Integers are linear expressions over symbolic
variables (inputs, unknown results, join/phi variables); enum-typed values carry their possible variants with a
payload per variant; states that differ in the variant of a live enum local are kept apart (partitioning), all
other control-flow joins merge (Karr hull + mutual entailment), loop heads widen.  Workspace callees are
analysed in their calling context (inlined, acyclic, depth-bounded); external callees through models.

Every possible panic is an *obligation*: Assert terminators, modelled preconditions of std/byteorder calls,
reaching a panic call.  An obligation is discharged when it is entailed in every state reaching it.
"""
import os, re, time
import heapq
from absint.lin import Lin, System, join as sys_join, widen as sys_widen, leq as sys_leq
from absint.values import *
from mir import short_span

MAX_DEPTH = 12
MAX_PARTS = 40
WIDEN_AFTER = 3
MAX_VISITS = 40
USIZE_MAX = (1 << 64) - 1
ISIZE_MAX = (1 << 63) - 1


class FailClosed(Exception):
    pass


class State:
    __slots__ = ("cells", "sys")

    def __init__(self, cells=None, sys_=None):
        self.cells = cells if cells is not None else {}
        self.sys = sys_ if sys_ is not None else System()

    def copy(self):
        return State(dict(self.cells), self.sys.copy())

    def live_vars(self):
        acc = set()
        for v in self.cells.values():
            v.vars(acc)
        return acc


class Frame:
    __slots__ = ("id", "body", "depth", "parent_keys", "in_loop")

    def __init__(self, fid, body, depth, parent_keys):
        self.id = fid
        self.body = body
        self.depth = depth
        self.parent_keys = parent_keys
        self.in_loop = False


class Obligation:
    __slots__ = ("body", "bb", "idx", "kind", "descr", "span", "ok", "ctx", "why")

    def __init__(self, body, bb, idx, kind, descr, span, ok, ctx, why=None):
        self.body, self.bb, self.idx, self.kind, self.descr, self.span, self.ok, self.ctx, self.why = \
            body, bb, idx, kind, descr, span, ok, ctx, why


def int_range(t):
    """(lo, hi) of an integer-like type dict"""
    k = t.get("k")
    if k == "int":
        b = t["bits"]
        if t["signed"]:
            return -(1 << (b - 1)), (1 << (b - 1)) - 1
        return 0, (1 << b) - 1
    if k == "bool":
        return 0, 1
    if k == "char":
        return 0, 0x10FFFF
    return None


SEQ_ADTS = ("std::vec::Vec", "std::string::String", "smallvec::SmallVec")


class Interp:
    def __init__(self, prog, models, invariants=None, trace=False):
        self.prog = prog
        self.models = models
        self.invariants = invariants or {}
        self.nvar = 0
        self.obligations = {}        # (frame id, bb, idx, part) -> Obligation
        self.analysed = {}           # body key -> number of contexts analysed
        self.escaped = set()         # closure / fn body keys handed to external code that may call them
        self.unmodelled = {}         # external callee -> first location
        self.notes = []
        self.trace = trace
        self.assumed = {}            # lemma-assumed facts used: key -> description
        self.model_used = {}
        self.stack_keys = []
        self.inv_checks = {}
        self.bool_vars = False       # materialise unknown booleans as 0/1 variables (decision-table extraction)
        self.opaque = ()             # ADT paths materialised as uninterpreted terms with identity
        self.pre_hooks = {}          # workspace callee key -> fn(interp, state, caller frame, args) before the call
        self.local_models = {}       # workspace callee key -> model (assume-guarantee summaries supplied by a rule)
        self.budget_s = int(os.environ.get("STUNLINT_BUDGET_S", "300"))      # CPU seconds of this process per analysed entry (independent of machine load)
        self.deadline = time.process_time() + self.budget_s
        self.purefun = {}            # canonical result variable of a pure integer function -> its argument variables
        self.snapshots = {}
        self.byte_defs = False       # numbers read from identified contents are defined over their bytes (header rules)
        self.reached = set()         # (body key, block) executed in some context
        self.path_sensitive = False  # decision-table runs: branches outside loops are recorded on the path
        self.def_models = {}         # trait method def path -> summary used for calls on trait objects of unknown type
        self.track_content = False   # content-tracking mode: input sequences are identified, copies keep the identity
        self.contents = {}           # content id -> description of a derived content (digest outputs ...)
        self.ret_hooks = {}          # workspace callee key -> fn(interp, state, caller frame, return value): rule-supplied ghosts
        self._cur = (0, 0, 0)
        self.loops = {}              # (body key, frame id, head bb) -> (head partitions, back-edge states) at the fixpoint
        self.ghosts = {}             # quotient ghost variable -> (dividend Lin, divisor)

    # ------------------------------------------------------------------ variables
    def fresh(self, hint="t"):
        self.nvar += 1
        return "t%d%s" % (self.nvar, ("_" + hint) if hint and hint != "t" else "")

    def fresh_num(self, st, lo=None, hi=None, hint=""):
        v = self.fresh(hint)
        e = Lin.var(v)
        st.sys.add_range(e, lo, hi)
        return Num(e)

    # ------------------------------------------------------------------ top by type
    def top_of(self, st, body, tix, hint="", depth=0, region_prefix=None):
        t = body.ty(tix)
        return self._top(st, body.types, t, hint, depth, region_prefix)

    def _named_seq(self, st, hint, dflt, of=None, length=None):
        """an input sequence; in content-tracking mode it carries the identity `in:<path of the input>`"""
        ln = length if length is not None else self.fresh_num(st, 0, ISIZE_MAX, (hint or dflt) + "_len").e
        return Seq(ln, of, None, None, ("in:" + hint, Lin.const(0)) if (self.track_content and hint) else None)

    def _top(self, st, types, t, hint, depth, region_prefix):
        k = t.get("k")
        r = int_range(t)
        if r is not None:
            if k == "bool":
                if self.bool_vars:
                    return self.fresh_num(st, 0, 1, hint)
                return TOP
            return self.fresh_num(st, r[0], r[1], hint)
        if k == "adt" and getattr(self, "net_records", False) and t.get("path") in ("std::net::Ipv4Addr", "std::net::Ipv6Addr", "std::net::IpAddr",
                                                                                    "std::net::SocketAddrV4", "std::net::SocketAddrV6", "std::net::SocketAddr"):
            from absint.models_net import top_net
            return top_net(self, st, t["path"], hint)
        if k == "adt" and t.get("path") in self.opaque:
            return Term("in", hint or self.fresh("o"))
        if depth > 5:
            return TOP
        if k == "ref" or k == "ptr":
            to = types[t["to"]]
            tk = to.get("k")
            if tk in ("slice", "str"):
                return self._named_seq(st, hint, "s", to.get("of"))
            if region_prefix is None:
                return TOP
            cell = "%s*%s" % (region_prefix, hint or self.fresh("r"))
            st.cells[cell] = self._top(st, types, to, hint, depth + 1, cell)
            return Ref(cell)
        if k == "array":
            return self._named_seq(st, hint, "a", t.get("of"), Lin.const(t["len"]))
        if k in ("slice", "str"):
            return self._named_seq(st, hint, "s", t.get("of"))
        if k == "tuple":
            return Struct({i: self._top(st, types, types[e], "%s_%d" % (hint, i), depth + 1, region_prefix) for i, e in enumerate(t["elems"])})
        if k == "closure":
            return TOP
        if k == "adt":
            path = t["path"]
            if path in SEQ_ADTS:
                return self._named_seq(st, hint, "v")
            if path == "std::boxed::Box" and t.get("args"):
                inner = types[t["args"][0]]
                if inner.get("k") in ("slice", "str"):
                    return self._named_seq(st, hint, "b")
                return TOP
            args = t.get("args", [])
            if path == "std::option::Option" and args:
                return Enum(path, {0: Struct(), 1: Struct({0: self._top(st, types, types[args[0]], hint + "_some", depth + 1, region_prefix)})})
            if path == "std::result::Result" and len(args) >= 2:
                return Enum(path, {0: Struct({0: self._top(st, types, types[args[0]], hint + "_ok", depth + 1, region_prefix)}),
                                   1: Struct({0: self._top(st, types, types[args[1]], hint + "_err", depth + 1, region_prefix)})})
            if path == "std::ops::ControlFlow" and len(args) >= 2:
                return Enum(path, {0: Struct({0: self._top(st, types, types[args[1]], hint + "_c", depth + 1, region_prefix)}),
                                   1: Struct({0: self._top(st, types, types[args[0]], hint + "_b", depth + 1, region_prefix)})})
            a = self.prog.adts.get(path)
            if a is not None and not a.get("local") and a["kind"] == "enum" and 1 < len(a["variants"]) <= 8 and path.startswith(("std::net::", "core::net::")):
                return Enum(path, {vi: Struct({i: TOP for i in range(len(v["fields"]))}) for vi, v in enumerate(a["variants"])})
            if a is None or not a.get("local"):
                return TOP
            at = a["_types"]
            if a["kind"] == "struct":
                flds = a["variants"][0]["fields"]
                s = Struct({i: (self._top(st, at, at[f["ty"]], "%s_%s" % (hint, f["name"]), depth + 1, region_prefix) if "ty" in f else TOP)
                            for i, f in enumerate(flds)})
                inv = self.invariants.get(path)
                if inv:
                    inv(self, st, s)
                return s
            if a["kind"] == "enum":
                vs = {}
                for vi, v in enumerate(a["variants"]):
                    vs[vi] = Struct({i: (self._top(st, at, at[f["ty"]], "%s_%s_%s" % (hint, v["name"], f["name"]), depth + 1, region_prefix) if "ty" in f else TOP)
                                     for i, f in enumerate(v["fields"])})
                return Enum(path, vs)
            return TOP
        return TOP

    # ------------------------------------------------------------------ memory
    def cell_of(self, fr, l):
        return "%s:_%d" % (fr.id, l)

    def load(self, st, cell, path):
        v = st.cells.get(cell, TOP)
        for p in path:
            v = self.proj_value(st, v, p)
        return v

    def proj_value(self, st, v, p):
        """p: ('f', i) field | ('v', idx) downcast | ('e',) element"""
        if p[0] == "f":
            if isinstance(v, Struct):
                return v.get(p[1])
            if isinstance(v, Seq):
                # Box<[T]> is modelled by its length: its Unique/NonNull fields are the same fat pointer
                return v
            if isinstance(v, Ref):
                # Box<T> modelled as a pointer to its heap cell: Unique / NonNull fields are that pointer
                return v
            return TOP
        if p[0] == "v":
            if isinstance(v, Enum):
                s = v.v.get(p[1])
                return s if s is not None else TOP
            return TOP
        return TOP

    def store(self, st, cell, path, val):
        if not path:
            st.cells[cell] = val
            return
        st.cells[cell] = self._store_into(st.cells.get(cell, TOP), path, val)

    def _store_into(self, base, path, val):
        if not path:
            return val
        p = path[0]
        if p[0] == "f":
            if not isinstance(base, Struct):
                base = Struct()
            return base.with_field(p[1], self._store_into(base.get(p[1]), path[1:], val))
        if p[0] == "v":
            if isinstance(base, Enum):
                payload = base.v.get(p[1], Struct())
                # a write through a downcast means the enum is (being made) that variant
                return Enum(base.adt, {p[1]: self._store_into(payload, path[1:], val)})
            return TOP
        if p[0] == "e":
            return base      # element writes do not change tracked information
        return TOP

    def locate(self, st, fr, pl):
        """-> ('cell', cell, path) | ('val', V)"""
        cur = ("cell", self.cell_of(fr, pl["l"]), ())
        for p in pl["p"]:
            k = p["k"]
            if k == "deref":
                v = self.load(st, cur[1], cur[2]) if cur[0] == "cell" else cur[1]
                if isinstance(v, Ref):
                    cur = ("cell", v.cell, v.path)
                else:
                    cur = ("val", v if isinstance(v, Seq) else TOP)
            elif k == "field":
                if cur[0] == "cell":
                    cur = ("cell", cur[1], cur[2] + (("f", p["i"]),))
                else:
                    cur = ("val", self.proj_value(st, cur[1], ("f", p["i"])))
            elif k == "downcast":
                if cur[0] == "cell":
                    cur = ("cell", cur[1], cur[2] + (("v", p["v"]),))
                else:
                    cur = ("val", self.proj_value(st, cur[1], ("v", p["v"])))
            elif k in ("index", "cidx", "subslice"):
                sv = self.load(st, cur[1], cur[2]) if cur[0] == "cell" else cur[1]
                ev = self.input_element(st, fr, pl, sv, p)
                if ev is not None:
                    cur = ("val", ev)
                elif cur[0] == "cell":
                    cur = ("cell", cur[1], cur[2] + (("e",),))
                else:
                    cur = ("val", TOP)
            else:
                cur = ("val", TOP)
        return cur

    def input_element(self, st, fr, pl, sv, p):
        """element `i` of an input sequence: one symbolic variable per (sequence, generation, index expression), so that
        repeated reads agree and facts about it survive to the return states.  Element stores bump the generation."""
        if not isinstance(sv, Seq) or p["k"] == "subslice":
            return None
        if self.track_content and src_atom(sv.content()) and not (p["k"] == "cidx" and p.get("from_end")):
            # a byte of an identified (immutable) content: one variable per (content, offset), whatever window it is read through
            et0 = fr.body.ty(pl["ty"])
            if int_range(et0) == (0, 255):
                w_ = sv.content()
                if p["k"] == "cidx":
                    ix_ = Lin.const(p["off"])
                else:
                    iv0 = st.cells.get(self.cell_of(fr, p["l"]))
                    ix_ = iv0.e if isinstance(iv0, Num) else None
                if ix_ is not None and not str(w_[0]).startswith("@"):
                    off_ = w_[1] + ix_
                    name = "rd8@%s+%r" % (w_[0], st.sys.reduce(off_))
                    e = Lin.var(name)
                    st.sys.add_range(e, 0, 255)
                    self.purefun[name] = set(off_.t)
                    self.contents.setdefault("bytes", {})[name] = (w_[0], off_)
                    return Num(e)
        if self.track_content and sv.content() is not None and not src_atom(sv.content()) and not (p["k"] == "cidx" and p.get("from_end")) \
                and int_range(fr.body.ty(pl["ty"])) == (0, 255):
            # a byte of a composed content (concatenated / patched): known when that position holds one known byte
            if p["k"] == "cidx":
                ix_ = Lin.const(p["off"])
            else:
                iv0 = st.cells.get(self.cell_of(fr, p["l"]))
                ix_ = iv0.e if isinstance(iv0, Num) else None
            if ix_ is not None:
                from absint.models_content import segments, cut
                segs = segments(st, sv.content(), sv.len)
                part = cut(st, segs, ix_, ix_ + 1) if segs is not None else None
                if part and len(part) == 1 and part[0][0] == "be" and part[0][1] == 1 and part[0][2] is not None:
                    return Num(part[0][2])
                if part and len(part) == 1 and part[0][0] == "zero":
                    return Num(Lin.const(0))
        if len(sv.len.t) != 1 or sv.len.c != 0:
            return None
        (lv, k_), = sv.len.t.items()
        if k_ != 1 or not re.search(r"^t\d+_.*_len$", lv):
            return None
        bt = fr.body.local_ty(pl["l"])
        mutable_root = bt.get("k") == "ref" and bt.get("mut")
        if p["k"] == "cidx":
            if p.get("from_end"):
                return None
            idx = "%d" % p["off"]
        else:
            iv = st.cells.get(self.cell_of(fr, p["l"]))
            if not isinstance(iv, Num):
                return None
            cv = st.sys.const_value(iv.e)
            idx = "%d" % cv if cv is not None else "(%r)" % (st.sys.reduce(iv.e),)
            if cv is None and not self.bool_vars:
                return None      # symbolic indices only in the decision-table mode
        et = fr.body.ty(pl["ty"])
        r = int_range(et)
        if r is None:
            return None
        gen = st.cells.get("ghost:gen:" + lv)
        g = int(gen.e.c) if isinstance(gen, Num) and gen.e.is_const() else 0
        if bt.get("k") != "ref":
            return None
        if mutable_root and not self.bool_vars:
            return None
        name = ("e%s@%s" % (idx, lv)) if g == 0 and idx.isdigit() else ("e%s#%d@%s" % (idx, g, lv))
        e = Lin.var(name)
        st.sys.add_range(e, r[0], r[1])
        if not idx.isdigit():
            self.purefun[name] = {lv} | {v for v in (st.sys.reduce(iv.e).t if isinstance(iv, Num) else ())}
        if self.track_content and src_atom(sv.content()) and r == (0, 255):
            # which byte of which identified content this variable stands for
            w_ = sv.content()
            ix_ = Lin.const(p["off"]) if p["k"] == "cidx" else iv.e
            self.contents.setdefault("bytes", {})[name] = (w_[0], w_[1] + ix_)
        return Num(e)

    def element_value(self, st, sv, ix, et):
        """value of sv[ix] for a call-based index (Index::index): same naming as input_element; decision-table mode only"""
        if not self.bool_vars or not isinstance(sv, Seq) or len(sv.len.t) != 1 or sv.len.c != 0:
            return None
        (lv, k_), = sv.len.t.items()
        if k_ != 1 or not re.search(r"^t\d+_.*_len$", lv):
            return None
        r = int_range(et)
        if r is None:
            return None
        cv = st.sys.const_value(ix)
        idx = "%d" % cv if cv is not None else "(%r)" % (st.sys.reduce(ix),)
        gen = st.cells.get("ghost:gen:" + lv)
        g = int(gen.e.c) if isinstance(gen, Num) and gen.e.is_const() else 0
        name = ("e%s@%s" % (idx, lv)) if g == 0 and idx.isdigit() else ("e%s#%d@%s" % (idx, g, lv))
        e = Lin.var(name)
        st.sys.add_range(e, r[0], r[1])
        if not idx.isdigit():
            self.purefun[name] = {lv} | set(st.sys.reduce(ix).t)
        return Num(e)

    def read_place(self, st, fr, pl):
        loc = self.locate(st, fr, pl)
        v = self.load(st, loc[1], loc[2]) if loc[0] == "cell" else loc[1]
        if v is TOP:
            # materialise numerics by type so that arithmetic on unknown values still knows its range
            t = fr.body.ty(pl["ty"])
            r = int_range(t)
            if r is not None and t.get("k") != "bool":
                return self.fresh_num(st, r[0], r[1])
            if t.get("k") == "ref" and fr.body.ty(t["to"]).get("k") in ("slice", "str"):
                return Seq(self.fresh_num(st, 0, ISIZE_MAX, "len").e)
            if t.get("k") == "array":
                return Seq(Lin.const(t["len"]))
        return v

    # ---- output-buffer write log: per tracked buffer a ghost cell (high-water mark, start of the trailing run of zero
    # bytes, broken flag).  Invariant: every byte of [0, hw) has been written; bytes of [zlo, hw) were written as zero.
    def record_write(self, st, seq, lo, hi, kind, val=None):
        if not isinstance(seq, Seq) or seq.view is None:
            return
        base, off = seq.view
        if str(base).startswith("@"):
            # a window of an owned container (content-tracking mode): zeros and single known bytes are kept, any other
            # untracked write makes that part unknown
            from absint.models_content import patch_container
            if kind == "zero":
                d = ("zero",)
            elif isinstance(val, Num) and st.sys.entails_eq(hi - lo - 1):
                d = ("be", 1, val.e)
            else:
                d = ("be", 0, None)
            patch_container(self, st, seq.view, lo, hi, d)
            return
        cell = "wlog:" + base
        g = st.cells.get(cell)
        if not isinstance(g, Struct):
            return
        hw, zlo, broken = g.get(0).e, g.get(1).e, g.get(2).e
        plo = g.get(3).e if isinstance(g.get(3), Num) else Lin.const(-1)
        phi_ = g.get(4).e if isinstance(g.get(4), Num) else Lin.const(-1)
        a, b = off + lo, off + hi
        has_pending = not (st.sys.const_value(plo) == -1)

        def put(nhw, nz, nb, npl=plo, nph=phi_):
            # a pending segment that has become adjacent is absorbed
            if not (st.sys.const_value(npl) == -1) and st.sys.entails_eq(npl - nhw):
                nhw, nz, npl, nph = nph, nph, Lin.const(-1), Lin.const(-1)
            st.cells[cell] = Struct({0: Num(nhw), 1: Num(nz), 2: Num(nb), 3: Num(npl), 4: Num(nph)})
        if st.sys.entails_eq(a - hw) or (st.sys.entails_ge(hw - a) and st.sys.entails_ge(b - hw) and kind == "zero" and st.sys.entails_ge(a - zlo)):
            # append (or a zero write overlapping only the trailing zero run)
            put(b, zlo if kind == "zero" else b, broken)
        elif st.sys.entails_ge(hw - b):
            # rewrite of bytes already written
            if kind == "zero" and not st.sys.entails_ge(a - zlo):
                put(hw, zlo, Lin.const(1))      # zero-fill over data already written
            elif kind != "zero" and not st.sys.entails_ge(zlo - b):
                put(hw, hw, broken)
        elif not has_pending and st.sys.entails_ge(a - hw - 1):
            # one out-of-order segment ahead of the high-water mark may be pending until the gap is filled
            put(hw, zlo, broken, a, b)
        else:
            put(hw, zlo, Lin.const(1))          # gap or unknown position

    def note_mutation(self, st, ref, what):
        """count structural modifications of containers (for "left intact" clauses): ghost cell, if the rule set one up"""
        g = st.cells.get("ghost:mutations")
        if isinstance(g, Num):
            st.cells["ghost:mutations"] = Num(g.e + 1)

    def is_zero_value(self, st, v):
        return isinstance(v, Num) and st.sys.const_value(v.e) == 0

    def write_place(self, st, fr, pl, val):
        if pl["p"] and pl["p"][-1]["k"] in ("index", "cidx"):
            # element store into a tracked output buffer
            base_pl = dict(pl, p=pl["p"][:-1])
            loc0 = self.locate(st, fr, base_pl)
            sv = self.load(st, loc0[1], loc0[2]) if loc0[0] == "cell" else loc0[1]
            if isinstance(sv, Seq) and sv.view is not None:
                p = pl["p"][-1]
                if p["k"] == "cidx" and not p.get("from_end"):
                    ix = Lin.const(p["off"])
                elif p["k"] == "index":
                    iv = st.cells.get(self.cell_of(fr, p["l"]))
                    ix = iv.e if isinstance(iv, Num) else None
                else:
                    ix = None
                if ix is not None:
                    self.record_write(st, sv, ix, ix + 1, "zero" if self.is_zero_value(st, val) else "data", val)
                else:
                    self.record_write(st, sv, Lin.const(0), Lin.const(-1), "data")
            if isinstance(sv, Seq) and sv.view is None and sv.src is not None and loc0[0] == "cell":
                # an element store into a sequence whose bytes are described: the description is patched (known position and
                # byte) or forgotten - it must never go stale
                p_ = pl["p"][-1]
                ixl = None
                if p_["k"] == "cidx" and not p_.get("from_end"):
                    ixl = Lin.const(p_["off"])
                elif p_["k"] == "index":
                    iv_ = st.cells.get(self.cell_of(fr, p_["l"]))
                    ixl = iv_.e if isinstance(iv_, Num) and st.sys.const_value(iv_.e) is not None else None
                nsrc = None
                if ixl is not None and isinstance(val, Num) and int_range(fr.body.ty(pl["ty"])) == (0, 255):
                    nsrc = ("patch", sv.src, ixl, ixl + 1, ("zero",) if self.is_zero_value(st, val) else ("be", 1, val.e))
                sv = Seq(sv.len, sv.elem, sv.items, None, nsrc)
                self.store(st, loc0[1], loc0[2], sv)
            if isinstance(sv, Seq) and len(sv.len.t) == 1:
                lv_ = next(iter(sv.len.t))
                gen = st.cells.get("ghost:gen:" + lv_)
                st.cells["ghost:gen:" + lv_] = Num((gen.e if isinstance(gen, Num) else Lin.const(0)) + 1)
            if isinstance(sv, Seq) and is_listed(sv.items) and loc0[0] == "cell":
                # a short local array whose elements are listed: an element store with a known index updates the list,
                # any other store forgets it
                p = pl["p"][-1]
                ixc = None
                if p["k"] == "cidx" and not p.get("from_end"):
                    ixc = p["off"]
                elif p["k"] == "index":
                    iv = st.cells.get(self.cell_of(fr, p["l"]))
                    ixc = st.sys.const_value(iv.e) if isinstance(iv, Num) else None
                if ixc is not None and int(ixc) in sv.items.f:
                    f_ = dict(sv.items.f)
                    f_[int(ixc)] = val
                    self.store(st, loc0[1], loc0[2], Seq(sv.len, sv.elem, Struct(f_, tag="elems"), sv.view, sv.src))
                else:
                    self.store(st, loc0[1], loc0[2], Seq(sv.len, sv.elem, None, sv.view, sv.src))
                return
        loc = self.locate(st, fr, pl)
        if loc[0] == "cell":
            self.store(st, loc[1], loc[2], val)
        # writes through unknown pointers: the pointee was havocked when the pointer was created

    def operand(self, st, fr, op):
        k = op["k"]
        if k in ("copy", "move"):
            return self.read_place(st, fr, op["pl"])
        if k == "const":
            return self.const_value(st, fr, op)
        return TOP

    def const_value(self, st, fr, op):
        if "fn" in op:
            return FnV(op.get("fn_key") or op.get("fn_def") or op["fn"])
        v = op.get("v", {})
        if "int" in v:
            t0 = fr.body.ty(op["ty"])
            if t0.get("k") == "adt":
                a0 = self.prog.adts.get(t0["path"])
                if a0 and a0["kind"] == "struct" and len(a0["variants"][0]["fields"]) == 1:
                    return Struct({0: Num(Lin.const(v["int"]))})      # scalar-evaluated newtype constant
                if a0 and a0["kind"] == "enum" and all(not x["fields"] for x in a0["variants"]):
                    idx = self.variant_index(t0["path"], v["int"])
                    if idx is not None:
                        return Enum(t0["path"], {idx: Struct()})
            return Num(Lin.const(v["int"]))
        if "bool" in v:
            return Cond("const", bool(v["bool"]))
        if "str" in v:
            raw_ = v["str"].encode()
            return Seq(Lin.const(v.get("len", len(raw_))), None, None, None, ("lit:" + raw_.hex(), Lin.const(0)) if self.track_content and len(raw_) <= 16 else None)
        t = fr.body.ty(op["ty"])
        if "bytes" in v and v.get("relocs") and t.get("k") == "ref":
            # a constant `&[T]` / `&[T; N]`: fat (or thin) pointer into constant memory
            to_ = fr.body.ty(t["to"])
            rel = v["relocs"][0]["to"] if v["relocs"][0].get("off") == 0 else None
            raw_ = bytes.fromhex(v["bytes"])
            if rel and "mem" in rel and to_.get("k") in ("slice", "array"):
                n_ = int.from_bytes(raw_[8:16], "little") if to_.get("k") == "slice" and len(raw_) >= 16 else to_.get("len")
                if isinstance(n_, int) and "of" in to_:
                    arr = self.const_array(fr, {"k": "array", "len": n_, "of": to_["of"]}, {"mem": rel["mem"]})
                    if to_.get("k") == "slice":
                        return arr
                    cell = "const:%s:%s" % (to_.get("s"), rel["mem"][:64])
                    st.cells[cell] = arr
                    return Ref(cell)
        if "mem" in v:
            n = v["len"]
            if t.get("k") == "adt":
                a = self.prog.adts.get(t["path"])
                if a and a["kind"] == "enum" and v["mem"] and n <= 8 and all(not x["fields"] for x in a["variants"]):
                    idx = self.variant_index(t["path"], int.from_bytes(bytes.fromhex(v["mem"]), "little"))
                    if idx is not None:
                        return Enum(t["path"], {idx: Struct()})
                rk = re.match(r"^std::ops::(Range|RangeInclusive|RangeFrom|RangeTo|RangeToInclusive)$", t["path"])
                if rk and t.get("args") and v["mem"]:
                    et = fr.body.ty(t["args"][0])
                    if int_range(et) is not None and et.get("k") == "int":
                        w = et["bits"] // 8
                        raw = bytes.fromhex(v["mem"])
                        nf = {"Range": 2, "RangeInclusive": 2, "RangeFrom": 1, "RangeTo": 1, "RangeToInclusive": 1}[rk.group(1)]
                        if len(raw) >= nf * w:
                            flds = {i: Num(Lin.const(int.from_bytes(raw[i * w:(i + 1) * w], "little"))) for i in range(nf)}
                            if rk.group(1) == "RangeInclusive":
                                flds[2] = Cond("const", bool(raw[2 * w]) if len(raw) > 2 * w else False)
                            return Struct(flds)
                if a and a["kind"] == "struct" and len(a["variants"][0]["fields"]) == 1 and n <= 16 and v["mem"]:
                    f = a["variants"][0]["fields"][0]
                    if "ty" in f and int_range(a["_types"][f["ty"]]) is not None:
                        return Struct({0: Num(Lin.const(int.from_bytes(bytes.fromhex(v["mem"]), "little")))})
            if t.get("k") == "ref":
                to = fr.body.ty(t["to"])
                if to.get("k") == "adt" or int_range(to) is not None:
                    # promoted constant behind a reference: decode the pointee
                    inner = self.const_value(st, fr, {"k": "const", "ty": t["to"], "v": v})
                    cell = "const:%s:%s" % (to.get("s"), v["mem"])
                    st.cells[cell] = inner
                    return Ref(cell)
                if to.get("k") == "array":
                    cell = "const:%s:%s" % (to.get("s"), v["mem"][:64])
                    st.cells[cell] = self.const_array(fr, to, v)
                    return Ref(cell)
                if to.get("k") in ("slice", "str"):
                    return Seq(Lin.const(n))
            if t.get("k") == "array":
                return self.const_array(fr, t, v)
            r = int_range(t)
            if r is not None and v["mem"]:
                return Num(Lin.const(int.from_bytes(bytes.fromhex(v["mem"]), "little")))
        if "zst" in v:
            if t.get("k") == "fndef":
                return FnV(t.get("key") or t.get("path"))
            return Struct()
        if t.get("k") == "ref":
            # a reference to a static / unevaluated constant array: the type still gives its length
            to = fr.body.ty(t["to"])
            if to.get("k") == "array" and isinstance(to.get("len"), int):
                cell = "const:%s:%s" % (to.get("s"), str(v.get("static") or v)[:96])
                if cell not in st.cells:
                    st.cells[cell] = Seq(Lin.const(to["len"]), None, Empty() if to["len"] == 0 else None)
                return Ref(cell)
        return TOP

    def const_array(self, fr, t, v):
        """a constant array: small integer arrays keep their elements"""
        n = t.get("len")
        et = fr.body.ty(t["of"]) if "of" in t else {}
        wrap = False
        if et.get("k") == "adt":
            a_ = self.prog.adts.get(et["path"])
            if a_ and a_["kind"] == "struct" and len(a_["variants"][0]["fields"]) == 1 and "ty" in a_["variants"][0]["fields"][0]:
                it_ = a_["_types"][a_["variants"][0]["fields"][0]["ty"]]
                if it_.get("k") == "int":
                    et, wrap = it_, True          # an array of integer newtypes
        if isinstance(n, int) and 0 < n <= 32 and et.get("k") == "int" and v.get("mem") and not v.get("relocs"):
            w = et["bits"] // 8
            raw = bytes.fromhex(v["mem"])
            if len(raw) == n * w:
                vals = [int.from_bytes(raw[i * w:(i + 1) * w], "little", signed=bool(et.get("signed"))) for i in range(n)]
                mk = (lambda x: Struct({0: Num(Lin.const(x))})) if wrap else (lambda x: Num(Lin.const(x)))
                return Seq(Lin.const(n), None, Struct({i: mk(x) for i, x in enumerate(vals)}, tag="elems"))
        return Seq(Lin.const(n if isinstance(n, int) else 0)) if isinstance(n, int) else TOP

    # ------------------------------------------------------------------ numerics
    def as_num(self, st, v, t=None):
        """Lin for a value used as an integer (fresh bounded variable for unknowns)"""
        if isinstance(v, Num):
            return v.e
        if isinstance(v, Cond):
            if v.k == "const":
                return Lin.const(1 if v.a[0] else 0)
            return self.fresh_num(st, 0, 1).e
        r = int_range(t) if t else None
        if r is None:
            return self.fresh_num(st).e
        return self.fresh_num(st, r[0], r[1]).e

    def fits(self, st, e, t):
        lo, hi = int_range(t)
        return st.sys.entails_ge(e - lo) and st.sys.entails_ge(Lin.const(hi) - e)

    def binop(self, st, fr, rv):
        op = rv["op"]
        a = self.operand(st, fr, rv["a"])
        b = self.operand(st, fr, rv["b"])
        ta = self.op_ty(fr, rv["a"])
        tb = self.op_ty(fr, rv["b"])
        if op in ("Eq", "Ne", "Lt", "Le", "Gt", "Ge"):
            if isinstance(a, DiscrOf) or isinstance(b, DiscrOf):
                d, o = (a, b) if isinstance(a, DiscrOf) else (b, a)
                if isinstance(o, Num) and o.e.is_const() and op in ("Eq", "Ne"):
                    c = Cond("discr", d, int(o.e.c))
                    return c if op == "Eq" else Cond("not", c)
                return TOP
            if int_range(ta) is None and not isinstance(a, (Num, Cond)):
                return TOP
            ea, eb = self.as_num(st, a, ta), self.as_num(st, b, tb)
            if op == "Eq":
                c = Cond("cmp", "eq", ea, eb)
            elif op == "Ne":
                c = Cond("not", Cond("cmp", "eq", ea, eb))
            elif op == "Lt":
                c = Cond("cmp", "lt", ea, eb)
            elif op == "Le":
                c = Cond("cmp", "le", ea, eb)
            elif op == "Gt":
                c = Cond("cmp", "lt", eb, ea)
            else:
                c = Cond("cmp", "le", eb, ea)
            return self.simplify_cond(st, c)
        checked = op.endswith("WithOverflow")
        base = op[:-12] if checked else op
        tres = ta
        if ta.get("k") == "bool" and base in ("BitAnd", "BitOr", "BitXor"):
            ca, cb = self.as_cond(a), self.as_cond(b)
            if ca is None or cb is None:
                return TOP
            if base == "BitAnd":
                return self.simplify_cond(st, Cond("and", ca, cb))
            if base == "BitOr":
                return self.simplify_cond(st, Cond("or", ca, cb))
            return TOP
        ea, eb = self.as_num(st, a, ta), self.as_num(st, b, tb)
        ideal = None
        if base == "Add":
            ideal = ea + eb
        elif base == "Sub":
            ideal = ea - eb
        elif base == "Mul":
            ca, cb = st.sys.const_value(ea), st.sys.const_value(eb)
            if cb is not None:
                ideal = ea.scale(int(cb))
            elif ca is not None:
                ideal = eb.scale(int(ca))
        if checked:
            # (value, overflowed): the flag is resolved by the Assert that follows
            if ideal is None:
                return Struct({0: self.top_num(st, tres), 1: TOP})
            lo, hi = int_range(tres)
            return Struct({0: Num(ideal), 1: Cond("outside", ideal, lo, hi)})
        if ideal is not None:
            if self.fits(st, ideal, tres):
                return Num(ideal)
            rng_ = int_range(tres)
            if self.track_content and base in ("Add", "Sub") and rng_ is not None and rng_[0] == 0:
                # wrapping unsigned arithmetic (release profile): the result is the ideal value modulo 2^bits, and the
                # ideal value of a sum / difference of two in-range operands is off by at most one modulus
                mod = rng_[1] + 1
                r = self.top_num(st, tres)
                k = self.fresh_num(st, 0, 1, "wrap")
                st.cells["ghost:q:" + next(iter(k.e.t))] = k
                if base == "Add":
                    st.sys.add_eq(ideal - r.e - k.e.scale(mod))
                else:
                    st.sys.add_eq(ideal - r.e + k.e.scale(mod))
                return r
            return self.top_num(st, tres)
        rng = int_range(tres)
        unsigned = rng is not None and rng[0] == 0
        cb = st.sys.const_value(eb)
        ca = st.sys.const_value(ea)
        if self.byte_defs and unsigned and cb is not None and ca is None:
            # exact quotient / remainder when the dividend is visibly D*A + B with 0 <= B < D (numbers assembled from bytes)
            D = None
            if base in ("Div", "Rem") and cb > 0:
                D = int(cb)
            elif base == "Shr":
                D = 1 << int(cb)
            elif base == "BitAnd":
                m_ = int(cb)
                if m_ > 0 and (m_ & (m_ + 1)) == 0:
                    D = m_ + 1                                   # low mask: remainder
                else:
                    inv = rng[1] ^ m_
                    if inv > 0 and (inv & (inv + 1)) == 0:
                        D = inv + 1                              # high mask: D * quotient
            sp = self.split_div(st, ea, D) if D else None
            if sp is not None:
                A, B = sp
                if base in ("Div", "Shr"):
                    return Num(A)
                if base == "Rem" or (base == "BitAnd" and (int(cb) & (int(cb) + 1)) == 0):
                    return Num(B)
                return Num(A.scale(D))
        if base == "Rem" and cb is not None and cb > 0 and unsigned:
            if ca is not None:
                return Num(Lin.const(int(ca) % int(cb)))
            # remainder and quotient are functions of the dividend: name them after it, so repeated `x % c` agree
            hx = hash_str("%r|%d" % (st.sys.reduce(ea), int(cb))) & 0xffffffffffff
            rn, qn = "rm%x" % hx, "rq%x_ghostq" % hx
            r = Num(Lin.var(rn))
            q = Num(Lin.var(qn))
            st.sys.add_range(r.e, 0, int(cb) - 1)
            st.sys.add_ge(q.e)
            st.sys.add_eq(ea - q.e.scale(int(cb)) - r.e)      # a = c*q + r
            self.ghosts[qn] = (ea, int(cb))
            self.purefun[rn] = set(ea.t)
            return r
        if base == "Div" and cb is not None and cb > 0 and unsigned:
            if ca is not None:
                return Num(Lin.const(int(ca) // int(cb)))
            if self.track_content:
                # content mode: the quotient is a function of the dividend too - name it after it, so that `x / c` computed
                # twice (two writers of the same value) is the same number
                hx = hash_str("%r|%d" % (st.sys.reduce(ea), int(cb))) & 0xffffffffffff
                rn, qn = "rm%x" % hx, "rq%x_ghostq" % hx
                r_ = Lin.var(rn)
                q = Num(Lin.var(qn))
                st.sys.add_range(r_, 0, int(cb) - 1)
                st.sys.add_ge(q.e)
                st.sys.add_eq(ea - q.e.scale(int(cb)) - r_)      # a = c*q + r: the quotient the remainder is defined with
                self.ghosts[qn] = (ea, int(cb))
                self.purefun[rn] = set(ea.t)
            else:
                q = self.fresh_num(st, 0, None, "div")
            st.sys.add_le(q.e.scale(int(cb)), ea)
            st.sys.add_le(ea, q.e.scale(int(cb)) + (int(cb) - 1))
            return q
        if base == "BitAnd" and unsigned:
            if ca is not None and cb is not None:
                return Num(Lin.const(int(ca) & int(cb)))
            for c_, other in ((ca, eb), (cb, ea)):
                if c_ is not None and int(c_) > 0 and (int(c_) & (int(c_) + 1)) == 0 and int(c_) < rng[1]:
                    # x & (2^k - 1) = x mod 2^k: the canonical remainder of x
                    k2 = int(c_) + 1
                    hx = hash_str("%r|%d" % (st.sys.reduce(other), k2)) & 0xffffffffffff
                    rn, qn = "rm%x" % hx, "rq%x_ghostq" % hx
                    r_, q_ = Lin.var(rn), Lin.var(qn)
                    st.sys.add_range(r_, 0, k2 - 1)
                    st.sys.add_ge(q_)
                    st.sys.add_eq(other - q_.scale(k2) - r_)
                    self.ghosts[qn] = (other, k2)
                    self.purefun[rn] = set(other.t)
                    return Num(r_)
            for c_, other in ((ca, eb), (cb, ea)):
                if c_ is not None:
                    inv = rng[1] ^ int(c_)            # the bits cleared by the mask
                    if inv >= 0 and (inv & (inv + 1)) == 0 and 0 < inv < rng[1]:
                        # x & !(2^k - 1) = x - (x mod 2^k): rounding down to a multiple of 2^k
                        k2 = inv + 1
                        hx = hash_str("%r|%d" % (st.sys.reduce(other), k2)) & 0xffffffffffff
                        rn, qn = "rm%x" % hx, "rq%x_ghostq" % hx
                        r_, q_ = Lin.var(rn), Lin.var(qn)
                        st.sys.add_range(r_, 0, k2 - 1)
                        st.sys.add_ge(q_)
                        st.sys.add_eq(other - q_.scale(k2) - r_)
                        self.ghosts[qn] = (other, k2)
                        self.purefun[rn] = set(other.t)
                        return Num(other - r_)
            r = self.fresh_num(st, 0, rng[1], "and")
            for c_, other in ((ca, eb), (cb, ea)):
                if c_ is not None:
                    st.sys.add_le(r.e, Lin.const(int(c_)))
                st.sys.add_le(r.e, other)
            return r
        if base == "Shr" and cb is not None and unsigned:
            if ca is not None:
                return Num(Lin.const(int(ca) >> int(cb)))
            r = self.fresh_num(st, 0, rng[1] >> int(cb), "shr")
            st.sys.add_le(r.e, ea)
            st.sys.add_le(r.e.scale(1 << int(cb)), ea)
            st.sys.add_le(ea, r.e.scale(1 << int(cb)) + ((1 << int(cb)) - 1))      # x < 2^k * (x >> k + 1)
            return r
        if base == "Shl" and cb is not None and unsigned:
            if int(cb) > 200:
                return self.top_num(st, tres)
            ideal = ea.scale(1 << int(cb))
            if self.fits(st, ideal, tres):
                return Num(ideal)
            return self.top_num(st, tres)
        if base in ("BitOr", "BitXor") and unsigned:
            if ca is not None and cb is not None:
                return Num(Lin.const(int(ca) | int(cb) if base == "BitOr" else int(ca) ^ int(cb)))
            if ca == 0:
                return Num(eb)
            if cb == 0:
                return Num(ea)
            if self.byte_defs:
                # disjoint bits: (multiple of 2^k) | (value below 2^k) is their sum
                for x, y in ((ea, eb), (eb, ea)):
                    for kbits in (8, 16, 32, 64, 96):
                        if st.sys.entails_ge(Lin.const((1 << kbits) - 1) - y) and st.sys.entails_ge(y):
                            sp = self.split_div(st, x, 1 << kbits)
                            if sp is not None and st.sys.entails_eq(sp[1]) and self.fits(st, x + y, tres):
                                return Num(x + y)
                            break
            # result < 2^k when both operands < 2^k
            for kbits in (1, 2, 3, 4, 5, 6, 7, 8, 12, 16, 24, 32, 48, 64, 96, 128):
                m = (1 << kbits) - 1
                if m <= rng[1] and st.sys.entails_ge(Lin.const(m) - ea) and st.sys.entails_ge(Lin.const(m) - eb):
                    return self.fresh_num(st, 0, m, "or")
            return self.top_num(st, tres)
        return self.top_num(st, tres)

    def split_div(self, st, e, D, _depth=0, _lin=None):
        """e == D*A + B with 0 <= B <= D-1 entailed, read off the reduced form of e; -> (A, B) or None"""
        r = _lin if _lin is not None else st.sys.reduce(e)
        A, B = Lin.const(0), Lin.const(0)
        for v, k in r.t.items():
            if k % D == 0:
                A = A + Lin.var(v).scale(k // D)
            else:
                B = B + Lin.var(v).scale(k)
        qa, rb = divmod(int(r.c), D)
        A, B = A + qa, B + rb
        if not A.t and _depth == 0 and len(r.t) == 1 and r.c == 0 and list(r.t.values()) == [1]:
            # a number that is itself the pivot-free side of a definition (x appears in `p = ... + x + ...`): solve for it
            x = next(iter(r.t))
            for pv, rhs in st.sys.eqs.items():
                k = rhs.t.get(x)
                if k in (1, -1):
                    # p = rhs  =>  x = (p - (rhs - k*x)) / k
                    rest = rhs - Lin.var(x).scale(k)
                    e2 = (Lin.var(pv) - rest).scale(k)
                    got = self.split_div(st, None, D, _depth=1, _lin=e2)
                    if got is not None:
                        return got
        if st.sys.entails_ge(B) and st.sys.entails_ge(Lin.const(D - 1) - B):
            return A, B
        return None

    def top_num(self, st, t):
        r = int_range(t)
        if r is None:
            return TOP
        if t.get("k") == "bool":
            return TOP
        return self.fresh_num(st, r[0], r[1])

    def op_ty(self, fr, op):
        if op["k"] == "const":
            return fr.body.ty(op["ty"])
        return fr.body.ty(op["pl"]["ty"])

    def as_cond(self, v):
        if isinstance(v, Cond):
            return v
        if isinstance(v, Num) and v.e.is_const():
            return Cond("const", v.e.c != 0)
        if isinstance(v, Num):
            return Cond("cmp", "le", Lin.const(1), v.e)      # a 0/1 variable is true iff it is >= 1
        if v is TOP:
            return Cond("unknown")
        return None

    def simplify_cond(self, st, c):
        if c.k == "cmp":
            op, a, b = c.a
            d = st.sys.reduce(b - a)
            if d.is_const():
                if op == "eq":
                    return Cond("const", d.c == 0)
                if op == "lt":
                    return Cond("const", d.c > 0)
                if op == "le":
                    return Cond("const", d.c >= 0)
        if c.k == "not":
            i = c.a[0]
            if i.k == "const":
                return Cond("const", not i.a[0])
            if i.k == "not":
                return i.a[0]
        if c.k == "and":
            a, b = c.a
            if a.k == "const":
                return b if a.a[0] else a
            if b.k == "const":
                return a if b.a[0] else b
        if c.k == "or":
            a, b = c.a
            if a.k == "const":
                return a if a.a[0] else b
            if b.k == "const":
                return b if b.a[0] else a
        return c

    def assume(self, st, c, truth):
        """refine st under cond c == truth; returns False when the refined state is infeasible"""
        if c is TOP or c is None:
            return True
        if isinstance(c, Num):
            cv = st.sys.const_value(c.e)
            if cv is not None:
                return (cv != 0) == truth
            if truth:
                st.sys.add_ge(c.e - 1) if st.sys.entails_ge(c.e) else None
            else:
                st.sys.add_eq(c.e)
            return self.feasible_wrt(st, c.e.t)
        if not isinstance(c, Cond):
            return True
        k = c.k
        if k == "const":
            return c.a[0] == truth
        if k == "unknown":
            return True
        if k == "not":
            return self.assume(st, c.a[0], not truth)
        if k == "and":
            if truth:
                return self.assume(st, c.a[0], True) and self.assume(st, c.a[1], True)
            # not(a and b): only refine when one side is known true
            a, b = c.a
            if self.cond_known(st, a) is True:
                return self.assume(st, b, False)
            if self.cond_known(st, b) is True:
                return self.assume(st, a, False)
            return True
        if k == "or":
            if not truth:
                return self.assume(st, c.a[0], False) and self.assume(st, c.a[1], False)
            a, b = c.a
            if self.cond_known(st, a) is False:
                return self.assume(st, b, True)
            if self.cond_known(st, b) is False:
                return self.assume(st, a, True)
            return True
        if k == "cmp":
            op, a, b = c.a
            if op == "eq":
                if truth:
                    st.sys.add_eq(a - b)
                else:
                    st.sys.add_ne(a - b)
                    # a != b : refine at interval ends
                    if st.sys.entails_ge(a - b):
                        st.sys.add_ge(a - b - 1)
                    elif st.sys.entails_ge(b - a):
                        st.sys.add_ge(b - a - 1)
            elif op == "lt":
                if truth:
                    st.sys.add_ge(b - a - 1)
                else:
                    st.sys.add_ge(a - b)
            elif op == "le":
                if truth:
                    st.sys.add_ge(b - a)
                else:
                    st.sys.add_ge(a - b - 1)
            if st.sys.bottom:
                return False
            return self.feasible_wrt(st, set(a.t) | set(b.t))
        if k == "outside":
            e, lo, hi = c.a
            if not truth:
                st.sys.add_range(e, lo, hi)
                return not st.sys.bottom
            return True
        if k == "discr":
            d, val = c.a
            return self.refine_discr(st, d, val, truth)
        if k == "ucmp":
            # comparison of uninterpreted values: remember the decision taken on this path
            pc = st.cells.get("ghost:pc")
            if isinstance(pc, Trace):
                for e in pc.ev:
                    if e[0] == c.a and e[1] != truth:
                        return False          # contradicts an earlier decision on the same comparison
                if (c.a, truth) not in pc.ev:
                    st.cells["ghost:pc"] = pc.add((c.a, truth))
            return True
        return True

    def cond_known(self, st, c):
        if not isinstance(c, Cond):
            return None
        if c.k == "const":
            return c.a[0]
        if c.k == "cmp":
            op, a, b = c.a
            if op == "lt":
                if st.sys.entails_ge(b - a - 1):
                    return True
                if st.sys.entails_ge(a - b):
                    return False
            if op == "le":
                if st.sys.entails_ge(b - a):
                    return True
                if st.sys.entails_ge(a - b - 1):
                    return False
            if op == "eq":
                if st.sys.entails_eq(a - b):
                    return True
                if st.sys.entails_ge(a - b - 1) or st.sys.entails_ge(b - a - 1):
                    return False
            return None
        if c.k == "not":
            r = self.cond_known(st, c.a[0])
            return None if r is None else (not r)
        if c.k == "outside":
            e, lo, hi = c.a
            if st.sys.entails_ge(e - lo) and st.sys.entails_ge(Lin.const(hi) - e):
                return False
            return None
        if c.k == "and":
            a, b = self.cond_known(st, c.a[0]), self.cond_known(st, c.a[1])
            if a is False or b is False:
                return False
            if a is True and b is True:
                return True
        if c.k == "or":
            a, b = self.cond_known(st, c.a[0]), self.cond_known(st, c.a[1])
            if a is True or b is True:
                return True
            if a is False and b is False:
                return False
        return None

    def feasible_wrt(self, st, vs):
        if st.sys.bottom:
            return False
        from absint.lin import _feasible
        vs = {v for v in vs if v not in st.sys.eqs} | {x for v in vs if v in st.sys.eqs for x in st.sys.eqs[v].t}
        if not _feasible(st.sys._cone(vs)):
            st.sys.bottom = True
            return False
        return True

    # ------------------------------------------------------------------ enums
    def variant_index(self, adt, discr):
        a = self.prog.adts.get(adt)
        if a is None:
            return None
        for i, v in enumerate(a["variants"]):
            d = v.get("discr")
            if d is None:
                d = i
            if d == discr:
                return i
        return None

    def variant_discr(self, adt, idx):
        a = self.prog.adts.get(adt)
        if a is None:
            return idx
        d = a["variants"][idx].get("discr")
        return idx if d is None else d

    def refine_discr(self, st, d, val, truth):
        v = self.load(st, d.cell, d.path)
        if not isinstance(v, Enum):
            return True
        idx = self.variant_index(v.adt, val)
        if idx is None:
            return True
        if truth:
            nv = v.only(idx)
            if nv is None:
                return False
        else:
            nv = v.without(idx)
            if not nv.v:
                return False
        self.store(st, d.cell, d.path, nv)
        # entry snapshots of the same storage learn the variant too, while the field still holds the entry value
        for g, src in self.snapshots.items():
            if src == d.cell and g in st.cells:
                try:
                    gv = self.load(st, g, d.path)
                except Exception:
                    continue
                if gv is v:
                    self.store(st, g, d.path, nv)
        return True

    # ------------------------------------------------------------------ statements
    def rvalue(self, st, fr, rv, dest_ty):
        k = rv["k"]
        b = fr.body
        if k == "use":
            return self.operand(st, fr, rv["op"])
        if k == "copy_for_deref":
            return self.read_place(st, fr, rv["pl"])
        if k in ("ref", "rawptr"):
            pp = rv["pl"]["p"]
            if len(pp) == 1 and pp[0]["k"] == "deref":
                # plain reborrow `&*p`: the same pointer (keeps trait-object tags and multi-target pointers)
                pv = st.cells.get(self.cell_of(fr, rv["pl"]["l"]), TOP)
                if isinstance(pv, (Ref, RefAny)):
                    return pv
            loc = self.locate(st, fr, rv["pl"])
            if loc[0] == "cell":
                # `&*p` where the place is a slice/str: the fat pointer carries the length by value
                pt = b.ty(rv["pl"]["ty"])
                if pt.get("k") in ("slice", "str"):
                    v = self.load(st, loc[1], loc[2])
                    if isinstance(v, Seq):
                        return v
                    return Seq(self.fresh_num(st, 0, ISIZE_MAX, "len").e)
                return Ref(loc[1], loc[2])
            if isinstance(loc[1], Seq):
                return loc[1]
            pt = b.ty(rv["pl"]["ty"])
            if pt.get("k") in ("slice", "str"):
                return Seq(self.fresh_num(st, 0, ISIZE_MAX, "len").e)
            return TOP
        if k == "discr":
            loc = self.locate(st, fr, rv["pl"])
            v = self.load(st, loc[1], loc[2]) if loc[0] == "cell" else loc[1]
            if isinstance(v, Enum):
                if len(v.v) == 1:
                    return Num(Lin.const(self.variant_discr(v.adt, next(iter(v.v)))))
                if loc[0] == "cell":
                    return DiscrOf(loc[1], loc[2], v.adt)
            return TOP
        if k == "cast":
            return self.cast(st, fr, rv)
        if k == "binop":
            return self.binop(st, fr, rv)
        if k == "unop":
            op = rv["op"]
            a = self.operand(st, fr, rv["a"])
            if op == "Not":
                if self.op_ty(fr, rv["a"]).get("k") == "bool":
                    c = self.as_cond(a)
                    return self.simplify_cond(st, Cond("not", c)) if c is not None else TOP
                ta_ = self.op_ty(fr, rv["a"])
                rg = int_range(ta_)
                if isinstance(a, Num) and rg is not None and rg[0] == 0:
                    # bitwise complement of an unsigned value: max - x
                    return Num(Lin.const(rg[1]) - a.e)
                return self.top_num(st, ta_)
            if op == "Neg":
                e = self.as_num(st, a, self.op_ty(fr, rv["a"]))
                return Num(-e)
            if op == "PtrMetadata":
                if isinstance(a, Seq):
                    return Num(a.len)
                if isinstance(a, Ref):
                    v = self.load(st, a.cell, a.path)
                    if isinstance(v, Seq):
                        return Num(v.len)
                return self.fresh_num(st, 0, ISIZE_MAX, "meta")
            return TOP
        if k == "len":
            loc = self.locate(st, fr, rv["pl"])
            v = self.load(st, loc[1], loc[2]) if loc[0] == "cell" else loc[1]
            if isinstance(v, Seq):
                return Num(v.len)
            return self.fresh_num(st, 0, ISIZE_MAX, "len")
        if k == "aggregate":
            agg = rv["agg"]
            ops = [self.operand(st, fr, o) for o in rv["ops"]]
            if agg == "adt":
                a = self.prog.adts.get(rv["adt"])
                s = Struct({i: v for i, v in enumerate(ops)})
                chkf = self.inv_checks.get(rv["adt"])
                if chkf is not None:
                    bb_, part_, si_ = self._cur
                    for j, item in enumerate(chkf(self, st, s)):
                        span_ = fr.body.blocks[bb_]["stmts"][si_].get("span")
                        if item[0] == "mod":
                            _, e, m_, descr = item
                            bad_ = []
                            for r_ in range(1, m_):
                                s_ = st.sys.copy()
                                s_.add_eq(e - Lin.var("zz_q").scale(m_) - r_)
                                if s_.feasible():
                                    bad_.append(r_)
                            self.oblige(fr, bb_, 100 + si_ * 4 + j, part_, "type-invariant", descr, span_, not bad_, "residues %s possible" % bad_ if bad_ else None)
                            continue
                        e, descr = item
                        self.require_ge(st, fr, bb_, 100 + si_ * 4 + j, part_, e, "type-invariant", descr, span_)
                if a is not None and a["kind"] == "enum":
                    return Enum(rv["adt"], {rv["variant"]: s})
                if rv["adt"] in ("std::option::Option", "std::result::Result", "std::ops::ControlFlow", "std::ops::Bound"):
                    return Enum(rv["adt"], {rv["variant"]: s})
                return s
            if agg == "tuple":
                return Struct({i: v for i, v in enumerate(ops)})
            if agg == "array":
                if 0 < len(ops) <= 32 and (all(isinstance(o, Num) and o.e.is_const() for o in ops) or (self.track_content and len(ops) <= 16)):
                    return Seq(Lin.const(len(ops)), None, Struct({i: o for i, o in enumerate(ops)}, tag="elems"))
                return Seq(Lin.const(len(ops)))
            if agg == "closure":
                return Struct({i: v for i, v in enumerate(ops)}, tag=rv.get("key") or rv["closure"])
            return TOP
        if k == "repeat":
            c = rv.get("count")
            if not isinstance(c, int):
                t_ = b.ty(dest_ty)
                if t_.get("k") == "array" and isinstance(t_.get("len"), int):
                    c = t_["len"]
            if isinstance(c, int):
                if self.track_content and 0 < c <= 16:
                    v0 = self.operand(st, fr, rv["op"])
                    return Seq(Lin.const(c), None, Struct({i: v0 for i in range(c)}, tag="elems"), None, ("zeros",) if self.is_zero_value(st, v0) else None)
                return Seq(Lin.const(c))
            t = b.ty(dest_ty)
            if t.get("k") == "array":
                return Seq(Lin.const(t["len"]))
            return TOP
        return TOP

    def cast(self, st, fr, rv):
        kind = rv["kind"]
        b = fr.body
        v = self.operand(st, fr, rv["op"])
        tt = b.ty(rv["ty"])
        if kind == "IntToInt":
            ts = self.op_ty(fr, rv["op"])
            if isinstance(v, DiscrOf):
                return v
            e = self.as_num(st, v, ts)
            if int_range(tt) is None:
                return TOP
            if self.fits(st, e, tt):
                return Num(e)
            lo, hi = int_range(tt)
            if self.track_content:
                # content mode: a truncation is a function of the value truncated (same value, same width -> same bytes)
                cn = "cast%d_%x" % (tt.get("bits", 0), hash_str("%r|%s" % (st.sys.reduce(e), tt.get("s"))) & 0xffffffffffff)
                r = Num(Lin.var(cn))
                st.sys.add_range(r.e, lo, hi)
                self.purefun[cn] = set(e.t)
            else:
                r = self.fresh_num(st, lo, hi, "cast")
            if lo == 0 and st.sys.entails_ge(e):
                st.sys.add_le(r.e, e)       # truncation of a non-negative value never increases it
            self.contents.setdefault("casts", {})[next(iter(r.e.t))] = e       # what was truncated (for rules that read layouts)
            return r
        if kind.startswith("PointerCoercion(Unsize"):
            # &[T; N] -> &[T], &T -> &dyn Trait, Box<[T;N]> -> Box<[T]>
            if tt.get("k") in ("ref", "ptr") and b.ty(tt["to"]).get("k") in ("slice", "str"):
                if isinstance(v, Ref):
                    x = self.load(st, v.cell, v.path)
                    if isinstance(x, Seq) and self.track_content and tt.get("mut") and x.view is None and not str(v.cell).startswith("const:") \
                            and int_range(b.ty(b.ty(tt["to"]).get("of"))) == (0, 255) if "of" in b.ty(tt["to"]) else False:
                        # `&mut [u8; N]` as `&mut [u8]`: a window of the local array, so that writes through it reach the array
                        from absint.models_content import cell_view_id
                        return Seq(x.len, None, None, (cell_view_id(self, v.cell, tuple(v.path)), Lin.const(0)), None)
                    if isinstance(x, Seq):
                        return x
                if isinstance(v, Seq):
                    return v
                return Seq(self.fresh_num(st, 0, ISIZE_MAX, "len").e)
            if tt.get("k") in ("ref", "ptr") and b.ty(tt["to"]).get("k") == "dyn" and isinstance(v, Ref) and v.dyn is None:
                ts = self.op_ty(fr, rv["op"])
                if ts.get("k") in ("ref", "ptr"):
                    src = b.ty(ts["to"])
                    if src.get("k") == "adt":
                        return Ref(v.cell, v.path, dyn=src["path"])
            return v
        if kind in ("PtrToPtr", "PointerCoercion(MutToConstPointer)", "PointerCoercion(ReifyFnPointer)",
                    "PointerCoercion(ClosureFnPointer(Safe))"):
            return v
        if kind == "Transmute":
            if isinstance(v, Seq) and tt.get("k") in ("ptr", "ref") and b.ty(tt["to"]).get("k") in ("slice", "str"):
                return v
            if isinstance(v, (Ref, RefAny)) and tt.get("k") in ("ptr", "ref"):
                return v         # NonNull<T> -> *const U: the same address
            r = int_range(tt)
            if r is not None and isinstance(v, Num) and self.fits(st, v.e, tt):
                return v
            return self.top_num(st, tt) if r is not None else TOP
        return self.top_num(st, tt) if int_range(tt) is not None else TOP

    def exec_stmt(self, st, fr, s):
        k = s["k"]
        if k == "assign":
            v = self.rvalue(st, fr, s["rv"], s["pl"]["ty"])
            self.write_place(st, fr, s["pl"], v)
        elif k == "storage_dead":
            st.cells.pop(self.cell_of(fr, s["l"]), None)
        elif k == "storage_live":
            st.cells.pop(self.cell_of(fr, s["l"]), None)
        elif k == "set_discr":
            loc = self.locate(st, fr, s["pl"])
            if loc[0] == "cell":
                v = self.load(st, loc[1], loc[2])
                if isinstance(v, Enum):
                    self.store(st, loc[1], loc[2], Enum(v.adt, {s["variant"]: v.v.get(s["variant"], Struct())}))

    # ------------------------------------------------------------------ obligations
    def oblige(self, fr, bb, idx, part, kind, descr, span, ok, why=None):
        key = (fr.id, bb, idx, part)
        self.obligations[key] = Obligation(fr.body.key, bb, idx, kind, descr, span, bool(ok), fr.id, why)
        return ok

    def clear_obligations(self, fr, bb):
        pre = "%s/%d." % (fr.id, bb)
        for key in [k for k in self.obligations if (k[0] == fr.id and k[1] == bb) or k[0].startswith(pre)]:
            del self.obligations[key]

    def require_ge(self, st, fr, bb, idx, part, e, kind, descr, span):
        """obligation e >= 0; afterwards assume it"""
        ok = st.sys.entails_ge(e)
        why = None
        if not ok:
            why = "cannot show %r >= 0 (reduced: %r)" % (e, st.sys.reduce(e))
        self.oblige(fr, bb, idx, part, kind, descr, span, ok, why)
        st.sys.add_ge(e)
        return ok

    # ------------------------------------------------------------------ partitions, joins
    def partition_key(self, st, fr):
        """discrete part of a state: the variant sets of enum values (nested up to depth 3) and known booleans"""
        items = []

        def walk(path, v, d, in_result=False):
            if isinstance(v, Enum):
                items.append((path, tuple(sorted(v.v))))
                if d < 6:
                    for i, s in v.v.items():
                        walk("%s#%d" % (path, i), s, d + 1, in_result or (v.adt == "std::result::Result" and i == 1))
            elif isinstance(v, Struct) and d < 7:
                for i, x in v.f.items():
                    if isinstance(x, (Enum, Struct)):
                        walk("%s.%s" % (path, i), x, d + 1, in_result)
                    elif in_result and isinstance(x, Num):
                        # the symbolic shape of a Result payload keeps outcomes of different return sites apart
                        items.append(("%s.%s" % (path, i), repr(x.e)))
        for c, v in st.cells.items():
            if isinstance(v, (Enum, Struct, Cond)):
                walk(c, v, 0)
            elif isinstance(v, Trace):
                items.append((c, repr(v)))
            elif self.path_sensitive and isinstance(v, Term):
                items.append((c, repr(v)))          # uninterpreted values with identity (instants, addresses): different terms, different situations
            elif self.track_content and isinstance(v, (Iter, Seq)) and is_listed(v.items):
                # lists known element by element: paths that built different lists stay apart
                items.append((c, "listed:" + repr(v.items)))
        return tuple(sorted(items))

    def join_values(self, a, b, sa, sb, phis, name):
        if a == b:
            return a
        if isinstance(a, Num) and isinstance(b, Num):
            t = self.fresh("phi")
            e = Lin.var(t)
            sa.add_eq(e - a.e)
            sb.add_eq(e - b.e)
            phis.append((t, name))
            return Num(e)
        if isinstance(a, Seq) and isinstance(b, Seq):
            ln = self.join_values(Num(a.len), Num(b.len), sa, sb, phis, name + ".len")
            view = None
            if a.view is not None and b.view is not None and a.view[0] == b.view[0]:
                off = self.join_values(Num(a.view[1]), Num(b.view[1]), sa, sb, phis, name + ".off")
                view = (a.view[0], off.e)
            src = a.src if a.src == b.src else None
            if src is None and a.src is not None and b.src is not None and (a.src[0] == "patch" or b.src[0] == "patch"):
                # two versions of one buffer that share a history of writes: keep the shared history, everything from the
                # first diverging write on is unknown (writes are append-only where this matters: C03 contiguous-write)
                def chain(w):
                    ps = []
                    while w is not None and w[0] == "patch":
                        ps.append(w[2:])
                        w = w[1]
                    return w, list(reversed(ps))
                ba, pa = chain(a.src)
                bb_, pb = chain(b.src)
                if ba == bb_ and ba is not None:
                    k = 0
                    while k < len(pa) and k < len(pb) and pa[k] == pb[k]:
                        k += 1
                    lo_a = pa[k][0] if k < len(pa) else a.len
                    lo_b = pb[k][0] if k < len(pb) else b.len
                    lo = self.join_values(Num(lo_a), Num(lo_b), sa, sb, phis, name + ".plo")
                    w = ba
                    for q in pa[:k]:
                        w = ("patch", w) + tuple(q)
                    src = ("patch", w, lo.e, ln.e, ("be", 0, None))
            if src is None and src_atom(a.src) and src_atom(b.src) and a.src[0] == b.src[0]:
                # windows of the same content at different offsets: the offset gets a phi variable (as for views)
                so = self.join_values(Num(a.src[1]), Num(b.src[1]), sa, sb, phis, name + ".soff")
                src = (a.src[0], so.e)
            return Seq(ln.e, a.elem, weak_join(a.items, b.items), view, src)
        if isinstance(a, Struct) and isinstance(b, Struct) and a.tag == b.tag:
            f = {}
            for i in set(a.f) & set(b.f):
                f[i] = self.join_values(a.f[i], b.f[i], sa, sb, phis, "%s.%s" % (name, i))
            return Struct(f, a.tag)
        if isinstance(a, Enum) and isinstance(b, Enum) and a.adt == b.adt:
            vs = {}
            for i in set(a.v) | set(b.v):
                if i in a.v and i in b.v:
                    vs[i] = self.join_values(a.v[i], b.v[i], sa, sb, phis, "%s#%s" % (name, i))
                else:
                    vs[i] = a.v.get(i) or b.v.get(i)
            return Enum(a.adt, vs)
        if isinstance(a, Iter) and isinstance(b, Iter) and a.enumerated == b.enumerated and a.kind == b.kind:
            ln = self.join_values(Num(a.len), Num(b.len), sa, sb, phis, name + ".it")
            return Iter(ln.e, a.enumerated, a.kind, a.chunk if a.chunk == b.chunk else None, weak_join(a.items, b.items),
                        a.maps if a.maps == b.maps else ())
        if isinstance(a, Cond) and isinstance(b, Cond):
            return Cond("unknown")
        if isinstance(a, (Ref, RefAny)) and isinstance(b, (Ref, RefAny)):
            return RefAny([a, b])
        return TOP

    def join_states(self, a, b, tag):
        """join two states (b into a); phi variables get canonical names derived from `tag` + cell path"""
        sa, sb = a.sys.copy(), b.sys.copy()
        cells = {}
        phis = []
        for c in a.cells:
            if c in b.cells:
                cells[c] = self.join_values(a.cells[c], b.cells[c], sa, sb, phis, c)
        live = set()
        for v in cells.values():
            v.vars(live)
        for s in (sa, sb):
            dead = s.vars() - keep_ghosts(s, live, self.ghosts, self.purefun)
            if dead:
                s.forget(dead)
        if self.trace == "JOIN":
            print("JOIN sa", sa, "\n     sb", sb)
        # octagon-style candidates between the phi variables of this join: p - q >= min over both sides
        extra = []
        pv = [t for t, _ in phis]
        if 2 <= len(pv) <= 6:
            for i_, p_ in enumerate(pv):
                for q_ in pv[i_ + 1:]:
                    for d_ in (Lin.var(p_) - Lin.var(q_), Lin.var(q_) - Lin.var(p_)):
                        ma, mb = sa.min_of(d_), sb.min_of(d_)
                        if ma is not None and mb is not None and abs(min(ma, mb)) <= 64:
                            extra.append(d_ - min(ma, mb))
        sysj = sys_join(sa, sb, extra_candidates=extra)
        if self.trace == "JOIN":
            print("   => ", sysj)
        # canonical names for the phi variables
        used = sysj.vars() | live
        ren = {}
        for t, name in phis:
            canon = "p%x" % (hash_str("%s@%s" % (tag, name)) & 0xffffffffff)
            if canon not in used and canon not in ren.values():
                ren[t] = canon
        if ren:
            f = lambda v: ren.get(v, v)
            sysj = sysj.rename(f)
            cells = {c: rename_value(v, f) for c, v in cells.items()}
        return State(cells, sysj)

    def state_leq(self, a, b):
        """a ⊑ b (same cell shapes assumed): values equal and constraints of b entailed by a"""
        if set(b.cells) - set(a.cells):
            return False
        for c, vb in b.cells.items():
            if a.cells[c] != vb and vb is not TOP:
                if not value_leq(a.cells[c], vb, a.sys):
                    return False
        return sys_leq(a.sys, b.sys)

    # ------------------------------------------------------------------ running a body
    def run_body(self, fr, st0):
        """-> list of (state, return value)"""
        body = fr.body
        self.analysed[body.key] = self.analysed.get(body.key, 0) + 1
        rpo = body.rpo()
        order = {b: i for i, b in enumerate(rpo)}
        heads = {h for (_, h) in body.back_edges()}
        edges = {}            # (pred, succ) -> list of states
        in_states = {}        # bb -> {part key: state}
        visits = {}
        results = {}          # bb(return) -> list of (state, val)
        heap = [(0, 0)]
        queued = {0}
        first = True
        while heap:
            _, bb = heapq.heappop(heap)
            queued.discard(bb)
            if time.process_time() > self.deadline:
                # fail closed, distinctly: the analysis of this entry did not finish inside its budget
                raise FailClosed("analysis budget of %d CPU-seconds exceeded in %s" % (self.budget_s, body.key))
            if bb == 0 and first:
                first = False
                parts = {self.partition_key(st0, fr): st0}
                if 0 in heads:
                    in_states[0] = parts
            else:
                incoming = []
                for p in body.preds(bb):
                    sts = edges.get((p, bb), [])
                    if bb in heads:
                        # ghost iteration counter of this loop: 0 on entry, +1 on every back edge
                        kc = "%s:k@bb%d" % (fr.id, bb)
                        back = body.dominates(bb, p)
                        sts2 = []
                        for s_ in sts:
                            s_ = s_.copy()
                            s_.cells.pop("%s:ghost@bb%d" % (fr.id, bb), None)
                            if back:
                                old = s_.cells.get(kc)
                                s_.cells[kc] = Num(old.e + 1) if isinstance(old, Num) else self.fresh_num(s_, 0, None, "k")
                            else:
                                s_.cells[kc] = Num(Lin.const(0))
                            sts2.append(s_)
                        sts = sts2
                    incoming.extend(sts)
                if bb == 0:
                    incoming.append(st0)
                parts = self.merge_parts(incoming, fr, bb)
                if self.trace and self.trace == "%s:bb%d" % (body.key, bb):
                    for s_ in incoming:
                        print("IN  ", {c.rsplit(":", 1)[-1]: v for c, v in s_.cells.items() if c.startswith(fr.id + ":")}, "\n     ", s_.sys)
                    for s_ in parts.values():
                        print("OUT ", {c.rsplit(":", 1)[-1]: v for c, v in s_.cells.items() if c.startswith(fr.id + ":")}, "\n     ", s_.sys)
                if bb in heads:
                    old = in_states.get(bb)
                    n = visits.get(bb, 0) + 1
                    visits[bb] = n
                    if n > MAX_VISITS:
                        raise FailClosed("loop at bb%d of %s does not stabilise" % (bb, body.key))
                    if old is not None:
                        newparts = {}
                        changed = False
                        for key in set(old) | set(parts):
                            if key in old and key in parts:
                                if self.state_leq(parts[key], old[key]):
                                    newparts[key] = old[key]
                                    continue
                                j = self.join_states(old[key], parts[key], "%s:bb%d" % (fr.id, bb))
                                if n > WIDEN_AFTER:
                                    j.sys = sys_widen(old[key].sys, j.sys, thresholds=(n <= WIDEN_AFTER + 3))
                                if self.state_leq(j, old[key]):
                                    newparts[key] = old[key]
                                else:
                                    newparts[key] = j
                                    changed = True
                            elif key in old:
                                newparts[key] = old[key]
                            else:
                                newparts[key] = parts[key]
                                changed = True
                        if not changed:
                            continue
                        parts = newparts
                    in_states[bb] = parts
            if not parts:
                continue
            if self.trace and bb in heads and self.trace in body.key:
                for key, st_ in parts.items():
                    print("HEAD bb%d visit %d of %s\n   cells: %s\n   sys: %r" % (bb, visits.get(bb, 0), fr.id[-50:], {c.rsplit(":", 1)[-1]: v for c, v in st_.cells.items() if c.startswith(fr.id + ":") and not isinstance(v, (Struct, Enum)) or c.endswith(("_0",))}, st_.sys))
            self.clear_obligations(fr, bb)
            results.pop(bb, None)
            outs = {}
            for pi, (key, st) in enumerate(sorted(parts.items(), key=lambda kv: repr(kv[0]))):
                st = st.copy()
                if bb in heads:
                    # snapshot of the numeric state at the start of this iteration (for ranking arguments)
                    snap = {}
                    for c_, v_ in st.cells.items():
                        if ":k@bb" not in c_ and ":ghost@bb" not in c_:
                            num_leaves(c_, v_, snap)
                    st.cells["%s:ghost@bb%d" % (fr.id, bb)] = Struct({n_: Num(e_) for n_, e_ in snap.items()})
                for succ, st2, ret in self.exec_block(st, fr, bb, pi):
                    if succ is None:
                        results.setdefault(bb, []).append((st2, ret))
                    else:
                        outs.setdefault(succ, []).append(st2)
            for s in body.succs(bb):
                new = outs.get(s, [])
                edges[(bb, s)] = new
                if s not in queued and (new or s in in_states or any(edges.get((p, s)) for p in body.preds(s))):
                    heapq.heappush(heap, (order.get(s, 1 << 30), s))
                    queued.add(s)
        for h in heads:
            if h in in_states:
                backs = []
                for p_ in body.preds(h):
                    if body.dominates(h, p_):
                        backs.extend(edges.get((p_, h), []))
                self.loops[(body.key, fr.id, h)] = (in_states[h], backs)
        out = []
        for bb in sorted(results):
            out.extend(results[bb])
        return out

    def exit_chain(self, body):
        """blocks from which the function returns without further branching or calls: return states are kept
        apart there (one per return site) instead of being joined"""
        c = getattr(body, "_exit_chain", None)
        if c is None:
            c = set()
            changed = True
            while changed:
                changed = False
                for bi, blk in enumerate(body.blocks):
                    if bi in c:
                        continue
                    t = blk["term"]
                    if t["k"] == "return" or (t["k"] in ("goto", "drop") and t["t"] in c):
                        c.add(bi)
                        changed = True
            body._exit_chain = c
        return c

    def merge_parts(self, states, fr, bb):
        parts = {}
        keep_apart = bb in self.exit_chain(fr.body)
        for n_, st in enumerate(states):
            if st.sys.bottom:
                continue
            k = self.partition_key(st, fr)
            if keep_apart:
                k = k + (("#site", n_),)
            if k in parts:
                parts[k] = self.join_states(parts[k], st, "%s:bb%d" % (fr.id, bb))
            else:
                parts[k] = st
        if len(parts) > getattr(self, "max_parts", MAX_PARTS):
            it = iter(parts.values())
            acc = next(it)
            for st in it:
                acc = self.join_states(acc, st, "%s:bb%d" % (fr.id, bb))
            parts = {self.partition_key(acc, fr): acc}
        return parts

    def exec_block(self, st, fr, bb, part):
        self.reached.add((fr.body.key, bb))
        return self._exec_block(st, fr, bb, part)

    def _exec_block(self, st, fr, bb, part):
        """-> list of (succ bb | None, state, retval)"""
        body = fr.body
        blk = body.blocks[bb]
        for si, s in enumerate(blk["stmts"]):
            self._cur = (bb, part, si)
            self.exec_stmt(st, fr, s)
            if st.sys.bottom:
                return []
        t = blk["term"]
        k = t["k"]
        if k == "goto":
            return [(t["t"], st, None)]
        if k == "return":
            return [(None, st, st.cells.get(self.cell_of(fr, 0), TOP))]
        if k in ("unreachable", "resume", "abort"):
            return []
        if k == "drop":
            return [(t["t"], st, None)]
        if k == "switch":
            return self.exec_switch(st, fr, bb, t)
        if k == "assert":
            return self.exec_assert(st, fr, bb, part, t)
        if k == "call":
            return self.exec_call(st, fr, bb, part, t)
        raise FailClosed("unsupported terminator %s in %s" % (k, body.key))

    def exec_switch(self, st, fr, bb, t):
        out = self._exec_switch(st, fr, bb, t)
        if self.path_sensitive and len(out) > 1 and "ghost:path" in st.cells:
            # decision-table runs: outside loops every undecided branch stays on the path's record, so that paths that
            # took different branches are never merged (inside loops the usual joins apply)
            sp = str(t.get("span") or "")
            lst = st.cells.get("ghost:listed")
            bounded = isinstance(lst, Num) and lst.e.is_const() and lst.e.c == 1       # inside a walk over a listed (finite) iterator
            here = bb not in self._inloop(fr.body)
            if sp.startswith(("stun-proto/", "stun-types/")):
                # (branches of expanded logging macros carry the macro's span and are not recorded)
                if (here and not getattr(fr, "in_loop", False)) or bounded:
                    for tb, s2, _ in out:
                        p_ = s2.cells.get("ghost:path")
                        if isinstance(p_, Trace):
                            s2.cells["ghost:path"] = p_.add(("br", fr.id[-40:], bb, tb))
                elif here and fr.depth > 0:
                    # a callee invoked from inside a loop: its own branches stay apart until it returns (the record is a
                    # local of the frame and disappears with it; the return states are kept apart by their values)
                    cn = fr.id + ":_path"
                    for tb, s2, _ in out:
                        p_ = s2.cells.get(cn)
                        s2.cells[cn] = (p_ if isinstance(p_, Trace) else Trace()).add((bb, tb))
        return out

    def _inloop(self, body):
        inloop = getattr(body, "_inloop", None)
        if inloop is None:
            inloop = set()
            for (_, h) in body.back_edges():
                inloop |= set(body.natural_loop(h))
            body._inloop = inloop
        return inloop

    def _exec_switch(self, st, fr, bb, t):
        v = self.operand(st, fr, t["op"])
        targets = t["targets"]
        other = t["otherwise"]
        out = []
        ty = self.op_ty(fr, t["op"])
        if isinstance(v, Cond):
            # bool switch: targets [[0, bbF]], otherwise bbT
            for val, tb in targets:
                s2 = st.copy()
                if self.assume(s2, v, val != 0):
                    out.append((tb, s2, None))
            vals = {val for val, _ in targets}
            s2 = st.copy()
            ok = True
            if ty.get("k") == "bool":
                truth = not (0 in vals) if len(vals) == 1 else None
                if truth is not None:
                    ok = self.assume(s2, v, 0 in vals)
            if ok:
                out.append((other, s2, None))
            return out
        if isinstance(v, DiscrOf):
            seen = set()
            for val, tb in targets:
                s2 = st.copy()
                if self.refine_discr(s2, v, val, True):
                    out.append((tb, s2, None))
                seen.add(val)
            s2 = st.copy()
            ok = True
            for val in seen:
                if not self.refine_discr(s2, v, val, False):
                    ok = False
                    break
            if ok:
                out.append((other, s2, None))
            return out
        if isinstance(v, Num):
            cv = st.sys.const_value(v.e)
            if cv is not None:
                for val, tb in targets:
                    if val == cv:
                        return [(tb, st, None)]
                return [(other, st, None)]
            for val, tb in targets:
                s2 = st.copy()
                s2.sys.add_eq(v.e - val)
                if not s2.sys.bottom and self.feasible_wrt(s2, v.e.t):
                    out.append((tb, s2, None))
            s2 = st.copy()
            for val, _ in targets:
                s2.sys.add_ne(v.e - val)
            # exclude the listed values at the ends of the range
            for val, _ in sorted(targets):
                if s2.sys.entails_ge(v.e - val):
                    if s2.sys.entails_ge(Lin.const(val) - v.e):
                        s2.sys.bottom = True
                        break
                    s2.sys.add_ge(v.e - val - 1) if self._is_min(s2, v.e, val) else None
            if not s2.sys.bottom:
                out.append((other, s2, None))
            return out
        # unknown
        seen = []
        for val, tb in targets:
            if tb not in seen:
                seen.append(tb)
                out.append((tb, st.copy(), None))
        if other not in seen:
            out.append((other, st.copy(), None))
        return out

    def _is_min(self, st, e, val):
        return st.sys.entails_ge(e - val)

    def exec_assert(self, st, fr, bb, part, t):
        cond = self.operand(st, fr, t["cond"])
        expected = t["expected"]
        m = t["msg"]
        kind = m["kind"]
        descr = kind
        if kind == "Overflow":
            descr = "no overflow in %s" % m["op"]
        elif kind == "BoundsCheck":
            descr = "index < len"
        known = None
        c = self.as_cond(cond) if not isinstance(cond, Cond) else cond
        if kind == "BoundsCheck":
            ln = self.as_num(st, self.operand(st, fr, m["len"]), self.op_ty(fr, m["len"]))
            ix = self.as_num(st, self.operand(st, fr, m["index"]), self.op_ty(fr, m["index"]))
            ok = st.sys.entails_ge(ln - ix - 1)
            self.oblige(fr, bb, 0, part, "assert:BoundsCheck", "index %r < len %r" % (ix, ln), t["span"], ok,
                        None if ok else "cannot show %r < %r" % (st.sys.reduce(ix), st.sys.reduce(ln)))
            st.sys.add_ge(ln - ix - 1)
            return [(t["t"], st, None)] if not st.sys.bottom else []
        if c is not None:
            known = self.cond_known(st, c)
        ok = known is not None and known == expected
        why = None
        if not ok:
            why = "condition %r not shown to be %s" % (c, expected)
        self.oblige(fr, bb, 0, part, "assert:%s%s" % (kind, (":" + m["op"]) if m.get("op") else ""), descr, t["span"], ok, why)
        if c is not None:
            if not self.assume(st, c, expected):
                return []
        return [(t["t"], st, None)]

    # ------------------------------------------------------------------ calls
    def exec_call(self, st, fr, bb, part, t):
        body = fr.body
        targets = self.prog.resolve_call(body, t)
        args = [self.operand(st, fr, a) for a in t["args"]]
        if args and isinstance(args[0], RefAny):
            # the receiver points to one of several places: analyse the call once per target
            outs = []
            for tg in args[0].targets:
                outs.extend(self._exec_call_with(st.copy(), fr, bb, part, t, targets, [tg] + args[1:]))
            return outs
        return self._exec_call_with(st, fr, bb, part, t, targets, args)

    def _exec_call_with(self, st, fr, bb, part, t, targets, args):
        body = fr.body
        f = t["func"]
        if args and isinstance(args[0], Ref) and args[0].dyn and (f.get("res") or {}).get("kind") == "virtual" and len(targets) > 1:
            pat = re.compile(r"^<%s(<[^>]*>)? as " % re.escape(args[0].dyn))
            only = [x for x in targets if x[0] == "local" and pat.match(x[1])]
            if only:
                targets = only
        outs = []
        dm = self.def_models.get(f.get("def")) if (f.get("res") or {}).get("kind") == "virtual" and len(targets) != 1 else None
        if dm is not None and not (args and isinstance(args[0], Ref) and args[0].dyn):
            # a trait-object call whose receiver type is unknown: the rule's summary of the method's contract
            ctx = CallCtx(self, st, fr, bb, part, f.get("full") or f.get("def"), args, t)
            for st2, ret in dm(ctx):
                if t.get("t") is None or st2.sys.bottom:
                    continue
                self.write_place(st2, fr, t["dest"], ret)
                outs.append((t["t"], st2, None))
            return outs
        local = [x for x in targets if x[0] == "local"]
        if len(local) > 1:
            # class-hierarchy candidates: drop impls whose parameter types cannot be the argument types at this site
            local = [x for x in local if self._sig_compatible(fr, t, self.prog.bodies[x[1]])] or local
        nonlocal_ = [x for x in targets if x[0] != "local"]
        results = []
        if local:
            multi = len(local) > 1
            for x in local:
                lm = self.local_models.get(x[1]) or self.local_models.get(self.prog.bodies[x[1]].defp)
                if lm is not None:
                    ctx = CallCtx(self, st.copy() if (multi or nonlocal_) else st, fr, bb, part, x[1], args, t)
                    results.extend(lm(ctx))
                    continue
                res = self.call_local(st.copy() if (multi or nonlocal_) else st, fr, bb, x[1], args, t, part=part)
                results.extend(res)
        for x in nonlocal_:
            if x[0] == "unknown":
                raise FailClosed("unresolvable call in %s bb%d: %s" % (body.key, bb, x[1]))
            res = self.call_ext(st.copy() if local else st, fr, bb, part, x[1], args, t)
            results.extend(res)
        for st2, ret in results:
            if t.get("t") is None:
                continue
            if st2.sys.bottom:
                continue
            self.write_place(st2, fr, t["dest"], ret)
            outs.append((t["t"], st2, None))
        return outs

    def pure_int_fn(self, body):
        c = getattr(body, "_pure_int", None)
        if c is None:
            c = body.kind in ("fn", "assoc_fn") and body.arg_count >= 1
            if c:
                for i in range(0, body.arg_count + 1):
                    if int_range(body.local_ty(i)) is None:
                        c = False
                for blk in body.blocks:
                    if blk["term"]["k"] in ("call", "tailcall", "drop"):
                        c = False
                    for s_ in blk["stmts"]:
                        if s_["k"] == "assign" and ("static" in repr(s_["rv"]) or s_["rv"]["k"] in ("ref", "rawptr")):
                            c = False
            body._pure_int = c
        return c

    def _sig_compatible(self, fr, t, callee):
        from mir import strip_lifetimes
        for i, a in enumerate(t["args"]):
            if i + 1 > callee.arg_count:
                return False
            ta = self.op_ty(fr, a)
            tp = callee.local_ty(i + 1)
            sa, sp = _canon_ty(ta.get("s", "")), _canon_ty(tp.get("s", ""))
            if sa == sp:
                continue
            if _generic_ty(sa) or _generic_ty(sp):
                continue
            return False
        return True

    def call_local(self, st, fr, bb, key, args, term, frame_tag=None, part=0, unpacked=False):
        callee = self.prog.bodies[key]
        ph = self.pre_hooks.get(key) or self.pre_hooks.get(callee.defp)
        if ph is not None:
            ph(self, st, fr, args)
        if fr.depth + 1 > MAX_DEPTH:
            raise FailClosed("inlining depth exceeded at %s -> %s" % (fr.body.key, key))
        if key in fr.parent_keys or key == fr.body.key:
            raise FailClosed("recursive call %s -> %s" % (fr.body.key, key))
        fid = "%s/%d.%d:%s" % (fr.id, bb, part, frame_tag or short_key(key))
        nf = Frame(fid, callee, fr.depth + 1, fr.parent_keys | {fr.body.key})
        nf.in_loop = getattr(fr, "in_loop", False) or (bb in self._inloop(fr.body))
        # "rust-call" ABI: a closure called through Fn*::call* gets its arguments as one tuple
        n = callee.arg_count
        argv = list(args)
        if callee.kind == "closure" and len(argv) == 2 and n != 2 and isinstance(argv[1], Struct) and argv[1].tag is None:
            argv = [argv[0]] + [argv[1].get(i) for i in range(n - 1)]
        elif not unpacked and callee.kind == "closure" and len(argv) == 2 and n == 2 and isinstance(argv[1], Struct) and argv[1].tag is None and set(argv[1].f) == {0} \
                and callee.local_ty(2).get("k") != "tuple":
            argv = [argv[0], argv[1].get(0)]       # a one-parameter closure called directly: the 1-tuple is spread as well
        for i in range(n):
            st.cells[self.cell_of(nf, i + 1)] = argv[i] if i < len(argv) else TOP
        res = self.run_body(nf, st)
        out = []
        pre = fid + ":_"
        pre2 = fid + "/"
        hook = self.ret_hooks.get(key) or self.ret_hooks.get(callee.defp)
        canon = None
        if argv and all(isinstance(a_, Num) for a_ in argv[:n]) and self.pure_int_fn(callee):
            # a pure function of integers: equal arguments give equal results, so its result gets a variable
            # named after (function, arguments); repeated evaluations then agree
            canon = "f%x" % (hash_str(key + "|" + "|".join(repr(st.sys.reduce(a_.e)) for a_ in argv[:n])) & 0xffffffffffff)
            self.purefun[canon] = set().union(*[set(a_.e.t) for a_ in argv[:n]]) if argv else set()
        for st2, ret in res:
            if canon is not None and isinstance(ret, Num):
                cv = Lin.var(canon)
                st2.sys.add_eq(cv - ret.e)
                ret = Num(cv)
            for c in [c for c in st2.cells if c.startswith(pre) or c.startswith(pre2)]:
                del st2.cells[c]
            if hook is not None:
                hook(self, st2, fr, ret)
            self.gc(st2, extra=ret)
            out.append((st2, ret))
        return out

    def gc(self, st, extra=None):
        live = st.live_vars()
        if extra is not None:
            extra.vars(live)
        dead = st.sys.vars() - keep_ghosts(st.sys, live, self.ghosts, self.purefun)
        if dead:
            st.sys.forget(dead)

    def call_ext(self, st, fr, bb, part, name, args, term):
        m = self.models.lookup(name)
        if m is None:
            self.unmodelled.setdefault(name, "%s bb%d %s" % (fr.body.key, bb, short_span(term["span"])))
            self.oblige(fr, bb, 9, part, "unmodelled-callee", name, term["span"], False, "no model for external callee")
            m = self.models.default
        self.model_used[m.__name__] = self.model_used.get(m.__name__, 0) + 1
        ctx = CallCtx(self, st, fr, bb, part, name, args, term)
        res = m(ctx)
        if res is None:
            res = [(st, ctx.top_ret())]
        return res

    # ------------------------------------------------------------------ entry points
    def analyse_entry(self, key, setup=None):
        body = self.prog.bodies[key]
        fr = Frame("E[%s]" % short_key(key), body, 0, frozenset())
        st = State()
        for i in range(body.arg_count):
            l = i + 1
            st.cells[self.cell_of(fr, l)] = self.top_of(st, body, body.locals[l]["ty"], hint="a%d" % l, region_prefix=fr.id + ":a%d" % l)
        if setup:
            setup(self, st, fr)
        return self.run_body(fr, st)


def num_leaves(prefix, v, out):
    """flatten the numeric leaves (integers, lengths) of a value: name -> Lin"""
    if isinstance(v, Num):
        out[prefix] = v.e
    elif isinstance(v, Seq):
        out[prefix + ".len"] = v.len
    elif isinstance(v, Struct):
        for i, x in v.f.items():
            num_leaves("%s.%s" % (prefix, i), x, out)
    elif isinstance(v, Enum) and len(v.v) == 1:
        for i, s_ in v.v.items():
            num_leaves("%s#%s" % (prefix, i), s_, out)
    elif isinstance(v, Iter):
        out[prefix + ".it"] = v.len


def _canon_ty(s):
    s = re.sub(r"'[a-z_0-9]+\s*", "", s)
    s = s.replace("<>", "").replace("&mut ", "&")
    return re.sub(r"\s+", " ", s).strip()


def _generic_ty(s):
    """mentions a type parameter, Self, a trait object or an opaque type"""
    return bool(re.search(r"(^|[^\w:])(Self|[A-Z]\w?|impl |dyn )($|[^\w:]|\b)", s)) or "{closure" in s


def keep_ghosts(sys_, live, ghosts, purefun=None):
    """a quotient ghost q (a = c*q + r) stays alive while its dividend is live and its remainder is a known
    constant, i.e. while `a = c*q + const` is an equality of the system (congruence information)"""
    out = set(live)
    for v in sys_.vars():
        if purefun and v in purefun and purefun[v] <= live:
            out.add(v)      # result of a pure integer function whose arguments are still alive
            continue
        if v[0] == "e" and "@" in v and v.split("@", 1)[1] in live:
            out.add(v)      # byte of an input slice that is still alive
            continue
        g = ghosts.get(v)
        if g is not None and v not in out:
            a, c = g
            if set(a.t) <= live and sys_.reduce(a - Lin.var(v).scale(c)).is_const():
                out.add(v)
    return out


def short_key(key):
    s = re.sub(r"<[^<>]*>", "", key)
    s = re.sub(r"<[^<>]*>", "", s)
    parts = [p for p in re.split(r"::", s) if p]
    return "::".join(parts[-2:])[:60].replace("/", "|").replace(":", ".") + "#%x" % (hash_str(key) & 0xffff)


def hash_str(s):
    h = 0
    for ch in s:
        h = (h * 1000003 + ord(ch)) & 0xffffffffffff
    return h


def event(st, *e):
    """append an event to the path's trace (if the rule set one up)"""
    t = st.cells.get("ghost:trace")
    if isinstance(t, Trace):
        st.cells["ghost:trace"] = t.add(tuple(e))


def rename_value(v, f):
    if isinstance(v, Num):
        return Num(v.e.rename(f))
    if isinstance(v, Seq):
        return Seq(v.len.rename(f), v.elem, rename_value(v.items, f) if isinstance(v.items, V) else v.items,
                   (v.view[0], v.view[1].rename(f)) if v.view is not None else None, src_rename(v.src, f))
    if isinstance(v, Struct):
        return Struct({i: rename_value(x, f) for i, x in v.f.items()}, v.tag)
    if isinstance(v, Enum):
        return Enum(v.adt, {i: rename_value(x, f) for i, x in v.v.items()})
    if isinstance(v, Iter):
        return Iter(v.len.rename(f), v.enumerated, v.kind, v.chunk.rename(f) if v.chunk is not None else None,
                    rename_value(v.items, f) if isinstance(v.items, V) else v.items, tuple(rename_value(m, f) for m in v.maps))
    if isinstance(v, Cond):
        return Cond(v.k, *[x.rename(f) if isinstance(x, Lin) else (rename_value(x, f) if isinstance(x, V) else x) for x in v.a])
    if isinstance(v, Term):
        return Term(v.op, *[x.rename(f) if isinstance(x, Lin) else (rename_value(x, f) if isinstance(x, V) else x) for x in v.a])
    if isinstance(v, Trace):
        return Trace(tuple(tuple(x.rename(f) if isinstance(x, Lin) else (rename_value(x, f) if isinstance(x, V) else x) for x in e) for e in v.ev))
    return v


def value_leq(a, b, sys_):
    """a ⊑ b structurally, numeric leaves compared under sys_ (a's constraints)"""
    if b is TOP or a == b:
        return True
    if isinstance(a, Num) and isinstance(b, Num):
        return sys_.entails_eq(a.e - b.e)
    if isinstance(a, Seq) and isinstance(b, Seq):
        return sys_.entails_eq(a.len - b.len) and (b.items is None or a.items == b.items or isinstance(a.items, Empty)) and \
            (b.view is None or (a.view is not None and a.view[0] == b.view[0] and sys_.entails_eq(a.view[1] - b.view[1])))
    if isinstance(a, Struct) and isinstance(b, Struct) and a.tag == b.tag:
        return all(i in a.f and value_leq(a.f[i], x, sys_) for i, x in b.f.items())
    if isinstance(a, Enum) and isinstance(b, Enum) and a.adt == b.adt:
        return all(i in b.v and value_leq(x, b.v[i], sys_) for i, x in a.v.items())
    if isinstance(a, Iter) and isinstance(b, Iter):
        return a.enumerated == b.enumerated and sys_.entails_eq(a.len - b.len)
    if isinstance(a, Cond) and isinstance(b, Cond) and b.k == "unknown":
        return True
    return False


class CallCtx:
    """what a model sees"""

    def __init__(self, it, st, fr, bb, part, name, args, term):
        self.it, self.st, self.fr, self.bb, self.part, self.name, self.args, self.term = it, st, fr, bb, part, name, args, term
        self.nob = 1

    def ret_ty(self):
        return self.fr.body.ty(self.term["dest"]["ty"])

    def top_ret(self, st=None):
        return self.it.top_of(st or self.st, self.fr.body, self.term["dest"]["ty"], hint="r")

    def arg_ty(self, i):
        return self.it.op_ty(self.fr, self.term["args"][i])

    def deref(self, v, st=None):
        st = st or self.st
        n = 0
        while isinstance(v, Ref) and n < 8:
            v = self.it.load(st, v.cell, v.path)
            n += 1
        return v

    def seq_len(self, v, st=None):
        """length (Lin) of a sequence-like argument (through references)"""
        st = st or self.st
        v = self.deref(v, st)
        if isinstance(v, Seq):
            return v.len
        if isinstance(v, Struct) and len(v.f) == 1:      # newtype around a sequence
            return self.seq_len(next(iter(v.f.values())), st)
        return self.it.fresh_num(st, 0, ISIZE_MAX, "len").e

    def num(self, v, i=None, st=None):
        st = st or self.st
        v = self.deref(v, st)
        return self.it.as_num(st, v, self.arg_ty(i) if i is not None else None)

    def require_ge(self, e, kind, descr, st=None):
        idx = self.nob
        self.nob += 1
        return self.it.require_ge(st or self.st, self.fr, self.bb, idx, self.part, e, kind, descr, self.term["span"])

    def oblige(self, ok, kind, descr, why=None):
        idx = self.nob
        self.nob += 1
        return self.it.oblige(self.fr, self.bb, idx, self.part, kind, descr, self.term["span"], ok, why)

    def havoc_mut_args(self):
        """pointees of &mut arguments become unknown"""
        for i, a in enumerate(self.args):
            t = self.arg_ty(i)
            if t.get("k") == "ref" and t.get("mut") and isinstance(a, Ref):
                self.it.store(self.st, a.cell, a.path, TOP)

    def escape(self, v, depth=0):
        """closures / fn items handed to external code that may call them later"""
        if depth > 6:
            return
        if isinstance(v, Struct):
            if v.tag:
                self.it.escaped.add(v.tag)
            for x in v.f.values():
                self.escape(x, depth + 1)
        elif isinstance(v, Iter):
            for m_ in v.maps:      # closures of a lazy adaptor consumed by opaque code
                self.escape(m_, depth + 1)
        elif isinstance(v, FnV):
            self.it.escaped.add(v.key)
        elif isinstance(v, Ref):
            self.escape(self.it.load(self.st, v.cell, v.path), depth + 1)
        elif isinstance(v, Enum):
            for x in v.v.values():
                self.escape(x, depth + 1)

    def call_closure(self, st, clos, argv, tag):
        """invoke a closure value in context; -> list of (state, ret) or None when not a known closure"""
        c = self.deref(clos, st)
        if isinstance(c, Struct) and c.tag and c.tag in self.it.prog.bodies:
            # the closure body takes its environment as _1 (by value or by reference depending on kind)
            body = self.it.prog.bodies[c.tag]
            envt = body.local_ty(1)
            if envt.get("k") == "ref":
                if isinstance(clos, Ref):
                    env = clos
                else:
                    cell = "%s/%d.%d:env%s" % (self.fr.id, self.bb, self.part, tag)
                    st.cells[cell] = c
                    env = Ref(cell)
            else:
                env = c
            return self.it.call_local(st, self.fr, self.bb, c.tag, [env] + list(argv), self.term, frame_tag="cl%s" % tag, part=self.part, unpacked=True)
        if isinstance(c, FnV) and c.key in self.it.prog.bodies:
            return self.it.call_local(st, self.fr, self.bb, c.key, list(argv), self.term, frame_tag="fn%s" % tag, part=self.part)
        return None
