"""Linear arithmetic for the abstract interpreter (E2): linear expressions over named integer variables,
constraint systems (affine equalities in reduced form + linear inequalities), entailment by Fourier-Motzkin
elimination over the rationals with integer tightening, join = affine hull (Karr) for equalities and mutual
entailment for inequalities, widening, projection.

Everything is sound for integer-valued variables: a rational-infeasible system is integer-infeasible, and
constants are only ever tightened in the integer direction (floor after dividing by the gcd of coefficients).
"""
from fractions import Fraction
from math import gcd

WIDEN_STEPS = (1, 2, 3, 4, 8, 16, 32, 64, 256, 4096, 65536)
RELAX_MAX = 64    # joins relax a one-sided constraint by at most this much (avoids type-range noise)
FM_CAP = 1500          # max constraints during an elimination step; beyond it the query answers "unknown"


class Lin:
    """c0 + sum(c[v] * v), integer or Fraction coefficients; immutable by convention."""
    __slots__ = ("t", "c", "_h")

    def __init__(self, terms=None, const=0):
        self.t = {v: k for v, k in (terms or {}).items() if k != 0}
        self.c = const
        self._h = None

    @staticmethod
    def var(v):
        return Lin({v: 1}, 0)

    @staticmethod
    def const(c):
        return Lin({}, c)

    def is_const(self):
        return not self.t

    def vars(self):
        return self.t.keys()

    def coeff(self, v):
        return self.t.get(v, 0)

    def __add__(self, o):
        if not isinstance(o, Lin):
            return Lin(self.t, self.c + o)
        t = dict(self.t)
        for v, k in o.t.items():
            n = t.get(v, 0) + k
            if n == 0:
                t.pop(v, None)
            else:
                t[v] = n
        return Lin(t, self.c + o.c)

    def __neg__(self):
        return Lin({v: -k for v, k in self.t.items()}, -self.c)

    def __sub__(self, o):
        if not isinstance(o, Lin):
            return Lin(self.t, self.c - o)
        return self + (-o)

    def scale(self, k):
        if k == 0:
            return Lin()
        return Lin({v: c * k for v, c in self.t.items()}, self.c * k)

    def subst(self, v, e):
        k = self.t.get(v)
        if k is None:
            return self
        t = dict(self.t)
        del t[v]
        return Lin(t, self.c) + e.scale(k)

    def subst_map(self, m):
        """simultaneous substitution var -> Lin for vars in m"""
        hit = [v for v in self.t if v in m]
        if not hit:
            return self
        r = Lin({v: k for v, k in self.t.items() if v not in m}, self.c)
        for v in hit:
            r = r + m[v].scale(self.t[v])
        return r

    def rename(self, f):
        t = {}
        for v, k in self.t.items():
            nv = f(v)
            t[nv] = t.get(nv, 0) + k
        return Lin(t, self.c)

    def key(self):
        return (tuple(sorted(self.t.items())), self.c)

    def __eq__(self, o):
        return isinstance(o, Lin) and self.t == o.t and self.c == o.c

    def __hash__(self):
        if self._h is None:
            self._h = hash(self.key())
        return self._h

    def __repr__(self):
        parts = []
        for v, k in sorted(self.t.items()):
            if k == 1:
                parts.append("+%s" % v)
            elif k == -1:
                parts.append("-%s" % v)
            else:
                parts.append("%+g*%s" % (float(k), v) if not isinstance(k, int) else "%+d*%s" % (k, v))
        if self.c != 0 or not parts:
            parts.append("%+d" % self.c if isinstance(self.c, int) else "%+s" % self.c)
        s = " ".join(parts)
        return s[1:] if s.startswith("+") else s


def norm_ineq(e):
    """normalise `e >= 0` (integer vars): integer coefficients with gcd 1, constant floored. Returns Lin or
    True (trivially true) / False (trivially false)."""
    if any(isinstance(k, Fraction) for k in e.t.values()) or isinstance(e.c, Fraction):
        den = 1
        for k in list(e.t.values()) + [e.c]:
            if isinstance(k, Fraction):
                den = den * k.denominator // gcd(den, k.denominator)
        e = Lin({v: int(k * den) for v, k in e.t.items()}, Fraction(e.c) * den)
    if not e.t:
        return e.c >= 0
    g = 0
    for k in e.t.values():
        g = gcd(g, abs(int(k)))
    c = e.c
    if g > 1:
        t = {v: int(k) // g for v, k in e.t.items()}
        c = Fraction(c, g)
    else:
        t = {v: int(k) for v, k in e.t.items()}
    # floor the constant: sum(t) + c >= 0 with integer sum  <=>  sum >= -c  <=> sum >= ceil(-c) <=> sum + floor(c) >= 0
    if isinstance(c, Fraction):
        c = c.numerator // c.denominator
    return Lin(t, int(c))


def norm_eq(e):
    """normalise `e == 0`: integer coefficients gcd 1 and a canonical sign; returns Lin / True / False"""
    if any(isinstance(k, Fraction) for k in e.t.values()) or isinstance(e.c, Fraction):
        den = 1
        for k in list(e.t.values()) + [e.c]:
            if isinstance(k, Fraction):
                den = den * k.denominator // gcd(den, k.denominator)
        e = Lin({v: int(k * den) for v, k in e.t.items()}, int(Fraction(e.c) * den))
    if not e.t:
        return e.c == 0
    g = 0
    for k in e.t.values():
        g = gcd(g, abs(int(k)))
    if g > 1:
        if e.c % g != 0:
            return False      # no integer solution
        e = Lin({v: int(k) // g for v, k in e.t.items()}, int(e.c) // g)
    return e


class Infeasible(Exception):
    pass


class System:
    """eqs: {pivot var: Lin over non-pivot vars} (pivot = Lin);  ineqs: set of Lin (meaning >= 0) over non-pivot
    vars.  `bottom` marks an infeasible system."""

    def __init__(self):
        self.eqs = {}
        self.iq = {}          # linear part (sorted term tuple) -> tightest Lin with that linear part
        self.neqs = set()     # Lin e with e != 0 (only used to refute later equalities)
        self.cand = set()     # inequalities in the form they were asserted (not reduced): join candidates
        self.bottom = False

    @property
    def ineqs(self):
        return self.iq.values()

    @ineqs.setter
    def ineqs(self, cons):
        self.iq = {}
        for q in cons:
            self._put(q)

    def _put(self, q):
        k = tuple(sorted(q.t.items()))
        old = self.iq.get(k)
        if old is None or q.c < old.c:
            self.iq[k] = q
            return True
        return False

    def copy(self):
        s = System()
        s.eqs = dict(self.eqs)
        s.iq = dict(self.iq)
        s.neqs = set(self.neqs)
        s.cand = set(self.cand)
        s.bottom = self.bottom
        return s

    def add_ne(self, e):
        """assume e != 0"""
        if self.bottom:
            return
        r = self.reduce(e)
        if r.is_const():
            if r.c == 0:
                self.bottom = True
            return
        n = norm_eq(r)
        if n is True or n is False:
            return
        self.neqs.add(n)

    def _check_neqs(self):
        for q in list(self.neqs):
            r = self.reduce(q)
            if r.is_const():
                if r.c == 0:
                    self.bottom = True
                    return
                self.neqs.discard(q)

    # ---- normal forms
    def reduce(self, e):
        return e.subst_map(self.eqs) if self.eqs else e

    def vars(self):
        vs = set(self.eqs)
        for e in self.eqs.values():
            vs.update(e.t)
        for e in self.ineqs:
            vs.update(e.t)
        return vs

    # ---- adding facts
    def add_eq(self, e):
        """assume e == 0"""
        if self.bottom:
            return
        e = norm_eq(self.reduce(e))
        if e is True:
            return
        if e is False:
            self.bottom = True
            return
        # choose a pivot with coefficient +-1 when possible (keeps integers), prefer "younger" temporaries
        piv = None
        for v, k in e.t.items():
            if abs(k) == 1 and (piv is None or _pivot_rank(v) > _pivot_rank(piv)):
                piv = v
        if piv is None:
            piv = max(e.t, key=_pivot_rank)
        k = e.t[piv]
        rest = Lin({v: c for v, c in e.t.items() if v != piv}, e.c)
        if abs(k) == 1:
            rhs = rest.scale(-k)      # piv = -rest/k
        else:
            rhs = rest.scale(Fraction(-1, k))
        # substitute into existing
        for p, ex in list(self.eqs.items()):
            if piv in ex.t:
                self.eqs[p] = ex.subst(piv, rhs)
        self.eqs[piv] = rhs
        newi = set()
        for q in self.ineqs:
            if piv in q.t:
                n = norm_ineq(q.subst(piv, rhs))
                if n is True:
                    continue
                if n is False:
                    self.bottom = True
                    return
                newi.add(n)
            else:
                newi.add(q)
        self.ineqs = newi
        self._pair_equalities()
        if self.neqs:
            self._check_neqs()

    def _pair_equalities(self):
        """lin + c1 >= 0 and -lin + c2 >= 0 with c1 + c2 == 0 is an equality (integer tightening often produces these)"""
        for _ in range(8):
            found = None
            for k, q in self.iq.items():
                kn = tuple(sorted((v, -c) for v, c in k))
                o = self.iq.get(kn)
                if o is not None:
                    if o.c + q.c < 0:
                        self.bottom = True
                        return
                    if o.c + q.c == 0:
                        found = (k, kn, q)
                        break
            if found is None or self.bottom:
                return
            k, kn, q = found
            del self.iq[k]
            self.iq.pop(kn, None)
            self.add_eq(q)

    def add_ge(self, e):
        """assume e >= 0"""
        if self.bottom:
            return
        if 1 < len(e.t) <= 4 and len(self.cand) < 96:
            n0 = norm_ineq(e)
            if n0 is not True and n0 is not False:
                self.cand.add(n0)
        n = norm_ineq(self.reduce(e))
        if n is True:
            return
        if n is False:
            self.bottom = True
            return
        k = tuple(sorted(n.t.items()))
        old = self.iq.get(k)
        if old is not None and old.c <= n.c:
            return
        # e >= 0 and -e >= 0 both present -> equality (or contradiction)
        kn = tuple(sorted((v, -c) for v, c in n.t.items()))
        opp = self.iq.get(kn)
        if opp is not None:
            # opp: -lin + c2 >= 0, n: lin + c1 >= 0  =>  -c1 <= lin <= c2
            if opp.c + n.c < 0:
                self.bottom = True
                return
            if opp.c + n.c == 0:
                del self.iq[kn]
                self.iq.pop(k, None)
                self.add_eq(n)
                return
        self.iq[k] = n

    def add_le(self, a, b):
        self.add_ge(b - a)

    def add_range(self, e, lo, hi):
        if lo is not None:
            self.add_ge(e - lo)
        if hi is not None:
            self.add_ge(Lin.const(hi) - e)

    # ---- queries
    def entails_ge(self, e):
        """does the system entail e >= 0 ?"""
        if self.bottom:
            return True
        r = norm_ineq(self.reduce(e))
        if r is True:
            return True
        if r is False:
            # constant negative: entailed only if the system is infeasible
            return not self.feasible()
        old = self.iq.get(tuple(sorted(r.t.items())))
        if old is not None and old.c <= r.c:
            return True
        # cheap: interval bounds of the single variables
        lb = self._interval_lower(r)
        if lb is not None and lb >= 0:
            return True
        # refute: ineqs and (r <= -1)
        neg = norm_ineq(-r - 1)
        return not _feasible(self._cone(set(r.t)), extra=[neg])

    def _interval_lower(self, r):
        """lower bound of r from the single-variable constraints only (None = unbounded)"""
        tot = r.c
        for v, k in r.t.items():
            lo = self.iq.get(((v, 1),))
            hi = self.iq.get(((v, -1),))
            if k > 0:
                if lo is None:
                    return None
                tot += k * (-lo.c)          # v + c >= 0  ->  v >= -c
            else:
                if hi is None:
                    return None
                tot += k * hi.c             # -v + c >= 0 ->  v <= c
        return tot

    def entails_eq(self, e):
        r = self.reduce(e)
        if r.is_const():
            return r.c == 0 or not self.feasible()
        return self.entails_ge(e) and self.entails_ge(-e)

    def feasible(self):
        if self.bottom:
            return False
        if not _feasible(list(self.ineqs)):
            self.bottom = True
            return False
        return True

    def _cone(self, vs):
        """inequalities transitively connected to the variables vs"""
        rest = list(self.iq.values())
        out = []
        vs = set(vs)
        changed = True
        while changed:
            changed = False
            keep = []
            for q in rest:
                if any(v in vs for v in q.t):
                    out.append(q)
                    for v in q.t:
                        if v not in vs:
                            vs.add(v)
                            changed = True
                else:
                    keep.append(q)
            rest = keep
        return out

    def min_of(self, e):
        """greatest integer m such that the system entails e >= m (None when unbounded below / unknown)"""
        if self.bottom:
            return None
        r = self.reduce(e)
        if r.is_const():
            return r.c if isinstance(r.c, int) else None
        z = "zz_obj"
        cons = self._cone(set(r.t))
        # z = r  as two inequalities
        zl = Lin.var(z) - r
        cons = list(cons) + [c for c in (norm_ineq(zl), norm_ineq(-zl)) if c is not True and c is not False]
        try:
            vs = set()
            for q in cons:
                vs.update(q.t)
            vs.discard(z)
            while vs:
                cnt = {}
                for q in cons:
                    for v, k in q.t.items():
                        if v != z:
                            a = cnt.setdefault(v, [0, 0])
                            a[0 if k > 0 else 1] += 1
                if not cnt:
                    break
                v = min(cnt, key=lambda x: (cnt[x][0] * cnt[x][1] - cnt[x][0] - cnt[x][1], x))
                cons = _eliminate(cons, v)
                vs.discard(v)
        except Infeasible:
            return None
        except OverflowError:
            return None
        best = None
        for q in cons:
            k = q.t.get(z, 0)
            if k > 0 and len(q.t) == 1:
                # k*z + c >= 0  ->  z >= ceil(-c/k)
                m = -(q.c // k)
                if best is None or m > best:
                    best = m
        return best

    def const_value(self, e):
        r = self.reduce(e)
        return r.c if r.is_const() else None

    def upper_bound(self, e, candidates):
        """smallest candidate c with e <= c entailed, or None"""
        for c in sorted(candidates):
            if self.entails_ge(Lin.const(c) - e):
                return c
        return None

    # ---- projection
    def forget(self, vs):
        """existentially quantify the variables vs (sound over-approximation: exact for equalities, FM for
        inequalities with a size cap, dropping constraints when the cap is hit)."""
        if self.bottom:
            return
        vs = set(vs)
        if self.neqs:
            self.neqs = {q for q in (self.reduce(x) for x in self.neqs) if not (set(q.t) & vs) and not q.is_const()}
        if self.cand:
            self.cand = {q for q in self.cand if not (set(q.t) & vs)}
        for v in list(vs):
            if v in self.eqs:
                # pivot: just drop its defining row (no other row mentions a pivot)
                del self.eqs[v]
        for v in sorted(vs):
            # v is non-pivot; if some row mentions v, re-pivot that row on v and drop it
            users = [p for p, ex in self.eqs.items() if v in ex.t]
            if users:
                # choose the row where v has coefficient +-1 if any
                users.sort(key=lambda p: (abs(self.eqs[p].t[v]) != 1, -_pivot_rank(p)))
                p = users[0]
                ex = self.eqs.pop(p)
                k = ex.t[v]
                # p = ex  =>  v = (p - (ex - k v)) / k
                rest = Lin({x: c for x, c in ex.t.items() if x != v}, ex.c)
                rhs = (Lin.var(p) - rest).scale(Fraction(1, k) if abs(k) != 1 else k)
                for q, ey in list(self.eqs.items()):
                    if v in ey.t:
                        self.eqs[q] = ey.subst(v, rhs)
                newi = set()
                for q in self.ineqs:
                    if v in q.t:
                        n = norm_ineq(q.subst(v, rhs))
                        if n is True:
                            continue
                        if n is False:
                            self.bottom = True
                            return
                        newi.add(n)
                    else:
                        newi.add(q)
                self.ineqs = newi
                # rows with Fraction coefficients are fine (Lin handles them)
            else:
                self.ineqs = _eliminate(list(self.iq.values()), v, drop_on_cap=True)

    def rename(self, f):
        s = System()
        s.bottom = self.bottom
        for p, ex in self.eqs.items():
            s.eqs[f(p)] = ex.rename(f)
        s.ineqs = [q.rename(f) for q in self.iq.values()]
        s.neqs = {q.rename(f) for q in self.neqs}
        s.cand = {q.rename(f) for q in self.cand}
        return s

    def all_constraints(self):
        """(eq list as Lin == 0, ineq list as Lin >= 0)"""
        return [Lin.var(p) - ex for p, ex in self.eqs.items()], list(self.iq.values())

    def __repr__(self):
        if self.bottom:
            return "<bottom>"
        return "{%s | %s}" % ("; ".join("%s = %r" % (p, e) for p, e in sorted(self.eqs.items())),
                              "; ".join("%r >= 0" % q for q in sorted(self.ineqs, key=lambda q: repr(q))))


import re as _re
_INPUT = _re.compile(r"^t\d+_a\d+(_|$)")


def _pivot_rank(v):
    """which variable to solve for first: temporaries (highest rank) before join variables before canonical function
    results before symbolic inputs - so that reduced forms are expressed over the inputs whenever possible"""
    if _INPUT.match(v):
        return 0
    c = v[0]
    if c == "t":
        try:
            return 1000000 + int(v[1:].split("_")[0].split("@")[0].split(":")[0])
        except ValueError:
            return 1000000
    if c == "p":
        return 500000
    if c in ("f", "e"):
        return 1000
    return 10


HUGE = 1 << 33


def _noise(q):
    """a multi-variable consequence whose constant is of the order of a machine-integer range: an artefact of
    projecting type ranges, never useful and expensive to carry (dropping a constraint is always sound)"""
    return len(q.t) >= 2 and abs(q.c) >= HUGE


def _eliminate(cons, v, drop_on_cap=False):
    pos, neg, rest = [], [], []
    for q in cons:
        k = q.t.get(v, 0)
        if k > 0:
            pos.append(q)
        elif k < 0:
            neg.append(q)
        else:
            rest.append(q)
    if len(pos) * len(neg) + len(rest) > FM_CAP:
        if drop_on_cap:
            return rest
        raise OverflowError("FM cap")
    out = set(rest)
    for p in pos:
        kp = p.t[v]
        for n in neg:
            kn = -n.t[v]
            r = norm_ineq(p.scale(kn) + n.scale(kp))
            if r is True:
                continue
            if r is False:
                raise Infeasible()
            if drop_on_cap and _noise(r):
                continue
            out.add(r)
    return list(out)


def _feasible(cons, extra=()):
    """rational feasibility of a conjunction of `Lin >= 0` by Fourier-Motzkin; unknown (cap) -> True"""
    cons = list(set(cons) | set(extra))
    for q in cons:
        if q is False:
            return False
    cons = [q for q in cons if q is not True]
    try:
        while True:
            # quick contradiction check on single-variable / constant constraints is implicit in norm
            vs = {}
            for q in cons:
                for v, k in q.t.items():
                    a = vs.setdefault(v, [0, 0])
                    if k > 0:
                        a[0] += 1
                    else:
                        a[1] += 1
            if not vs:
                return all(q.c >= 0 for q in cons)
            # variables bounded on one side only can be dropped with all their constraints
            one_sided = [v for v, (p, n) in vs.items() if p == 0 or n == 0]
            if one_sided:
                os_ = set(one_sided)
                cons = [q for q in cons if not any(v in os_ for v in q.t)]
                continue
            v = min(vs, key=lambda x: (vs[x][0] * vs[x][1] - vs[x][0] - vs[x][1], x))
            cons = _eliminate(cons, v)
    except Infeasible:
        return False
    except OverflowError:
        return True


# ---------------------------------------------------------------------------------------------
# join / widening

def _rows(sys_, cols):
    """equalities as row vectors over cols (+ constant last): pivot - expr = 0"""
    rows = []
    for p, ex in sys_.eqs.items():
        r = [Fraction(0)] * (len(cols) + 1)
        r[cols[p]] = Fraction(1)
        for v, k in ex.t.items():
            r[cols[v]] -= Fraction(k)
        r[-1] = Fraction(-ex.c)      # p - sum - c = 0   ->  coefficients . x + const = 0
        rows.append(r)
    return rows


def _nullspace(mat, ncols):
    """basis of {x : mat x = 0} for mat given as list of rows (Fractions), x of dimension ncols"""
    m = [list(r) for r in mat]
    piv_cols = []
    r = 0
    for c in range(ncols):
        pr = None
        for i in range(r, len(m)):
            if m[i][c] != 0:
                pr = i
                break
        if pr is None:
            continue
        m[r], m[pr] = m[pr], m[r]
        pv = m[r][c]
        m[r] = [x / pv for x in m[r]]
        for i in range(len(m)):
            if i != r and m[i][c] != 0:
                f = m[i][c]
                m[i] = [a - f * b for a, b in zip(m[i], m[r])]
        piv_cols.append(c)
        r += 1
        if r == len(m):
            break
    free = [c for c in range(ncols) if c not in piv_cols]
    basis = []
    for f in free:
        x = [Fraction(0)] * ncols
        x[f] = Fraction(1)
        for i, pc in enumerate(piv_cols):
            x[pc] = -m[i][f]
        basis.append(x)
    return basis


def hull_eqs(a, b):
    """affine hull of the equality parts of two feasible systems: list of Lin (== 0)"""
    if not a.eqs or not b.eqs:
        return []
    # cheap path: identical rows
    same = [p for p, ex in a.eqs.items() if b.eqs.get(p) == ex]
    vs = set()
    for s in (a, b):
        for p, ex in s.eqs.items():
            vs.add(p)
            vs.update(ex.t)
    cols = {v: i for i, v in enumerate(sorted(vs))}
    ra, rb = _rows(a, cols), _rows(b, cols)
    n = len(cols) + 1
    # find (u, w) with u.RA = w.RB : unknown vector of size len(ra)+len(rb); one equation per column
    mat = []
    for c in range(n):
        mat.append([ra[i][c] for i in range(len(ra))] + [-rb[j][c] for j in range(len(rb))])
    ns = _nullspace(mat, len(ra) + len(rb))
    out = []
    inv = sorted(vs)
    for x in ns:
        row = [Fraction(0)] * n
        for i in range(len(ra)):
            if x[i] != 0:
                row = [r + x[i] * q for r, q in zip(row, ra[i])]
        e = Lin({inv[c]: row[c] for c in range(n - 1) if row[c] != 0}, row[-1])
        ne = norm_eq(e)
        if ne is True or ne is False:
            continue
        out.append(ne)
    return out


def join(a, b, extra_candidates=()):
    """least-effort sound join: Karr hull of equalities + every inequality (or equality half) of either side
    that the other side entails."""
    if a.bottom:
        return b.copy()
    if b.bottom:
        return a.copy()
    r = System()
    for e in hull_eqs(a, b):
        r.add_eq(e)
    cands = set()
    for s in (a, b):
        for q in s.ineqs:
            cands.add(q)
        for p, ex in s.eqs.items():
            e = Lin.var(p) - ex
            if not r.entails_eq(e):
                n1, n2 = norm_ineq(e), norm_ineq(-e)
                for n in (n1, n2):
                    if n is not True and n is not False:
                        cands.add(n)
    for q in extra_candidates:
        n = norm_ineq(q)
        if n is not True and n is not False:
            cands.add(n)
    def _refutes(sys_, q):
        # does sys_ exclude q == 0 (by one of its disequalities, or because q == 0 is infeasible there)
        t = sys_.copy()
        t.add_eq(q)
        return t.bottom or not t.feasible()
    for q in sorted(a.neqs | b.neqs, key=lambda x: x.key()):
        if (q in a.neqs or _refutes(a, q)) and (q in b.neqs or _refutes(b, q)):
            r.neqs.add(q)
    for q in a.cand | b.cand:
        cands.add(q)
    for q in sorted(cands, key=lambda x: x.key()):
        if _noise(q):
            continue
        ea, eb = a.entails_ge(q), b.entails_ge(q)
        if ea and eb:
            r.add_ge(q)
            if q in a.cand or q in b.cand:
                r.cand.add(q)
        elif ea or eb:
            # relax the constant: the side that does not entail q may still bound its expression from below
            m = (b if ea else a).min_of(q)
            if m is not None and m < 0 and -m <= RELAX_MAX:
                r.add_ge(q - m)
    return r


def _widen(old, new, thresholds=False):
    """old ∇ new with new ⊒ old expected: keep equalities in the hull, inequalities of old that new entails"""
    if old.bottom:
        return new.copy()
    if new.bottom:
        return old.copy()
    r = System()
    for e in hull_eqs(old, new):
        r.add_eq(e)
    for q in sorted(old.ineqs, key=lambda x: x.key()):
        if new.entails_ge(q):
            r.add_ge(q)
        elif thresholds and len(q.t) == 1 and abs(q.c) <= 64:
            # widening with thresholds (small counters only): relax the bound by a small step instead of dropping it
            for d in WIDEN_STEPS[:6]:
                if new.entails_ge(q + d):
                    r.add_ge(q + d)
                    break
    for p, ex in old.eqs.items():
        e = Lin.var(p) - ex
        if not r.entails_eq(e):
            for n in (norm_ineq(e), norm_ineq(-e)):
                if n is not True and n is not False and new.entails_ge(n):
                    r.add_ge(n)
    return r



def widen(old, new, thresholds=True):
    r = _widen(old, new, thresholds=thresholds)
    # disequalities both iterates agree on survive widening (they are only ever used to refute equalities)
    for q in old.neqs & new.neqs:
        r.neqs.add(q)
    return r

def leq(a, b):
    """a ⊑ b : every constraint of b is entailed by a"""
    if a.bottom:
        return True
    if b.bottom:
        return not a.feasible()
    eqs, ineqs = b.all_constraints()
    return all(a.entails_eq(e) for e in eqs) and all(a.entails_ge(q) for q in ineqs)
