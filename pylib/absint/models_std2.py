"""More std models, used by the decision-table extraction over the agent: time values as uninterpreted terms,
ordered/hashed maps and sets abstracted by the presence of symbolic keys with an event trace, Box allocation."""
import re
from absint.lin import Lin
from absint.values import *
from absint.interp import ISIZE_MAX, int_range, event
from absint.models import M, OPTION, RESULT


def first(pattern, doc=""):
    """register a model that takes precedence over the generic ones"""
    def deco(fn):
        M.rx.insert(0, (re.compile(pattern), fn))
        M.names[fn.__name__] = doc
        M.exact.clear()
        return fn
    return deco


def tag_seqs(v, prefix):
    """give every byte container directly inside a struct value a content identity, so that copies of it are recognised"""
    if isinstance(v, Struct):
        for i, fv in list(v.f.items()):
            if isinstance(fv, Seq) and fv.view is None and fv.src is None:
                v = v.with_field(i, Seq(fv.len, fv.elem, fv.items, None, ("%s.%s" % (prefix, i), Lin.const(0))))
    return v


def val(c, v):
    return c.deref(v)


# ------------------------------------------------------------------------------------------- time

@first(r"^<std::time::Instant as std::ops::Add<std::time::Duration>>::add$|^<std::time::Duration as std::ops::Add>::add$|^<std::time::Duration as std::ops::Add<std::time::Duration>>::add$")
def time_add(c):
    return [(c.st, Term("add", val(c, c.args[0]), val(c, c.args[1])))]


@first(r"^<std::time::Instant as std::ops::Sub<std::time::Duration>>::sub$|^<std::time::Instant as std::ops::Sub>::sub$|^std::time::Instant::duration_since$")
def time_sub(c):
    return [(c.st, Term("sub", val(c, c.args[0]), val(c, c.args[1])))]


@first(r"^<std::time::Duration as std::ops::Mul<u32>>::mul$")
def dur_mul(c):
    return [(c.st, Term("mul", val(c, c.args[0]), val(c, c.args[1])))]


@first(r"^std::time::Duration::saturating_mul$")
def dur_sat_mul(c):
    # agrees with `*` wherever `*` does not overflow (and `*` panics where it does): the same term
    return [(c.st, Term("mul", val(c, c.args[0]), val(c, c.args[1])))]


@first(r"^<std::ops::Range<u(8|16|32|64|size)> as std::iter::Iterator>::(map|fold)::<")
def range_probe(c):
    """(opt-in, set by a rule) a closure mapped / folded over an integer range is additionally evaluated in context for the
    constant indices 0..n, the results are handed to the rule; the call itself is then modelled as usual"""
    probe = getattr(c.it, "range_probe", None)
    if probe is not None:
        op = re.search(r"::(map|fold)::<", c.name).group(1)
        f = c.args[-1]
        for i in range(probe["n"]):
            st = c.st.copy()
            try:
                if op == "map":
                    res = c.call_closure(st, f, [Num(Lin.const(i))], "rp%d" % i)
                else:
                    res = c.call_closure(st, f, [Term("in", "acc"), Num(Lin.const(i))], "rp%d" % i)
            except Exception as e:      # the probe never decides anything by failing
                res = None
                probe.setdefault("errors", []).append("%s: %s" % (type(e).__name__, e))
            probe["out"].append((op, i, c.fr.body.key, res))
    return c.it.models.lookup_after(c.name, range_probe)(c)


@first(r"^std::time::Duration::(from_millis|from_secs|from_micros|from_nanos|new)$")
def dur_from(c):
    return [(c.st, Term(c.name.rsplit("::", 1)[1], *[val(c, a) for a in c.args]))]


@first(r"^std::time::Duration::(as_millis|as_secs|as_micros|as_nanos|subsec_millis|subsec_nanos)$")
def dur_as(c):
    # an uninterpreted non-negative number determined by the duration
    t = c.ret_ty()
    lo, hi = int_range(t)
    probe = getattr(c.it, "range_probe", None)
    d = val(c, c.args[0])
    if probe is not None and isinstance(d, Term):
        # the same duration gives the same number: a variable named after the term (kept small enough for lossless casts)
        name = "%s{%r}" % (c.name.rsplit("::", 1)[1], d)
        probe["terms"][name] = d
        v = Lin.var(name)
        c.st.sys.add_range(v, 0, 2 ** 62)
        return [(c.st, Num(v))]
    n = c.it.fresh_num(c.st, lo, hi, "ms")
    return [(c.st, n)]


UCMP = re.compile(r"^<std::time::(Instant|Duration) as std::cmp::PartialOrd>::(lt|le|gt|ge)$|^std::cmp::impls::<impl std::cmp::PartialOrd<&std::time::(Instant|Duration)> for &std::time::(Instant|Duration)>::(lt|le|gt|ge)$")


@first(UCMP.pattern)
def time_cmp(c):
    op = c.name.rsplit("::", 1)[1]
    a, b = val(c, c.args[0]), val(c, c.args[1])
    if op in ("gt", "ge"):
        a, b = b, a
        op = {"gt": "lt", "ge": "le"}[op]
    return [(c.st, Cond("ucmp", (op, a, b)))]


@first(r"^<std::time::(Instant|Duration) as std::cmp::PartialEq>::(eq|ne)$")
def time_eq(c):
    a, b = val(c, c.args[0]), val(c, c.args[1])
    cnd = Cond("ucmp", ("eq", a, b))
    return [(c.st, cnd if c.name.endswith("::eq") else Cond("not", cnd))]


@first(r"^<std::time::(Instant|Duration) as std::clone::Clone>::clone$|^<std::net::SocketAddr as std::clone::Clone>::clone$")
def opaque_clone(c):
    return [(c.st, val(c, c.args[0]))]


@first(r"^<std::net::SocketAddr as std::cmp::PartialEq>::(eq|ne)$")
def addr_eq(c):
    a, b = val(c, c.args[0]), val(c, c.args[1])
    if isinstance(a, Term) and isinstance(b, Term):
        cnd = Cond("const", True) if a == b else Cond("ucmp", ("eq", a, b))
        return [(c.st, cnd if c.name.endswith("::eq") else c.it.simplify_cond(c.st, Cond("not", cnd)))]
    return [(c.st, TOP)]


# ------------------------------------------------------------------------------------------- maps and sets

def key_repr(c, k):
    k = val(c, k)
    if isinstance(k, Struct) and len(k.f) == 1:
        k0 = next(iter(k.f.values()))
        if isinstance(k0, Num):
            return "K[%r]" % (c.st.sys.reduce(k0.e),), k
    if isinstance(k, Num):
        return "K[%r]" % (c.st.sys.reduce(k.e),), k
    if isinstance(k, Term):
        return "K[%r]" % (k,), k
    return None, k


def map_id(c, m):
    """identity of the container: the cell path of the receiver"""
    if isinstance(m, Ref):
        return "%s%s" % (m.cell.rsplit(":", 1)[-1] if "*" in m.cell else m.cell, "".join(".%s" % (p[1],) for p in m.path if p[0] == "f"))
    return None


def presence(c, mid, kr):
    g = c.st.cells.get("ghost:map:%s" % mid)
    if isinstance(g, Struct):
        v = g.get(kr)
        if isinstance(v, Num) and v.e.is_const():
            return bool(v.e.c)
    return None


def set_presence(st, mid, kr, p):
    name = "ghost:map:%s" % mid
    g = st.cells.get(name)
    if not isinstance(g, Struct):
        g = Struct()
    st.cells[name] = g.with_field(kr, Num(Lin.const(1 if p else 0)))


def fork_presence(c, mid, kr):
    """-> [(state, present?)] : the key's presence is decided once per path"""
    p = presence(c, mid, kr)
    if p is not None:
        return [(c.st, p)]
    s1, s2 = c.st, c.st.copy()
    set_presence(s1, mid, kr, True)
    set_presence(s2, mid, kr, False)
    event(s1, "lookup", mid, kr, True)
    event(s2, "lookup", mid, kr, False)
    return [(s1, True), (s2, False)]


MAP = r"std::collections::(BTreeMap|HashMap|btree_map::BTreeMap|hash_map::HashMap)::<.*>"


@first(r"^" + MAP + r"::contains_key::<.*>$")
def map_contains(c):
    mid = map_id(c, c.args[0])
    kr, k = key_repr(c, c.args[1])
    if mid is None or kr is None:
        return [(c.st, TOP)]
    return [(s, Cond("const", p)) for s, p in fork_presence(c, mid, kr)]


def stored_value(st, mid, kr):
    return st.cells.get("ghost:mapval:%s:%s" % (mid, kr))


@first(r"^" + MAP + r"::insert$")
def map_insert(c):
    mid = map_id(c, c.args[0])
    kr, k = key_repr(c, c.args[1])
    v = c.args[2]
    if mid is None or kr is None:
        c.havoc_mut_args()
        return [(c.st, c.top_ret())]
    out = []
    for s, p in fork_presence(c, mid, kr):
        event(s, "insert", mid, kr, v)
        set_presence(s, mid, kr, True)
        old = stored_value(s, mid, kr)
        s.cells["ghost:mapval:%s:%s" % (mid, kr)] = v
        if p:
            out.append((s, Enum(OPTION, {1: Struct({0: old if old is not None else TOP})})))
        else:
            out.append((s, Enum(OPTION, {0: Struct()})))
    return out


@first(r"^" + MAP + r"::remove::<.*>$")
def map_remove(c):
    mid = map_id(c, c.args[0])
    kr, k = key_repr(c, c.args[1])
    if mid is None or kr is None:
        c.havoc_mut_args()
        return [(c.st, c.top_ret())]
    out = []
    for s, p in fork_presence(c, mid, kr):
        event(s, "remove", mid, kr, p)
        if p:
            old = stored_value(s, mid, kr)
            if old is None:
                r = c.it.top_of(s, c.fr.body, c.term["dest"]["ty"], hint="taken")
                old = r.v[1].get(0) if isinstance(r, Enum) and 1 in r.v else TOP
                s.cells["ghost:taken:%s:%s" % (mid, kr)] = old
            set_presence(s, mid, kr, False)
            s.cells.pop("ghost:mapval:%s:%s" % (mid, kr), None)
            out.append((s, Enum(OPTION, {1: Struct({0: old})})))
        else:
            out.append((s, Enum(OPTION, {0: Struct()})))
    return out


@first(r"^" + MAP + r"::(get|get_mut)::<.*>$")
def map_get(c):
    mid = map_id(c, c.args[0])
    kr, k = key_repr(c, c.args[1])
    if mid is None or kr is None:
        return [(c.st, c.top_ret())]
    out = []
    for s, p in fork_presence(c, mid, kr):
        if p:
            cell = "mapslot:%s:%s" % (mid, kr)
            if cell not in s.cells:
                old = stored_value(s, mid, kr)
                if old is None:
                    r = c.it.top_of(s, c.fr.body, c.term["dest"]["ty"], hint="slot", region_prefix="mapslot:%s" % mid)
                    pv = r.v[1].get(0) if isinstance(r, Enum) and 1 in r.v else TOP
                    if isinstance(pv, Ref):
                        if not pv.path and isinstance(s.cells.get(pv.cell), Struct):
                            s.cells[pv.cell] = tag_seqs(s.cells[pv.cell], "slot")
                            g = "ghost:slot0:%s:%s" % (mid, kr)
                            s.cells[g] = s.cells[pv.cell]
                            s.cells["ghost:slotcell:%s:%s" % (mid, kr)] = pv
                            c.it.snapshots[g] = pv.cell
                        out.append((s, Enum(OPTION, {1: Struct({0: pv})})))
                        continue
                    old = tag_seqs(pv, "slot")
                s.cells[cell] = old
                s.cells["ghost:slot0:%s:%s" % (mid, kr)] = old
                s.cells["ghost:slotcell:%s:%s" % (mid, kr)] = Ref(cell)
            out.append((s, Enum(OPTION, {1: Struct({0: Ref(cell)})})))
        else:
            out.append((s, Enum(OPTION, {0: Struct()})))
    return out


def entry_variants(c):
    for path in ("std::collections::btree_map::Entry", "std::collections::hash_map::Entry"):
        a = c.it.prog.adts.get(path)
        if a:
            names = [v["name"] for v in a["variants"]]
            return path, names.index("Vacant"), names.index("Occupied")
    return "std::collections::btree_map::Entry", 0, 1


@first(r"^" + MAP + r"::entry$")
def map_entry(c):
    mid = map_id(c, c.args[0])
    kr, k = key_repr(c, c.args[1])
    if mid is None or kr is None:
        c.havoc_mut_args()
        return [(c.st, c.top_ret())]
    path, vac, occ = entry_variants(c)
    out = []
    for s, p in fork_presence(c, mid, kr):
        payload = Struct({0: Term("entry", mid, kr, k)})
        out.append((s, Enum(path, {occ if p else vac: payload})))
    return out


@first(r"^std::collections::(btree_map|hash_map)::VacantEntry::<.*>::insert$|^std::collections::(btree_map|hash_map)::(entry::)?VacantEntry::<.*>::insert_entry$")
def vacant_insert(c):
    e = c.args[0]
    if isinstance(e, Term) and e.op == "entry":
        mid, kr = e.a[0], e.a[1]
        event(c.st, "insert", mid, kr, c.args[1])
        set_presence(c.st, mid, kr, True)
        c.st.cells["ghost:mapval:%s:%s" % (mid, kr)] = c.args[1]
        cell = "mapslot:%s:%s" % (mid, kr)
        c.st.cells[cell] = c.args[1]
        return [(c.st, Ref(cell))]
    return [(c.st, c.top_ret())]


def entry_item(c, op, elem_cell):
    """what one step of `values` / `values_mut` / `iter` / `iter_mut` / `keys` hands out for the entry whose value lives in
    elem_cell.  The key of an entry is tracked only through the rule-supplied invariant `map_key_field` (the field of the
    value that equals its key); otherwise it is an unknown key."""
    if op in ("values", "values_mut"):
        return Ref(elem_cell)
    kf = getattr(c.it, "map_key_field", None)
    kcell = elem_cell + ":key"
    if kcell not in c.st.cells:
        key = TOP
        ev = c.st.cells.get(elem_cell)
        if kf and isinstance(ev, Struct):
            for a in c.term["func"].get("targs", []):
                t = c.fr.body.ty(a)
                if t.get("k") == "adt" and t["path"] in c.it.prog.adts and c.it.prog.adts[t["path"]].get("local") and c.it.prog.adts[t["path"]]["kind"] == "struct":
                    names = [f["name"] for f in c.it.prog.adts[t["path"]]["variants"][0]["fields"]]
                    if kf in names:
                        key = ev.get(names.index(kf))
        c.st.cells[kcell] = key
    if op == "keys":
        return Ref(kcell)
    return Struct({0: Ref(kcell), 1: Ref(elem_cell)})


@first(r"^" + MAP + r"::(values_mut|values|iter|iter_mut|keys)$")
def map_iter(c):
    mid = map_id(c, c.args[0])
    op_ = c.name.rsplit("::", 1)[1]
    if op_ == "into_iter":
        op_ = "iter_mut" if "&mut " in c.name else "iter"
    n = c.it.fresh_num(c.st, 0, ISIZE_MAX, "nmap")
    if mid is None:
        return [(c.st, Iter(n.e, False, "map"))]
    k = getattr(c.it, "map_elems", 0)
    if k:
        # bounded mode: the map holds exactly k distinct entries, visited in some order
        refs = {}
        for i in range(k):
            cell_i = "mapelem:%s#%d" % (mid, i + 1)
            if cell_i not in c.st.cells:
                elem = TOP
                for a in c.term["func"].get("targs", []):
                    t = c.fr.body.ty(a)
                    if t.get("k") == "adt" and t["path"].split("::")[0] in ("stun_proto", "stun_types") and "TransactionId" not in t["path"]:
                        elem = tag_seqs(c.it.top_of(c.st, c.fr.body, a, hint="elem%d" % (i + 1), region_prefix=cell_i), "elem%d" % (i + 1))
                c.st.cells[cell_i] = elem
            refs[i] = entry_item(c, op_, cell_i)
        event(c.st, "iterate", mid, c.name.rsplit("::", 1)[1])
        return [(c.st, Iter(Lin.const(k), False, "mapk", None, Struct(refs, tag="elems")))]
    cell = "mapelem:%s" % mid
    if cell not in c.st.cells:
        # one summary element standing for every value of the map
        rt = c.ret_ty()
        it = c.it
        # element type: first generic argument that is a workspace ADT
        elem = TOP
        for a in c.term["func"].get("targs", []):
            t = c.fr.body.ty(a)
            if t.get("k") == "adt" and t["path"].split("::")[0] in ("stun_proto", "stun_types") and "TransactionId" not in t["path"]:
                elem = tag_seqs(it.top_of(c.st, c.fr.body, a, hint="elem", region_prefix=cell), "elem")
        c.st.cells[cell] = elem
    event(c.st, "iterate", mid, c.name.rsplit("::", 1)[1])
    return [(c.st, Iter(n.e, False, "map", None, entry_item(c, op_, cell)))]


@first(r"^<std::collections::(btree_map|hash_map)::(ValuesMut|Values|Iter|IterMut|Keys)<.*> as std::iter::Iterator>::next$")
def map_iter_next(c):
    v = c.deref(c.args[0])
    none = Enum(OPTION, {0: Struct()})
    if isinstance(v, Iter) and v.kind == "mapk" and isinstance(v.items, Struct):
        idx = sorted(v.items.f)
        if not idx:
            c.st.cells["ghost:listed"] = Num(Lin.const(0))
            return [(c.st, none)]
        first = v.items.f[idx[0]]
        rest = Iter(Lin.const(len(idx) - 1), False, "mapk", None, Struct({i: v.items.f[i] for i in idx[1:]}, tag="elems"))
        if isinstance(c.args[0], Ref):
            c.it.store(c.st, c.args[0].cell, c.args[0].path, rest)
        event(c.st, "next", idx[0])
        c.st.cells["ghost:listed"] = Num(Lin.const(1))
        return [(c.st, Enum(OPTION, {1: Struct({0: first})}))]
    if isinstance(v, Iter) and isinstance(v.items, V):
        return [(c.st, none), (c.st.copy(), Enum(OPTION, {1: Struct({0: v.items})}))]
    return [(c.st, c.top_ret())]


@first(r"^<&(mut )?std::collections::(BTreeMap|HashMap)<.*> as std::iter::IntoIterator>::into_iter$|^<std::collections::(btree_map|hash_map)::(ValuesMut|Values|Iter|IterMut|Keys)<.*> as std::iter::IntoIterator>::into_iter$")
def map_into_iter(c):
    v = c.deref(c.args[0])
    if isinstance(v, Iter):
        return [(c.st, v)]
    return map_iter(c)


SET = r"std::collections::(HashSet|BTreeSet|hash_set::HashSet|btree_set::BTreeSet)::<.*>"


@first(r"^" + SET + r"::contains::<.*>$")
def set_contains(c):
    mid = map_id(c, c.args[0])
    kr, k = key_repr(c, c.args[1])
    if mid is None or kr is None:
        return [(c.st, TOP)]
    return [(s, Cond("const", p)) for s, p in fork_presence(c, mid, kr)]


@first(r"^" + SET + r"::insert$")
def set_insert(c):
    mid = map_id(c, c.args[0])
    kr, k = key_repr(c, c.args[1])
    if mid is None or kr is None:
        c.havoc_mut_args()
        return [(c.st, TOP)]
    out = []
    for s, p in fork_presence(c, mid, kr):
        event(s, "set_insert", mid, kr)
        set_presence(s, mid, kr, True)
        out.append((s, Cond("const", not p)))
    return out


@first(r"^" + SET + r"::(remove|take)::<.*>$|^" + SET + r"::(clear|retain|drain)|^" + MAP + r"::(clear|retain|drain|pop_first|pop_last|split_off|append)")
def container_shrink(c):
    mid = map_id(c, c.args[0])
    event(c.st, "shrink", mid, c.name.rsplit("::", 1)[1].split("::<")[0])
    c.havoc_mut_args()
    return [(c.st, c.top_ret())]


# ------------------------------------------------------------------------------------------- Box allocation

@first(r"^std::boxed::Box::<.*>::new_uninit$|^std::boxed::Box::<.*>::new$")
def box_new(c):
    cell = "%s/%d.%d:box" % (c.fr.id, c.bb, c.part)
    c.st.cells[cell] = c.args[0] if c.args else TOP
    return [(c.st, Ref(cell))]


@first(r"^std::boxed::Box::<std::mem::MaybeUninit<.*>>::assume_init$|^std::mem::MaybeUninit::<.*>::(assume_init|write)$")
def box_assume_init(c):
    return [(c.st, c.args[0])]


@first(r"^std::slice::<impl \[.*\]>::into_vec::<.*>$")
def slice_into_vec(c):
    v = c.deref(c.args[0])
    if isinstance(v, Seq):
        return [(c.st, Seq(v.len, None, v.items, None, v.content()))]
    return [(c.st, c.top_ret())]


@first(r"^std::boxed::box_assume_init_into_vec_unsafe::<.*>$")
def box_into_vec(c):
    """the tail of `vec![a, b, ...]`: the boxed array becomes the vector, element for element"""
    v = c.deref(c.args[0])
    n = 0
    while isinstance(v, Struct) and len(v.f) == 1 and n < 6:
        v = next(iter(v.f.values()))
        n += 1
    if isinstance(v, Seq):
        return [(c.st, Seq(v.len, None, v.items, None, v.content()))]
    m = re.search(r"::<.*, (\d+)>$", c.name)
    return [(c.st, Seq(Lin.const(int(m.group(1)))) if m else c.top_ret())]


# ------------------------------------------------------------------------------------------- std::mem

@first(r"^std::mem::replace::<.*>$|^core::mem::replace::<.*>$")
def mem_replace(c):
    r = c.args[0]
    if isinstance(r, Ref):
        old = c.it.load(c.st, r.cell, r.path)
        c.it.store(c.st, r.cell, r.path, c.args[1])
        return [(c.st, old)]
    c.havoc_mut_args()
    return [(c.st, c.top_ret())]


@first(r"^std::mem::take::<.*>$|^core::mem::take::<.*>$")
def mem_take(c):
    """`mem::take(&mut x)`: hands out x and leaves the type's default (false, 0, None, an empty container) behind"""
    from absint.interp import int_range
    r = c.args[0]
    t = c.ret_ty()
    dflt = None
    if t.get("k") == "bool":
        dflt = Num(Lin.const(0)) if c.it.bool_vars else Cond("const", False)
    elif int_range(t) is not None:
        dflt = Num(Lin.const(0))
    elif t.get("k") == "adt" and t.get("path") == OPTION:
        dflt = Enum(OPTION, {0: Struct()})
    elif t.get("k") == "adt" and t.get("path") in ("std::vec::Vec", "std::string::String"):
        dflt = Seq(Lin.const(0), None, EMPTY)
    if isinstance(r, Ref) and dflt is not None:
        old = c.it.load(c.st, r.cell, r.path)
        c.it.store(c.st, r.cell, r.path, dflt)
        return [(c.st, old)]
    c.havoc_mut_args()
    return [(c.st, c.top_ret())]


@first(r"^std::mem::swap::<.*>$|^core::mem::swap::<.*>$")
def mem_swap(c):
    a, b = c.args[0], c.args[1]
    if isinstance(a, Ref) and isinstance(b, Ref):
        va, vb = c.it.load(c.st, a.cell, a.path), c.it.load(c.st, b.cell, b.path)
        c.it.store(c.st, a.cell, a.path, vb)
        c.it.store(c.st, b.cell, b.path, va)
        return [(c.st, Struct())]
    c.havoc_mut_args()
    return [(c.st, Struct())]


# ------------------------------------------------------------------------------------------- fold / try_fold as loops

FOLD = r"^<(std::slice::Iter(Mut)?<.*>|std::vec::IntoIter<.*>|std::iter::(Copied|Cloned)<std::slice::Iter<.*>>) as std::iter::Iterator>::(?P<op>try_fold|fold)::<.*>$"


@first(FOLD)
def fold_loop(c):
    """`iter.fold(init, f)` / `iter.try_fold(init, f)` over a sequence iterator: analysed as the loop it is - the closure is
    called in context on the accumulator and a summary element until the accumulator's abstract value is stable"""
    from absint.interp import sys_widen, FailClosed
    op = re.match(FOLD, c.name).group("op")
    itv = c.deref(c.args[0])
    init, f = c.args[1], c.args[2]
    fc = c.deref(f)
    if not (isinstance(itv, Iter) and isinstance(fc, Struct) and fc.tag and fc.tag in c.it.prog.bodies and not itv.maps and not itv.enumerated):
        return None
    cb = c.it.prog.bodies[fc.tag]
    listed = listed_elems(itv)
    if listed is not None and len(listed) <= 16 and op == "fold":
        # elements known one by one: the closure is applied to each in order, exactly
        states = [(c.st, init)]
        for i, x in enumerate(listed):
            nxt = []
            for st_, acc_ in states:
                res = c.call_closure(st_, f, [acc_, x], "ff%d" % i)
                if res is None:
                    return None
                nxt.extend(res)
            states = nxt
        return states
    elem = summ(itv.items) if isinstance(itv.items, V) and not isinstance(itv.items, Empty) else None
    acc_cell = "%s/%d.%d:acc" % (c.fr.id, c.bb, c.part)
    elem_prefix = "%s/%d.%d:elem" % (c.fr.id, c.bb, c.part)
    rt = c.ret_ty()
    rpath = rt.get("path") if rt.get("k") == "adt" else None
    # continue / break variants of the closure's result (try_fold only)
    cont_idx = {"std::result::Result": 0, "std::option::Option": 1, "std::ops::ControlFlow": 0}.get(rpath)
    if op == "try_fold" and cont_idx is None:
        return None
    head = c.st
    head.cells[acc_cell] = init
    exits = []
    empty_iter = isinstance(itv.items, Empty) or c.st.sys.entails_eq(itv.len)
    rounds = 0
    while not empty_iter:
        rounds += 1
        if rounds > 12:
            raise FailClosed("fold over an iterator does not stabilise in %s" % c.fr.body.key)
        s = head.copy()
        acc = s.cells[acc_cell]
        ev = elem
        if ev is None:
            # an element of unknown value: materialised by the closure's parameter type
            ev = c.it.top_of(s, cb, cb.locals[3]["ty"] if cb.arg_count >= 3 else cb.locals[2]["ty"], hint="elem", region_prefix=elem_prefix)
        res = c.call_closure(s, f, [acc, ev], "fold")
        if res is None:
            return None
        new = head
        exits_round = []
        for s2, r in res:
            if s2.sys.bottom:
                continue
            if op == "fold":
                a2 = r
            else:
                if not isinstance(r, Enum):
                    return None
                if (1 - cont_idx) in r.v and len(r.v) > 1:
                    return None          # undecided outcome of the closure: give up on precision
                if cont_idx not in r.v:
                    exits_round.append((s2, r))
                    continue
                a2 = r.v[cont_idx].get(0)
            s2 = s2.copy()
            s2.cells[acc_cell] = a2
            for k_ in [k_ for k_ in s2.cells if k_ not in head.cells and k_ != acc_cell and not k_.startswith(("wlog:", "ghost:"))]:
                del s2.cells[k_]
            j = c.it.join_states(new, s2, "%s/%d:fold" % (c.fr.id, c.bb))
            if rounds > 3:
                j.sys = sys_widen(new.sys, j.sys, thresholds=False)
            new = j
        exits = exits_round        # the breaks of the last (most general) round cover those of earlier rounds
        if c.it.state_leq(new, head):
            break
        head = new
    out = []
    acc = head.cells.pop(acc_cell, init)
    for k_ in [k_ for k_ in head.cells if k_.startswith(elem_prefix)]:
        del head.cells[k_]
    if op == "fold" and isinstance(acc, Num) and isinstance(init, Num) and not fc.f and len(itv.len.t) == 1 and itv.len.c == 0 and elem is None:
        # a fold with a capture-free closure is a function of the sequence and the initial value: evaluations over the
        # same sequence agree, so the result gets a variable named after (closure, sequence, initial value)
        from absint.interp import hash_str
        lv = next(iter(itv.len.t))
        nm = "fF%x_%s" % (hash_str("%s|%r" % (fc.tag, head.sys.reduce(init.e))) & 0xffffffff, lv)
        cv = Lin.var(nm)
        head.sys.add_eq(cv - acc.e)
        c.it.purefun[nm] = {lv}
        acc = Num(cv)
    if op == "fold":
        out.append((head, acc))
    else:
        out.append((head, Enum(rpath, {cont_idx: Struct({0: acc})})))
        for s2, r in exits:
            s2.cells.pop(acc_cell, None)
            out.append((s2, r))
    return out


# ------------------------------------------------------------------------------------------- iterators over listed elements
# An iterator whose remaining elements are known one by one (a short list: array literal, constant array, a scripted
# sequence) is transformed element by element, the closures being called in context; predicates that a path does not
# decide fork the path.  Everything else falls through to the summarising models.

LISTED_OPS = ("map", "filter", "copied", "cloned", "collect", "any", "all", "find", "position", "count", "enumerate", "for_each", "filter_map", "find_map", "rev", "next")


def listed_elems(v):
    return [v.items.f[i] for i in sorted(v.items.f)] if isinstance(v, Iter) and is_listed(v.items) and not v.maps and not v.enumerated else None


def mk_listed(vals, kind="vec"):
    return Iter(Lin.const(len(vals)), False, kind, None, Struct({i: x for i, x in enumerate(vals)}, tag="elems"))


def as_truth(c, st, v):
    """-> list of (state, bool) for a boolean abstract value (forks when the path does not decide it)"""
    if isinstance(v, Cond):
        k = c.it.cond_known(st, v)
        if k is not None:
            return [(st, k)]
        s1, s2 = st, st.copy()
        out = []
        # (the decision stays on the path's trace, so that paths that decided differently are never merged)
        if c.it.assume(s1, v, True) and not s1.sys.bottom:
            event(s1, "decided", repr(v)[:120], True)
            out.append((s1, True))
        if c.it.assume(s2, v, False) and not s2.sys.bottom:
            event(s2, "decided", repr(v)[:120], False)
            out.append((s2, False))
        return out
    if isinstance(v, Num):
        cv = st.sys.const_value(v.e)
        if cv is not None:
            return [(st, cv != 0)]
        s1, s2 = st, st.copy()
        out = []
        if c.it.assume(s1, v, True) and not s1.sys.bottom:
            out.append((s1, True))
        if c.it.assume(s2, v, False) and not s2.sys.bottom:
            out.append((s2, False))
        return out
    return [(st, True), (st.copy(), False)]


@first(r"^<.* as std::iter::Iterator>::(map|filter|copied|cloned|collect|any|all|find|position|count|filter_map|find_map|rev)(::<.*>)?$")
def listed_adaptor(c):
    recv = c.args[0]
    by_ref = isinstance(recv, Ref)
    v = c.deref(recv)
    elems = listed_elems(v)
    if elems is None or len(elems) > 6:
        return c.it.models.lookup_after(c.name, listed_adaptor)(c)
    op = re.search(r" as std::iter::Iterator>::(\w+)(::<.*>)?$", c.name).group(1)
    if op in ("copied", "cloned"):
        return [(c.st, mk_listed([c.deref(x) for x in elems], v.kind))]
    if op == "rev":
        return [(c.st, mk_listed(list(reversed(elems)), v.kind))]
    if op == "count":
        return [(c.st, Num(Lin.const(len(elems))))]
    if op == "collect":
        rt = c.ret_ty()
        if rt.get("k") == "adt" and rt["path"] in ("std::vec::Vec", "smallvec::SmallVec", "std::boxed::Box"):
            return [(c.st, Seq(Lin.const(len(elems)), None, Struct({i: x for i, x in enumerate(elems)}, tag="elems") if elems else EMPTY))]
        return c.it.models.lookup_after(c.name, listed_adaptor)(c)
    f = c.args[1] if len(c.args) > 1 else None
    if f is None:
        return c.it.models.lookup_after(c.name, listed_adaptor)(c)

    def call(st, x, tag):
        # closures of filter / find / position take a reference to the element
        arg = x
        if op in ("filter", "find", "position"):
            cell = "%s/%d.%d:le%s" % (c.fr.id, c.bb, c.part, tag)
            st.cells[cell] = x
            arg = Ref(cell)
        return c.call_closure(st, f, [arg], "l%s" % tag)
    if op == "map":
        states = [(c.st, [])]
        for i, x in enumerate(elems):
            nxt = []
            for st, acc in states:
                res = call(st, x, "m%d" % i)
                if res is None:
                    return c.it.models.lookup_after(c.name, listed_adaptor)(c)
                for st2, r in res:
                    nxt.append((st2, acc + [r]))
            states = nxt
        return [(st, mk_listed(acc, v.kind)) for st, acc in states]
    if op == "filter":
        states = [(c.st, [])]
        for i, x in enumerate(elems):
            nxt = []
            for st, acc in states:
                res = call(st, x, "f%d" % i)
                if res is None:
                    return c.it.models.lookup_after(c.name, listed_adaptor)(c)
                for st2, r in res:
                    for st3, t in as_truth(c, st2, r):
                        nxt.append((st3, acc + [x] if t else acc))
            states = nxt
        return [(st, mk_listed(acc, v.kind)) for st, acc in states]
    if op in ("any", "all", "find", "position"):
        out = []
        states = [c.st]
        for i, x in enumerate(elems):
            nxt = []
            for st in states:
                res = call(st, x, "p%d" % i)
                if res is None:
                    return c.it.models.lookup_after(c.name, listed_adaptor)(c)
                for st2, r in res:
                    for st3, t in as_truth(c, st2, r):
                        stop = t if op in ("any", "find", "position") else not t
                        if stop:
                            if by_ref:
                                c.it.store(st3, recv.cell, recv.path, mk_listed(elems[i + 1:], v.kind))
                            if op == "any":
                                out.append((st3, Cond("const", True)))
                            elif op == "all":
                                out.append((st3, Cond("const", False)))
                            elif op == "find":
                                out.append((st3, Enum(OPTION, {1: Struct({0: x})})))
                            else:
                                out.append((st3, Enum(OPTION, {1: Struct({0: Num(Lin.const(i))})})))
                        else:
                            nxt.append(st3)
            states = nxt
        for st in states:
            if by_ref:
                c.it.store(st, recv.cell, recv.path, mk_listed([], v.kind))
            out.append((st, Cond("const", False) if op == "any" else Cond("const", True) if op == "all" else Enum(OPTION, {0: Struct()})))
        return out
    return c.it.models.lookup_after(c.name, listed_adaptor)(c)


@first(r"^<.* as std::iter::Iterator>::next$")
def listed_next(c):
    """next() of any iterator whose remaining elements are known one by one: hands them out in order"""
    recv = c.args[0]
    v = c.deref(recv)
    if not (isinstance(recv, Ref) and isinstance(v, Iter) and is_listed(v.items) and not v.maps and not v.enumerated):
        return c.it.models.lookup_after(c.name, listed_next)(c)
    idx = sorted(v.items.f)
    if not idx:
        c.st.cells["ghost:listed"] = Num(Lin.const(0))
        return [(c.st, Enum(OPTION, {0: Struct()}))]
    rest = Iter(Lin.const(len(idx) - 1), False, v.kind, None, Struct({i: v.items.f[i] for i in idx[1:]}, tag="elems"))
    c.it.store(c.st, recv.cell, recv.path, rest)
    event(c.st, "next", idx[0])
    c.st.cells["ghost:listed"] = Num(Lin.const(1))
    return [(c.st, Enum(OPTION, {1: Struct({0: v.items.f[idx[0]]})}))]


# ------------------------------------------------------------------------------------------- min / max of uninterpreted values

@first(r"^<std::time::(Instant|Duration) as std::cmp::Ord>::(min|max)$|^std::cmp::(min|max)::<std::time::(Instant|Duration)>$")
def term_min_max(c):
    """min / max of two instants: one of them, with the comparison that selects it recorded as a decision of the path"""
    a, b = val(c, c.args[0]), val(c, c.args[1])
    is_min = re.search(r"(min)(::<.*>)?$", c.name) is not None and "max" not in c.name.rsplit("::", 2)[-1]
    if a == b:
        return [(c.st, a)]
    out = []
    for truth in (True, False):
        st = c.st.copy()
        cnd = Cond("ucmp", ("le", a, b))
        if c.it.assume(st, cnd, truth):
            # a <= b: min is a, max is b (ties: min returns the first, max the second - the same value either way)
            out.append((st, (a if truth else b) if is_min else (b if truth else a)))
    return out


# ------------------------------------------------------------------------------------------- Option::as_ref / as_mut / as_deref

@first(r"^std::option::Option::<.*>::(as_ref|as_mut)$")
def option_as_ref(c):
    """`opt.as_ref()`: None, or Some(reference into the option) - decided per variant of the option it borrows from"""
    r = c.args[0]
    if not isinstance(r, Ref):
        return c.it.models.lookup_after(c.name, option_as_ref)(c)
    v = c.it.load(c.st, r.cell, r.path)
    if not (isinstance(v, Enum) and v.adt == OPTION):
        return c.it.models.lookup_after(c.name, option_as_ref)(c)
    out = []
    for i in sorted(v.v):
        st = c.st if len(v.v) == 1 else c.st.copy()
        if len(v.v) > 1 and not c.it.refine_discr(st, DiscrOf(r.cell, r.path, OPTION), i, True):
            continue
        if i == 0:
            out.append((st, Enum(OPTION, {0: Struct()})))
        else:
            out.append((st, Enum(OPTION, {1: Struct({0: Ref(r.cell, tuple(r.path) + (("v", 1), ("f", 0)))})})))
    return out


# ------------------------------------------------------------------------------------------- bool::then / then_some, operators on references

@first(r"^core::bool::<impl bool>::then_some::<.*>$")
def bool_then_some(c):
    out = []
    for st, t in as_truth(c, c.st, c.args[0]):
        out.append((st, Enum(OPTION, {1: Struct({0: c.args[1]})}) if t else Enum(OPTION, {0: Struct()})))
    return out


@first(r"^core::bool::<impl bool>::then::<.*>$")
def bool_then(c):
    out = []
    for st, t in as_truth(c, c.st, c.args[0]):
        if not t:
            out.append((st, Enum(OPTION, {0: Struct()})))
            continue
        res = c.call_closure(st, c.args[1], [], "then")
        if res is None:
            c.escape(c.args[1])
            out.append((st, c.top_ret(st)))
        else:
            out.extend((s2, Enum(OPTION, {1: Struct({0: r})})) for s2, r in res)
    return out


@first(r"^<&(u8|u16|u32|u64|u128|usize) as std::ops::(BitXor|BitAnd|BitOr)(<&?(u8|u16|u32|u64|u128|usize)>)?>::(bitxor|bitand|bitor)$")
def ref_bitop(c):
    """bit operators on references to integers: total, the result is an integer of that type"""
    return [(c.st, c.top_ret())]


# ------------------------------------------------------------------------------------------- slice.iter_mut().for_each(|b| *b = v)

@first(r"^core::slice::<impl \[u8\]>::iter_mut$")
def bytes_iter_mut(c):
    """`slice.iter_mut()` over bytes: an iterator that remembers which window of which buffer it walks"""
    src = c.deref(c.args[0])
    if isinstance(src, Seq) and src.view is not None:
        if str(src.view[0]).startswith("@"):
            # a window of a content-tracked container: bytes may be written through the items handed out (a `for` loop over
            # the iterator leaves no other trace), so the window's bytes are unknown from here on; `for_each` refines this
            from absint.models_content import patch_container
            patch_container(c.it, c.st, src.view, Lin.const(0), src.len, ("be", 0, None))
        return [(c.st, Iter(src.len, False, "bytesmut", None, Seq(src.len, None, None, src.view, None)))]
    return c.it.models.lookup_after(c.name, bytes_iter_mut)(c)


@first(r"^<std::slice::IterMut<'?.*u8> as std::iter::Iterator>::for_each::<.*>$")
def bytes_for_each(c):
    """every byte of the window is assigned what the closure assigns to one byte (run once on a summary byte): a fill"""
    v = c.deref(c.args[0])
    f = c.args[1]
    if not (isinstance(v, Iter) and v.kind == "bytesmut" and isinstance(v.items, Seq)):
        return c.it.models.lookup_after(c.name, bytes_for_each)(c)
    win = v.items
    cell = "%s/%d.%d:fillbyte" % (c.fr.id, c.bb, c.part)
    c.st.cells[cell] = TOP
    res = c.call_closure(c.st, f, [Ref(cell)], "fill")
    if res is None:
        c.escape(f)
        c.it.record_write(c.st, win, Lin.const(0), win.len, "data")
        return [(c.st, Struct())]
    out = []
    for st2, _ in res:
        b = st2.cells.get(cell)
        zero = isinstance(b, Num) and st2.sys.const_value(b.e) == 0
        c.it.record_write(st2, win, Lin.const(0), win.len, "zero" if zero else "data")
        st2.cells.pop(cell, None)
        out.append((st2, Struct()))
    return out


# ------------------------------------------------------------------------------------------- Option combinators with closures

@first(r"^std::option::Option::<.*>::(is_some_and|is_none_or|map_or|map_or_else)::<.*>$")
def option_closure_combinators(c):
    """is_some_and / is_none_or / map_or / map_or_else: decided per variant, the closure called in context"""
    v = c.args[0]
    op = re.search(r"::(is_some_and|is_none_or|map_or|map_or_else)::<", c.name).group(1)
    if not (isinstance(v, Enum) and v.adt == OPTION):
        return c.it.models.lookup_after(c.name, option_closure_combinators)(c)
    out = []
    for i in sorted(v.v):
        st = c.st if len(v.v) == 1 else c.st.copy()
        if i == 0:
            if op == "is_some_and":
                out.append((st, Cond("const", False)))
            elif op == "is_none_or":
                out.append((st, Cond("const", True)))
            elif op == "map_or":
                out.append((st, c.args[1]))
            else:
                res = c.call_closure(st, c.args[1], [], "mo")
                if res is None:
                    return c.it.models.lookup_after(c.name, option_closure_combinators)(c)
                out.extend(res)
        else:
            f = c.args[1] if op in ("is_some_and", "is_none_or") else c.args[2]
            res = c.call_closure(st, f, [v.v[1].get(0)], "ms")
            if res is None:
                return c.it.models.lookup_after(c.name, option_closure_combinators)(c)
            out.extend(res)
    return out
